package main

// Translator for C19: lock / shared-location footprint of /repo/pkg/yang  ->  coq/Gen/Locks.v
//
// For every function (and every escaping closure) of the package, in source order:
//   IAcc loc R|W held     an access to a shared location
//   ICall callee held     a call (or reference) to a function of the package
// where `held` is the list of mutexes syntactically held at that point: `x.mu.Lock()/RLock()` add,
// `x.mu.Unlock()/RUnlock()` remove, `defer x.mu.Unlock()` keeps the lock to the end of the function.
//
// Shared locations
//   T.f        field f of a struct type T of the package.  Reads are recorded for the "core" types
//              (Modules, typeDictionary, identityDictionary); WRITES are recorded for every struct type,
//              unless the written object is provably local (a struct-valued local, or a local pointer that
//              was bound to &T{..}/new(T) in this function).
//   pkg.v      package-level variable v (reads and writes; map/slice contents are merged with the variable).
//              A method call v.M(..) on a variable whose type is imported (sync.Map, atomic.Value ...) is a
//              WRITE unless M is known to be read-only (Load, Range, Match* ...): a process-wide memo is
//              shared state written during processing even if the type synchronises internally
//   pkg.v[]    an object reached from the package-level variable v through a local pointer that MAY alias it
//              (`x := v[k]`, `for _, x := range v`, then `y := x.F` ...; flow insensitive, never forgotten) -- writes only:
//              `y.G = ..` is then a write of the process-wide object
//   local.x / deref  writes through a local map/slice/pointer of unknown origin
//   handout:pkg.v  a function RETURNS the pointer held in the package-level variable v (or &v): the process-wide
//              object is handed out, e.g. by a constructor helper that shares one default object, and ends up in
//              per-set data where a later `x.F.G = ..` writes it
//   adopt:T.f  a function STORES a slice or map PARAMETER (or a reslicing of it, or a local bound to it) into
//              field T.f (assignment or composite literal) instead of a copy: the object now shares its backing
//              store with the caller and with every other object that was given the same argument
//   escape:T.f a function RETURNS the slice or map stored in T.f (or a reslicing of it, or a local bound to it)
//              instead of a copy: the shared container is handed to the caller, who may treat it as its own.
//              Recorded as a write; on the read paths of C19 it must therefore be in the allow-list.
//
// f_init_only = the function is NOT reachable (through calls or function-value references) from an exported
// function/method, a closure that is stored somewhere, or a package-level initialiser: it can run only from
// init (or not at all).  Calls through interfaces go to the pseudo function "iface:<method>" (all concrete
// methods of that name), calls through function values to "dyn" (all stored closures); closures that are
// called, deferred, passed as an argument or bound to a local that is only ever called are walked in place.
//
// The analysis is syntactic (go/ast) with go/types used ONLY to resolve identifiers, field owners and method
// receivers of package-local types; imports are replaced by empty packages (no dependence on the
// environment), type errors caused by that are ignored.  Unsupported shapes fail the generation (fail closed):
// a Lock()/RLock() whose matching Unlock()/RUnlock() is not a statement of the same block (function body, or
// the body of an if/else/for/case/bare block: block-local critical sections are fine) and, in a function body,
// is not deferred either; a `defer ...Unlock()` inside a nested block or loop; a `go` statement; a mutex that
// is not a struct field of type sync.Mutex / sync.RWMutex.

import (
	"fmt"
	"go/ast"
	"go/parser"
	"go/token"
	"go/types"
	"os"
	"path/filepath"
	"sort"
	"strings"
)

func init() { generators = append(generators, genLocks) }

type fakeImporter struct{}

func (fakeImporter) Import(path string) (*types.Package, error) {
	name := path[strings.LastIndex(path, "/")+1:]
	p := types.NewPackage(path, name)
	p.MarkComplete()
	return p, nil
}

var lkCoreTypes = []string{"Modules", "identityDictionary", "typeDictionary"}

type lkItem struct {
	call bool
	name string // location or callee
	w    bool
	held string // rendered Coq list
	line int
}

type lkFunc struct {
	name  string
	items []lkItem
	refs  map[string]bool
	root  bool // callable from outside the package / stored closure
}

type lkGen struct {
	fset       *token.FileSet
	info       *types.Info
	pkg        *types.Package
	fieldOwner map[*types.Var]string
	mutexField map[*types.Var]bool // value: is RWMutex
	core       map[string]bool
	funcs      map[string]*lkFunc
	methodsBy  map[string][]string // method name -> concrete "T.m"
	ifaceUsed  map[string]bool
	escaping   []string
	err        error
}

func (g *lkGen) fail(pos token.Pos, format string, a ...interface{}) {
	if g.err == nil {
		g.err = fmt.Errorf("gen_locks: %s: %s", g.fset.Position(pos), fmt.Sprintf(format, a...))
	}
}

func genLocks(repo string) (string, string, error) {
	dir := filepath.Join(repo, "pkg", "yang")
	ents, err := os.ReadDir(dir)
	if err != nil {
		return "", "", err
	}
	fset := token.NewFileSet()
	var files []*ast.File
	var names []string
	for _, e := range ents {
		n := e.Name()
		if e.IsDir() || !strings.HasSuffix(n, ".go") || strings.HasSuffix(n, "_test.go") {
			continue
		}
		names = append(names, n)
	}
	sort.Strings(names)
	for _, n := range names {
		src, err := os.ReadFile(filepath.Join(dir, n))
		if err != nil {
			return "", "", err
		}
		if isVerifHook(string(src)) {
			continue
		}
		f, err := parser.ParseFile(fset, n, src, parser.ParseComments)
		if err != nil {
			return "", "", err
		}
		files = append(files, f)
	}
	info := &types.Info{
		Defs: map[*ast.Ident]types.Object{}, Uses: map[*ast.Ident]types.Object{},
		Selections: map[*ast.SelectorExpr]*types.Selection{}, Types: map[ast.Expr]types.TypeAndValue{},
	}
	conf := types.Config{Importer: fakeImporter{}, Error: func(error) {}, DisableUnusedImportCheck: true}
	pkg, _ := conf.Check("yang", fset, files, info)
	if pkg == nil {
		return "", "", fmt.Errorf("gen_locks: type check produced no package")
	}
	g := &lkGen{fset: fset, info: info, pkg: pkg, fieldOwner: map[*types.Var]string{}, mutexField: map[*types.Var]bool{},
		core: map[string]bool{}, funcs: map[string]*lkFunc{}, methodsBy: map[string][]string{}, ifaceUsed: map[string]bool{}}
	for _, c := range lkCoreTypes {
		g.core[c] = true
	}
	// struct types: field owners, mutex fields
	seenCore := map[string]bool{}
	for _, f := range files {
		for _, d := range f.Decls {
			gd, ok := d.(*ast.GenDecl)
			if !ok || gd.Tok != token.TYPE {
				continue
			}
			for _, s := range gd.Specs {
				ts := s.(*ast.TypeSpec)
				st, ok := ts.Type.(*ast.StructType)
				if !ok {
					continue
				}
				seenCore[ts.Name.Name] = true
				for _, fld := range st.Fields.List {
					mu, rw := isSyncMutex(fld.Type)
					if len(fld.Names) == 0 && mu {
						g.fail(fld.Pos(), "embedded mutex in %s is not supported", ts.Name.Name)
					}
					for _, id := range fld.Names {
						if v, ok := info.Defs[id].(*types.Var); ok {
							g.fieldOwner[v] = ts.Name.Name
							if mu {
								g.mutexField[v] = rw
							}
						}
					}
				}
			}
		}
	}
	for _, c := range lkCoreTypes {
		if !seenCore[c] {
			return "", "", fmt.Errorf("gen_locks: struct type %s not found in %s", c, dir)
		}
	}
	// concrete methods by name (for calls through interfaces)
	for _, f := range files {
		for _, d := range f.Decls {
			if fd, ok := d.(*ast.FuncDecl); ok && fd.Recv != nil {
				g.methodsBy[fd.Name.Name] = append(g.methodsBy[fd.Name.Name], g.declName(fd, ""))
			}
		}
	}
	// functions
	pkgInitRefs := map[string]bool{}
	for _, f := range files {
		fname := fset.Position(f.Pos()).Filename
		for _, d := range f.Decls {
			switch d := d.(type) {
			case *ast.FuncDecl:
				if d.Body == nil {
					continue
				}
				name := g.declName(d, fname)
				fn := &lkFunc{name: name, refs: map[string]bool{}, root: ast.IsExported(d.Name.Name)}
				if g.funcs[name] != nil {
					g.fail(d.Pos(), "duplicate function name %s", name)
				}
				g.funcs[name] = fn
				g.walkBody(fn, d.Body, d.Body, d.Type)
			case *ast.GenDecl:
				if d.Tok != token.VAR {
					continue
				}
				// function references in package-level initialisers: the function value may be called later
				tmp := &lkFunc{name: "$pkginit", refs: map[string]bool{}}
				for _, s := range d.Specs {
					for _, v := range s.(*ast.ValueSpec).Values {
						g.walkBody(tmp, v, nil, nil)
					}
				}
				for r := range tmp.refs {
					pkgInitRefs[r] = true
				}
			}
		}
	}
	if g.err != nil {
		return "", "", g.err
	}
	// pseudo functions: calls through interfaces and through function values
	for m := range g.ifaceUsed {
		fn := &lkFunc{name: "iface:" + m, refs: map[string]bool{}}
		ms := append([]string{}, g.methodsBy[m]...)
		sort.Strings(ms)
		for _, c := range ms {
			fn.items = append(fn.items, lkItem{call: true, name: c, held: "[]"})
			fn.refs[c] = true
		}
		g.funcs[fn.name] = fn
	}
	dyn := &lkFunc{name: "dyn", refs: map[string]bool{}, root: true}
	sort.Strings(g.escaping)
	for _, c := range g.escaping {
		dyn.items = append(dyn.items, lkItem{call: true, name: c, held: "[]"})
		dyn.refs[c] = true
	}
	g.funcs["dyn"] = dyn
	// init-only: not reachable from an exported function, a stored closure or a package-level initialiser
	nonInit := map[string]bool{}
	var work []string
	push := func(n string) {
		if !nonInit[n] && g.funcs[n] != nil {
			nonInit[n] = true
			work = append(work, n)
		}
	}
	for n, f := range g.funcs {
		if f.root {
			push(n)
		}
	}
	for n := range pkgInitRefs {
		push(n)
	}
	for len(work) > 0 {
		n := work[len(work)-1]
		work = work[:len(work)-1]
		for r := range g.funcs[n].refs {
			push(r)
		}
	}
	// output
	var fnames []string
	for n := range g.funcs {
		fnames = append(fnames, n)
	}
	sort.Strings(fnames)
	muSet := map[string]bool{}
	for v, rw := range g.mutexField {
		muSet[fmt.Sprintf("(%q, %v)", g.fieldOwner[v]+"."+v.Name(), rw)] = true
	}
	var mus []string
	for m := range muSet {
		mus = append(mus, m)
	}
	sort.Strings(mus)
	var b strings.Builder
	b.WriteString("(* GENERATED by harness/go/gen_locks.go from pkg/yang/*.go (non-test, hooks skipped) -- do not edit.\n")
	b.WriteString("   One entry per function / escaping closure: shared-location accesses and calls in source order,\n")
	b.WriteString("   each with the mutexes syntactically held.  See the header of gen_locks.go for the conventions. *)\n")
	b.WriteString("From Coq Require Import List String.\nFrom GY Require Import Model.Conc.\nImport ListNotations.\nLocal Open Scope string_scope.\n\n")
	b.WriteString("(* mutex fields found: (Type.field, is RWMutex) *)\n")
	b.WriteString("Definition mutexes : list (string * bool) := [" + strings.Join(mus, "; ") + "].\n\n")
	b.WriteString("Definition table : list func := [\n")
	for i, n := range fnames {
		f := g.funcs[n]
		fmt.Fprintf(&b, " {| f_name := %q; f_init_only := %v; f_body := [", n, !nonInit[n])
		var prev string
		first := true
		for _, it := range f.items {
			var s string
			if it.call {
				s = fmt.Sprintf("ICall %q %s", it.name, it.held)
			} else if it.w {
				s = fmt.Sprintf("IAcc %q W %s", it.name, it.held)
			} else {
				s = fmt.Sprintf("IAcc %q R %s", it.name, it.held)
			}
			if s == prev {
				continue // consecutive duplicates carry no information
			}
			prev = s
			if !first {
				b.WriteString(";")
			}
			first = false
			b.WriteString("\n    " + s)
		}
		b.WriteString("] |}")
		if i+1 < len(fnames) {
			b.WriteString(";")
		}
		b.WriteString("\n")
	}
	b.WriteString("].\n")
	return "Locks.v", b.String(), nil
}

func isVerifHook(src string) bool {
	for _, line := range strings.Split(src, "\n") {
		t := strings.TrimSpace(line)
		if strings.HasPrefix(t, "package ") {
			return false
		}
		if (strings.HasPrefix(t, "//go:build") || strings.HasPrefix(t, "// +build")) && strings.Contains(t, "verif") {
			return true
		}
	}
	return false
}

func isSyncMutex(e ast.Expr) (bool, bool) {
	if st, ok := e.(*ast.StarExpr); ok {
		e = st.X
	}
	se, ok := e.(*ast.SelectorExpr)
	if !ok {
		return false, false
	}
	if id, ok := se.X.(*ast.Ident); !ok || id.Name != "sync" {
		return false, false
	}
	switch se.Sel.Name {
	case "Mutex":
		return true, false
	case "RWMutex":
		return true, true
	}
	return false, false
}

func (g *lkGen) declName(d *ast.FuncDecl, file string) string {
	if d.Recv == nil || len(d.Recv.List) == 0 {
		if d.Name.Name == "init" {
			return "init@" + file
		}
		return d.Name.Name
	}
	t := d.Recv.List[0].Type
	if st, ok := t.(*ast.StarExpr); ok {
		t = st.X
	}
	if id, ok := t.(*ast.Ident); ok {
		return id.Name + "." + d.Name.Name
	}
	return "?." + d.Name.Name
}

func namedOf(t types.Type) string {
	for {
		switch u := t.(type) {
		case *types.Pointer:
			t = u.Elem()
			continue
		case *types.Named:
			return u.Obj().Name()
		}
		return ""
	}
}

func unparen(e ast.Expr) ast.Expr {
	for {
		p, ok := e.(*ast.ParenExpr)
		if !ok {
			return e
		}
		e = p.X
	}
}

// ---------------------------------------------------------------------------------- body walk

type lkWalk struct {
	g         *lkGen
	fn        *lkFunc
	held      []string // Coq terms ("M", MX)
	fresh     map[types.Object]bool
	alias     map[types.Object]string
	wtgt      map[ast.Node]string // node -> written location (emit W instead of R at this node)
	skip      map[ast.Node]bool
	okLock    map[*ast.CallExpr]bool
	escLit    map[*ast.FuncLit]bool
	ownRet    map[*ast.ReturnStmt]bool // return statements of the function itself (not of a literal inside it)
	fieldAl   map[types.Object]string  // local bound to a slice/map field (x := e.F, x := e.F[a:b]) -> "T.F"
	paramAl   map[types.Object]bool    // local bound to (a reslicing of) a slice/map parameter
	pkgElem   map[types.Object]string  // local that MAY point into the package-level object "pkg.v" (never forgotten)
	params    map[types.Object]bool    // parameters of the function and of its inlined literals
	inlineObj map[types.Object]bool    // locals bound only to literals that are walked in place
}

func (g *lkGen) walkBody(fn *lkFunc, body ast.Node, top *ast.BlockStmt, sig *ast.FuncType) {
	w := &lkWalk{g: g, fn: fn, fresh: map[types.Object]bool{}, alias: map[types.Object]string{}, wtgt: map[ast.Node]string{},
		skip: map[ast.Node]bool{}, okLock: map[*ast.CallExpr]bool{}, escLit: map[*ast.FuncLit]bool{},
		params: map[types.Object]bool{}, inlineObj: map[types.Object]bool{},
		ownRet: map[*ast.ReturnStmt]bool{}, fieldAl: map[types.Object]string{}, paramAl: map[types.Object]bool{},
		pkgElem: map[types.Object]string{}}
	ast.Inspect(body, func(n ast.Node) bool {
		switch x := n.(type) {
		case *ast.FuncLit:
			return false
		case *ast.ReturnStmt:
			w.ownRet[x] = true
		}
		return true
	})
	w.addParams(sig)
	w.classifyLits(body)
	w.markNested(body)
	if top != nil {
		w.markTop(top)
	}
	w.walk(body)
	// escaping closures become functions of their own (held = [] : they run later, under nobody's lock)
	var lits []*ast.FuncLit
	for l := range w.escLit {
		lits = append(lits, l)
	}
	sort.Slice(lits, func(i, j int) bool { return lits[i].Pos() < lits[j].Pos() })
	for i, l := range lits {
		name := fmt.Sprintf("%s$%d", fn.name, i+1)
		f2 := &lkFunc{name: name, refs: map[string]bool{}, root: true}
		g.funcs[name] = f2
		g.escaping = append(g.escaping, name)
		g.walkBody(f2, l.Body, l.Body, l.Type)
	}
}

func (w *lkWalk) markTop(b *ast.BlockStmt) { w.markList(b.List, true) }

// lockCall: c is `<expr>.<mutex field>.Lock|RLock|Unlock|RUnlock()`
func (w *lkWalk) lockCall(c *ast.CallExpr) (mu, op string, ok bool) {
	se, isSel := c.Fun.(*ast.SelectorExpr)
	if !isSel {
		return "", "", false
	}
	switch se.Sel.Name {
	case "Lock", "RLock", "Unlock", "RUnlock":
	default:
		return "", "", false
	}
	mu, _, ok = w.mutexOf(se.X)
	return mu, se.Sel.Name, ok
}

// markList accepts the lock operations of ONE statement list (function body, or the body of an if/else/for/
// case/bare block).  A Lock()/RLock() is accepted when its matching Unlock()/RUnlock() is a later statement of
// the SAME list (the critical section is local to the block: everything between them, at any depth, is walked
// with the mutex held), or -- in a function body only -- when a `defer Unlock()` of that mutex is a statement of
// the body.  An Unlock() is accepted when it is matched in this way.  Everything else (Lock in one branch and
// Unlock elsewhere, Lock in a nested block that is released by a defer or not at all, defer in a loop) stays
// unaccepted and makes lockOp fail the generation.
func (w *lkWalk) markList(list []ast.Stmt, top bool) {
	type lk struct {
		c      *ast.CallExpr
		mu, op string
		used   bool
	}
	var ops, defers []*lk
	for _, st := range list {
		switch s := st.(type) {
		case *ast.ExprStmt:
			if c, ok := s.X.(*ast.CallExpr); ok {
				if mu, op, ok := w.lockCall(c); ok {
					ops = append(ops, &lk{c: c, mu: mu, op: op})
				}
			}
		case *ast.DeferStmt:
			if mu, op, ok := w.lockCall(s.Call); ok {
				if top && (op == "Unlock" || op == "RUnlock") {
					// a deferred unlock without its Lock() is accepted too: the table then shows the
					// accesses with nothing held and the obligations name them
					w.okLock[s.Call] = true
					defers = append(defers, &lk{c: s.Call, mu: mu, op: op})
				}
			}
		}
	}
	closes := map[string]string{"Lock": "Unlock", "RLock": "RUnlock"}
	for i, a := range ops {
		want, isLock := closes[a.op]
		if !isLock {
			continue
		}
		for _, b := range ops[i+1:] {
			if !b.used && b.mu == a.mu && b.op == want {
				a.used, b.used = true, true
				w.okLock[a.c], w.okLock[b.c] = true, true
				break
			}
		}
		if !a.used {
			for _, d := range defers {
				if d.mu == a.mu && d.op == want {
					a.used = true
					w.okLock[a.c] = true
					break
				}
			}
		}
	}
}

// markNested accepts block-local critical sections in every nested statement list of body.
func (w *lkWalk) markNested(body ast.Node) {
	litBody := map[*ast.BlockStmt]bool{}
	ast.Inspect(body, func(n ast.Node) bool {
		switch x := n.(type) {
		case *ast.FuncLit:
			litBody[x.Body] = true // function bodies are handled by markTop when they are walked
		case *ast.BlockStmt:
			if !litBody[x] && ast.Node(x) != body {
				w.markList(x.List, false)
			}
		case *ast.CaseClause:
			w.markList(x.Body, false)
		case *ast.CommClause:
			w.markList(x.Body, false)
		}
		return true
	})
}

// classifyLits decides which function literals escape (stored / returned) and which are run by the
// enclosing function itself (called, deferred, passed as argument, or bound to a local that is only called).
func (w *lkWalk) classifyLits(body ast.Node) {
	info := w.g.info
	var stack []ast.Node
	cand := map[types.Object][]*ast.FuncLit{}
	litAssignLHS := map[*ast.Ident]bool{}
	ast.Inspect(body, func(n ast.Node) bool {
		if n == nil {
			stack = stack[:len(stack)-1]
			return true
		}
		if lit, ok := n.(*ast.FuncLit); ok && len(stack) > 0 {
			esc := true
			switch p := stack[len(stack)-1].(type) {
			case *ast.CallExpr:
				esc = false // called in place, or handed to the callee
				_ = p
			case *ast.AssignStmt:
				for i, r := range p.Rhs {
					if r == ast.Expr(lit) && i < len(p.Lhs) {
						if id, ok := p.Lhs[i].(*ast.Ident); ok {
							obj := info.Defs[id]
							if obj == nil {
								obj = info.Uses[id]
							}
							if obj != nil && obj.Parent() != w.g.pkg.Scope() {
								cand[obj] = append(cand[obj], lit)
								litAssignLHS[id] = true
								esc = false
							}
						}
					}
				}
			case *ast.ValueSpec:
				for i, r := range p.Values {
					if r == ast.Expr(lit) && i < len(p.Names) {
						if obj := info.Defs[p.Names[i]]; obj != nil && obj.Parent() != w.g.pkg.Scope() {
							cand[obj] = append(cand[obj], lit)
							esc = false
						}
					}
				}
			}
			if esc {
				w.escLit[lit] = true
			}
		}
		stack = append(stack, n)
		return true
	})
	if len(cand) == 0 {
		return
	}
	defer func() {
		for obj, ls := range cand {
			if len(ls) > 0 && !w.escLit[ls[0]] {
				w.inlineObj[obj] = true
			}
		}
	}()
	// a local bound to a literal must only ever be called
	stack = stack[:0]
	bad := map[types.Object]bool{}
	ast.Inspect(body, func(n ast.Node) bool {
		if n == nil {
			stack = stack[:len(stack)-1]
			return true
		}
		if id, ok := n.(*ast.Ident); ok && !litAssignLHS[id] {
			if obj := info.Uses[id]; obj != nil && cand[obj] != nil {
				called := false
				if len(stack) > 0 {
					if c, ok := stack[len(stack)-1].(*ast.CallExpr); ok && c.Fun == ast.Expr(id) {
						called = true
					}
				}
				if !called {
					bad[obj] = true
				}
			}
		}
		stack = append(stack, n)
		return true
	})
	for obj := range bad {
		for _, l := range cand[obj] {
			w.escLit[l] = true
		}
	}
}

func (w *lkWalk) heldStr() string { return "[" + strings.Join(w.held, "; ") + "]" }

func (w *lkWalk) acc(loc string, write bool, pos token.Pos) {
	w.fn.items = append(w.fn.items, lkItem{name: loc, w: write, held: w.heldStr(), line: w.g.fset.Position(pos).Line})
}

func (w *lkWalk) callTo(name string, pos token.Pos) {
	w.fn.items = append(w.fn.items, lkItem{call: true, name: name, held: w.heldStr(), line: w.g.fset.Position(pos).Line})
	w.fn.refs[name] = true
}

// mutexOf: e is `<expr>.<mutex field>`  ->  "Type.field"
func (w *lkWalk) mutexOf(e ast.Expr) (string, bool, bool) {
	se, ok := unparen(e).(*ast.SelectorExpr)
	if !ok {
		return "", false, false
	}
	sel := w.g.info.Selections[se]
	if sel == nil || sel.Kind() != types.FieldVal {
		return "", false, false
	}
	v, ok := sel.Obj().(*types.Var)
	if !ok {
		return "", false, false
	}
	rw, isMu := w.g.mutexField[v]
	if !isMu {
		return "", false, false
	}
	return w.g.fieldOwner[v] + "." + v.Name(), rw, true
}

func (w *lkWalk) lockOp(c *ast.CallExpr, deferred bool) bool {
	se, ok := c.Fun.(*ast.SelectorExpr)
	if !ok {
		return false
	}
	op := se.Sel.Name
	if op != "Lock" && op != "RLock" && op != "Unlock" && op != "RUnlock" && op != "TryLock" && op != "TryRLock" && op != "RLocker" {
		return false
	}
	mu, rw, ok := w.mutexOf(se.X)
	if !ok {
		if w.g.info.Selections[se] != nil {
			return false // a method of a package type that happens to have this name
		}
		if _, isPkg := w.g.info.Uses[identOf(se.X)].(*types.PkgName); isPkg {
			return false
		}
		w.g.fail(c.Pos(), "%s on something that is not a sync.Mutex/RWMutex struct field", op)
		return true
	}
	if op == "TryLock" || op == "TryRLock" || op == "RLocker" {
		w.g.fail(c.Pos(), "%s is not supported", op)
		return true
	}
	if !w.okLock[c] {
		w.g.fail(c.Pos(), "%s.%s() has no matching %s as a statement of the same block (nor, in a function body, a deferred one): conditional locking is not supported", mu, op, map[string]string{"Lock": "Unlock()", "RLock": "RUnlock()", "Unlock": "Lock()", "RUnlock": "RLock()"}[op])
		return true
	}
	if (op == "RLock" || op == "RUnlock") && !rw {
		w.g.fail(c.Pos(), "%s on plain Mutex %s", op, mu)
	}
	x := fmt.Sprintf("(%q, MX)", mu)
	r := fmt.Sprintf("(%q, MR)", mu)
	switch op {
	case "Lock":
		if deferred {
			w.g.fail(c.Pos(), "deferred Lock")
		}
		w.held = append(w.held, x)
	case "RLock":
		if deferred {
			w.g.fail(c.Pos(), "deferred RLock")
		}
		w.held = append(w.held, r)
	case "Unlock", "RUnlock":
		if deferred {
			return true // released when the function returns: held for the rest of the body
		}
		t := x
		if op == "RUnlock" {
			t = r
		}
		for i := len(w.held) - 1; i >= 0; i-- {
			if w.held[i] == t {
				w.held = append(w.held[:i:i], w.held[i+1:]...)
				return true
			}
		}
		w.g.fail(c.Pos(), "%s.%s() without a matching lock in source order", mu, op)
	}
	return true
}

func identOf(e ast.Expr) *ast.Ident {
	id, _ := unparen(e).(*ast.Ident)
	return id
}

// locOfExpr: the shared location an expression denotes, if it is (an element of) a tracked container:
// a package-level variable, a field of a core type, or a local alias of one of those.
func (w *lkWalk) locOfExpr(e ast.Expr) string {
	e = unparen(e)
	for {
		switch x := e.(type) {
		case *ast.IndexExpr:
			e = unparen(x.X)
			continue
		case *ast.SliceExpr:
			e = unparen(x.X)
			continue
		case *ast.TypeAssertExpr:
			e = unparen(x.X)
			continue
		}
		break
	}
	switch x := e.(type) {
	case *ast.Ident:
		obj := w.g.info.Uses[x]
		if v, ok := obj.(*types.Var); ok {
			if v.Parent() == w.g.pkg.Scope() {
				return "pkg." + v.Name()
			}
			return w.alias[obj]
		}
	case *ast.SelectorExpr:
		if sel := w.g.info.Selections[x]; sel != nil && sel.Kind() == types.FieldVal {
			if v, ok := sel.Obj().(*types.Var); ok && w.g.core[w.g.fieldOwner[v]] {
				return w.g.fieldOwner[v] + "." + v.Name()
			}
		}
	}
	return ""
}

func isFreshExpr(e ast.Expr) bool {
	switch x := unparen(e).(type) {
	case *ast.CompositeLit:
		return true
	case *ast.UnaryExpr:
		if x.Op == token.AND {
			_, ok := unparen(x.X).(*ast.CompositeLit)
			return ok
		}
	case *ast.CallExpr:
		if id, ok := x.Fun.(*ast.Ident); ok && (id.Name == "make" || id.Name == "new") {
			return true
		}
	}
	return false
}

// isLocalStorage: writing a field of / an element of e cannot be seen by another goroutine
func (w *lkWalk) isLocalStorage(e ast.Expr) bool {
	e = unparen(e)
	switch x := e.(type) {
	case *ast.Ident:
		obj := w.g.info.Uses[x]
		if obj == nil {
			obj = w.g.info.Defs[x]
		}
		v, ok := obj.(*types.Var)
		if !ok || v.Parent() == w.g.pkg.Scope() {
			return false
		}
		if w.fresh[obj] {
			return true
		}
		if _, isStruct := v.Type().Underlying().(*types.Struct); isStruct {
			return true // struct value held in a local variable: a private copy
		}
		return false
	case *ast.SelectorExpr:
		sel := w.g.info.Selections[x]
		if sel == nil || sel.Kind() != types.FieldVal || sel.Indirect() {
			return false
		}
		if _, isStruct := sel.Type().Underlying().(*types.Struct); !isStruct {
			return false
		}
		return w.isLocalStorage(x.X)
	}
	return false
}

// markWrite records what the assignment target `lhs` writes.
func (w *lkWalk) markWrite(lhs ast.Expr) {
	lhs = unparen(lhs)
	base := lhs
	indexed := false
	for {
		switch x := base.(type) {
		case *ast.IndexExpr:
			base, indexed = unparen(x.X), true
			continue
		case *ast.SliceExpr:
			base, indexed = unparen(x.X), true
			continue
		}
		break
	}
	switch x := base.(type) {
	case *ast.Ident:
		if x.Name == "_" {
			return
		}
		obj := w.g.info.Uses[x]
		if obj == nil {
			obj = w.g.info.Defs[x]
		}
		v, ok := obj.(*types.Var)
		if !ok {
			return
		}
		if v.Parent() == w.g.pkg.Scope() {
			w.wtgt[x] = "pkg." + v.Name()
			return
		}
		if !indexed {
			return // plain assignment to a local variable
		}
		if a := w.alias[obj]; a != "" {
			w.wtgt[x] = a
		} else if !w.fresh[obj] {
			if _, isArr := v.Type().Underlying().(*types.Array); !isArr {
				w.wtgt[x] = "local." + x.Name
			}
		}
	case *ast.SelectorExpr:
		sel := w.g.info.Selections[x]
		if sel == nil || sel.Kind() != types.FieldVal {
			if _, isPkg := w.g.info.Uses[identOf(x.X)].(*types.PkgName); !isPkg {
				w.wtgt[x] = "unresolved." + x.Sel.Name
			}
			return
		}
		v := sel.Obj().(*types.Var)
		owner := w.g.fieldOwner[v]
		if owner == "" {
			owner = "?"
		}
		if w.isLocalStorage(x.X) && !(indexed && !isValueContainer(v.Type())) {
			return
		}
		w.wtgt[x] = owner + "." + v.Name()
		// the object written is an element of a tracked table reached through a local alias
		if root := identOf(rootOf(x.X)); root != nil {
			if a := w.alias[w.g.info.Uses[root]]; a != "" {
				w.wtgt[root] = a + "[]"
			} else if a := w.pkgElem[w.g.info.Uses[root]]; a != "" {
				// written through a pointer that may have been taken from a package-level object
				w.wtgt[root] = a + "[]"
			}
		}
	case *ast.StarExpr:
		if !w.isLocalStorage(x.X) {
			w.wtgt[x] = "deref." + namedOf(w.g.info.TypeOf(x.X))
		}
	default:
		w.wtgt[base] = "unresolved.target"
	}
}

func isValueContainer(t types.Type) bool {
	_, ok := t.Underlying().(*types.Array)
	return ok
}

func rootOf(e ast.Expr) ast.Expr {
	for {
		switch x := unparen(e).(type) {
		case *ast.SelectorExpr:
			e = x.X
		case *ast.IndexExpr:
			e = x.X
		case *ast.StarExpr:
			e = x.X
		default:
			return unparen(e)
		}
	}
}

func (w *lkWalk) bind(lhs ast.Expr, rhs ast.Expr, ranged bool) {
	id := identOf(lhs)
	if id == nil || id.Name == "_" {
		return
	}
	obj := w.g.info.Defs[id]
	if obj == nil {
		obj = w.g.info.Uses[id]
	}
	if v, ok := obj.(*types.Var); !ok || v.Parent() == w.g.pkg.Scope() {
		return
	}
	// may-alias, flow insensitive: once a pointer/map/slice local was bound to something reached from a
	// package-level object (x := pkgTable[k]; y := x.F.G; for _, v := range pkgTable) it keeps that mark, whatever
	// other branches assign to it later in source order
	if rhs != nil {
		if v := obj.(*types.Var); isRefType(v.Type()) {
			if loc := w.pkgReach(rhs); loc != "" {
				w.pkgElem[obj] = loc
			}
		}
	}
	delete(w.fresh, obj)
	delete(w.alias, obj)
	delete(w.fieldAl, obj)
	delete(w.paramAl, obj)
	if rhs == nil {
		return
	}
	if !ranged && w.callerContainer(rhs) {
		w.paramAl[obj] = true
	}
	if !ranged {
		if loc := w.sharedContainer(rhs); loc != "" {
			w.fieldAl[obj] = loc
		}
	}
	if !ranged && isFreshExpr(rhs) {
		w.fresh[obj] = true
		return
	}
	// x = append(x, ...) keeps freshness of x
	if c, ok := unparen(rhs).(*ast.CallExpr); ok && !ranged {
		if f := identOf(c.Fun); f != nil && f.Name == "append" && len(c.Args) > 0 {
			if a := identOf(c.Args[0]); a != nil && w.g.info.Uses[a] == obj {
				w.fresh[obj] = true
			}
			if isFreshExpr(c.Args[0]) {
				w.fresh[obj] = true
			}
			return
		}
	}
	if loc := w.locOfExpr(rhs); loc != "" {
		w.alias[obj] = loc
	}
}

func (w *lkWalk) walk(root ast.Node) {
	g := w.g
	info := g.info
	ast.Inspect(root, func(n ast.Node) bool {
		if n == nil || g.err != nil {
			return false
		}
		if w.skip[n] {
			return false
		}
		switch x := n.(type) {
		case *ast.FuncLit:
			if w.escLit[x] {
				return false
			}
			w.markTop(x.Body)
			w.addParams(x.Type)
			return true
		case *ast.ReturnStmt:
			if w.ownRet[x] {
				for _, r := range x.Results {
					if loc := w.pkgObjectHandedOut(r); loc != "" {
						// a pointer to a package-level object leaves the function: it ends up in
						// per-set data, and a write through it (x.F = .. on whatever holds it) is a
						// write of the process-wide object.
						w.acc("handout:"+loc, true, r.Pos())
					}
					if loc := w.sharedContainer(r); loc != "" {
						// the caller receives the container of a shared object itself, not a copy:
						// whatever the caller does to its result, it does to the shared object
						w.acc("escape:"+loc, true, r.Pos())
					}
				}
			}
			return true
		case *ast.CompositeLit:
			if tn := namedOf(w.g.info.TypeOf(x)); tn != "" {
				for _, el := range x.Elts {
					if kv, ok := el.(*ast.KeyValueExpr); ok {
						if k := identOf(kv.Key); k != nil && w.callerContainer(kv.Value) {
							w.acc("adopt:"+tn+"."+k.Name, true, kv.Pos())
						}
					}
				}
			}
			return true
		case *ast.GoStmt:
			g.fail(x.Pos(), "go statement is not supported")
			return false
		case *ast.DeferStmt:
			if w.lockOp(x.Call, true) {
				return false
			}
			return true
		case *ast.AssignStmt:
			for _, l := range x.Lhs {
				w.markWrite(l)
			}
			if len(x.Lhs) == len(x.Rhs) {
				for i := range x.Lhs {
					w.adoption(x.Lhs[i], x.Rhs[i])
				}
			}
			// walk by hand to get the bindings after the right-hand sides were seen
			for _, l := range x.Lhs {
				w.walk(l)
			}
			for _, r := range x.Rhs {
				w.walk(r)
			}
			if len(x.Lhs) == len(x.Rhs) {
				for i := range x.Lhs {
					w.bind(x.Lhs[i], x.Rhs[i], false)
				}
			} else if len(x.Rhs) == 1 {
				w.bind(x.Lhs[0], x.Rhs[0], false)
				for _, l := range x.Lhs[1:] {
					w.bind(l, nil, false)
				}
			}
			return false
		case *ast.ValueSpec:
			for i, nm := range x.Names {
				if i < len(x.Values) {
					w.walk(x.Values[i])
					w.bind(nm, x.Values[i], false)
				} else if obj := info.Defs[nm]; obj != nil && obj.Parent() != g.pkg.Scope() {
					w.fresh[obj] = true // `var x T`: zero value, private
				}
			}
			return false
		case *ast.IncDecStmt:
			w.markWrite(x.X)
			return true
		case *ast.RangeStmt:
			if x.Tok == token.ASSIGN {
				if x.Key != nil {
					w.markWrite(x.Key)
				}
				if x.Value != nil {
					w.markWrite(x.Value)
				}
			}
			w.walk(x.X)
			if x.Key != nil {
				w.walk(x.Key)
				w.bind(x.Key, nil, true)
			}
			if x.Value != nil {
				w.walk(x.Value)
				w.bind(x.Value, x.X, true)
			}
			w.walk(x.Body)
			return false
		case *ast.UnaryExpr:
			if x.Op == token.AND {
				// address taken: whoever gets the pointer may write through it
				if _, isLit := unparen(x.X).(*ast.CompositeLit); !isLit {
					w.markWrite(x.X)
				}
			}
			return true
		case *ast.CallExpr:
			if w.lockOp(x, false) {
				return false
			}
			w.call(x)
			return true
		case *ast.SelectorExpr:
			if loc, ok := w.wtgt[x]; ok {
				w.acc(loc, true, x.Pos())
				return true
			}
			sel := info.Selections[x]
			if sel == nil {
				return true
			}
			switch sel.Kind() {
			case types.FieldVal:
				v := sel.Obj().(*types.Var)
				if _, isMu := g.mutexField[v]; isMu {
					g.fail(x.Pos(), "mutex %s used other than by Lock/Unlock calls", v.Name())
					return false
				}
				if o := g.fieldOwner[v]; g.core[o] {
					w.acc(o+"."+v.Name(), false, x.Pos())
				}
			case types.MethodVal, types.MethodExpr:
				// method value not in call position: treat as a call
				w.methodRef(x, sel)
			}
			return true
		case *ast.StarExpr:
			if loc, ok := w.wtgt[x]; ok {
				w.acc(loc, true, x.Pos())
			}
			return true
		case *ast.Ident:
			if loc, ok := w.wtgt[x]; ok {
				w.acc(loc, true, x.Pos())
				return true
			}
			switch obj := info.Uses[x].(type) {
			case *types.Var:
				if obj.Parent() == g.pkg.Scope() {
					w.acc("pkg."+obj.Name(), false, x.Pos())
				}
			case *types.Func:
				if obj.Pkg() == g.pkg {
					w.callTo(obj.Name(), x.Pos()) // function used as a value
				}
			}
			return true
		}
		if loc, ok := w.wtgt[n]; ok {
			w.acc(loc, true, n.Pos())
		}
		return true
	})
}

func (w *lkWalk) methodRef(se *ast.SelectorExpr, sel *types.Selection) {
	f, ok := sel.Obj().(*types.Func)
	if !ok {
		return
	}
	recv := sel.Recv()
	if _, isIface := recv.Underlying().(*types.Interface); isIface {
		w.g.ifaceUsed[f.Name()] = true
		w.callTo("iface:"+f.Name(), se.Pos())
		return
	}
	if p, ok := recv.(*types.Pointer); ok {
		if _, isIface := p.Elem().Underlying().(*types.Interface); isIface {
			w.g.ifaceUsed[f.Name()] = true
			w.callTo("iface:"+f.Name(), se.Pos())
			return
		}
	}
	// the declaring type (embedding is not used for methods in this package, but be exact)
	if sig, ok := f.Type().(*types.Signature); ok && sig.Recv() != nil {
		if n := namedOf(sig.Recv().Type()); n != "" {
			w.callTo(n+"."+f.Name(), se.Pos())
			return
		}
	}
	w.callTo(namedOf(recv)+"."+f.Name(), se.Pos())
}

func (w *lkWalk) call(c *ast.CallExpr) {
	info := w.g.info
	fun := unparen(c.Fun)
	switch f := fun.(type) {
	case *ast.Ident:
		w.skip[f] = true
		switch obj := info.Uses[f].(type) {
		case *types.Func:
			if obj.Pkg() == w.g.pkg {
				w.callTo(obj.Name(), c.Pos())
			}
		case *types.Builtin:
			if obj.Name() == "delete" && len(c.Args) > 0 {
				w.markWrite(&ast.IndexExpr{X: c.Args[0]})
			}
			if obj.Name() == "copy" && len(c.Args) > 0 {
				w.markWrite(&ast.IndexExpr{X: c.Args[0]})
			}
		case *types.Var:
			if obj.Parent() == w.g.pkg.Scope() {
				w.acc("pkg."+obj.Name(), false, f.Pos())
				w.callTo("dyn", c.Pos())
			} else if !w.params[obj] && !w.inlineObj[obj] {
				w.callTo("dyn", c.Pos())
			}
			// a func-typed parameter is run by the caller's inlined literal; a local bound to a literal
			// was walked where the literal stands
		case nil:
			// unresolved (consequence of the empty imports): nothing of this package
		}
	case *ast.SelectorExpr:
		sel := info.Selections[f]
		if sel == nil {
			// pkg.Func of an import, or a method of a value whose type comes from an import (opaque
			// here: sync.Map, atomic.Value, bytes.Buffer, *regexp.Regexp ...).  Such a method may
			// change its receiver: when the receiver is (part of) a shared location that is a WRITE,
			// whether or not the type synchronises internally -- a process-wide memo is shared state
			// even when it is race free.  Only methods known to leave the receiver alone are reads.
			if !opaqueReadOnly(f.Sel.Name) {
				w.opaqueWrite(f.X)
			}
			return
		}
		switch sel.Kind() {
		case types.MethodVal, types.MethodExpr:
			w.skip[f.Sel] = true
			w.methodRefCall(f, sel)
		case types.FieldVal:
			w.callTo("dyn", c.Pos())
		}
	case *ast.FuncLit:
		// called in place: walked inline
	case *ast.ArrayType, *ast.MapType, *ast.InterfaceType, *ast.StarExpr, *ast.ChanType, *ast.FuncType:
		// conversion
	default:
		if tv, ok := info.Types[fun]; ok && tv.IsType() {
			return
		}
		w.callTo("dyn", c.Pos())
	}
}

// methodRefCall: like methodRef, but the selector node itself is still visited for its receiver expression
func (w *lkWalk) methodRefCall(se *ast.SelectorExpr, sel *types.Selection) {
	w.methodRef(se, sel)
	// prevent the generic SelectorExpr visit from emitting the reference a second time
	w.walk(se.X)
	w.skip[se] = true
}

func (w *lkWalk) addParams(ft *ast.FuncType) {
	if ft == nil || ft.Params == nil {
		return
	}
	for _, f := range ft.Params.List {
		for _, id := range f.Names {
			if obj := w.g.info.Defs[id]; obj != nil {
				w.params[obj] = true
			}
		}
	}
}

// opaqueReadOnly: methods of imported types that are known not to modify their receiver
// (sync.Map Load/Range, *regexp.Regexp matching, Len/String/Error ...).  Anything else counts as a write.
func opaqueReadOnly(m string) bool {
	switch m {
	case "Load", "Range", "Len", "Cap", "String", "Error", "Bytes", "NumSubexp", "SubexpNames", "SubexpIndex",
		"Split", "LiteralPrefix", "Kind", "Type", "Name", "Elem", "Field", "NumField", "Interface", "IsNil", "IsValid":
		return true
	}
	for _, p := range []string{"Match", "Find", "ReplaceAll", "Expand"} {
		if strings.HasPrefix(m, p) {
			return true
		}
	}
	return false
}

// opaqueWrite: recv.M(...) with M possibly mutating and the type of recv imported.  Recorded when recv is a
// package-level variable, a field of a package struct that is not provably private, or reached through them.
func (w *lkWalk) opaqueWrite(recv ast.Expr) {
	recv = unparen(recv)
	if u, ok := recv.(*ast.UnaryExpr); ok && u.Op == token.AND {
		recv = unparen(u.X)
	}
	switch x := rootOf(recv).(type) {
	case *ast.Ident:
		if _, isPkg := w.g.info.Uses[x].(*types.PkgName); isPkg {
			return // pkg.Func(...)
		}
	}
	switch x := recv.(type) {
	case *ast.Ident:
		if v, ok := w.g.info.Uses[x].(*types.Var); ok && v.Parent() == w.g.pkg.Scope() {
			w.wtgt[x] = "pkg." + v.Name()
		}
	case *ast.SelectorExpr, *ast.IndexExpr:
		if _, isSel := recv.(*ast.SelectorExpr); isSel {
			if sel := w.g.info.Selections[recv.(*ast.SelectorExpr)]; sel == nil || sel.Kind() != types.FieldVal {
				return
			}
			if v, ok := w.g.info.Selections[recv.(*ast.SelectorExpr)].Obj().(*types.Var); ok {
				if _, isMu := w.g.mutexField[v]; isMu {
					return
				}
			}
		}
		_ = x
		w.markWrite(recv)
		// an element / field of a package-level table: also a write of the table
		if id := identOf(rootOf(recv)); id != nil {
			if v, ok := w.g.info.Uses[id].(*types.Var); ok && v.Parent() == w.g.pkg.Scope() {
				w.wtgt[id] = "pkg." + v.Name()
			}
		}
	}
}

// sharedContainer: e denotes (a reslicing of) a slice or map that lives in a field of a package struct that is
// not provably private, in a package-level variable, or in a local that was bound to one of those.
func (w *lkWalk) sharedContainer(e ast.Expr) string {
	e = unparen(e)
	for {
		sl, ok := e.(*ast.SliceExpr)
		if !ok {
			break
		}
		e = unparen(sl.X)
	}
	isContainer := func(t types.Type) bool {
		if t == nil {
			return false
		}
		switch t.Underlying().(type) {
		case *types.Slice, *types.Map:
			return true
		}
		return false
	}
	switch x := e.(type) {
	case *ast.SelectorExpr:
		sel := w.g.info.Selections[x]
		if sel == nil || sel.Kind() != types.FieldVal || !isContainer(sel.Type()) || w.isLocalStorage(x.X) {
			return ""
		}
		v := sel.Obj().(*types.Var)
		owner := w.g.fieldOwner[v]
		if owner == "" {
			owner = "?"
		}
		return owner + "." + v.Name()
	case *ast.Ident:
		v, ok := w.g.info.Uses[x].(*types.Var)
		if !ok {
			return ""
		}
		if v.Parent() == w.g.pkg.Scope() {
			if isContainer(v.Type()) {
				return "pkg." + v.Name()
			}
			return ""
		}
		return w.fieldAl[v]
	}
	return ""
}

// pkgObjectHandedOut: e is a package-level variable of pointer type, or the address of (a field of) a
// package-level variable, or a local that was bound to one of those.
func (w *lkWalk) pkgObjectHandedOut(e ast.Expr) string {
	e = unparen(e)
	addr := false
	if u, ok := e.(*ast.UnaryExpr); ok && u.Op == token.AND {
		addr = true
		e = rootOf(u.X)
	}
	id, ok := e.(*ast.Ident)
	if !ok {
		return ""
	}
	v, ok := w.g.info.Uses[id].(*types.Var)
	if !ok {
		return ""
	}
	if v.Parent() != w.g.pkg.Scope() {
		if a := w.alias[v]; !addr && strings.HasPrefix(a, "pkg.") && !strings.HasSuffix(a, "[]") {
			if _, isPtr := v.Type().Underlying().(*types.Pointer); isPtr {
				return a
			}
		}
		return ""
	}
	if addr {
		return "pkg." + v.Name()
	}
	if _, isPtr := v.Type().Underlying().(*types.Pointer); isPtr {
		return "pkg." + v.Name()
	}
	return ""
}

// callerContainer: e is (a reslicing of) a slice or map PARAMETER of the function, or a local bound to one:
// memory that belongs to the caller.
func (w *lkWalk) callerContainer(e ast.Expr) bool {
	e = unparen(e)
	for {
		sl, ok := e.(*ast.SliceExpr)
		if !ok {
			break
		}
		e = unparen(sl.X)
	}
	id, ok := e.(*ast.Ident)
	if !ok {
		return false
	}
	v, ok := w.g.info.Uses[id].(*types.Var)
	if !ok {
		return false
	}
	if w.paramAl[v] {
		return true
	}
	if !w.params[v] || v.Type() == nil {
		return false
	}
	switch v.Type().Underlying().(type) {
	case *types.Slice, *types.Map:
		return true
	}
	return false
}

// adoption: `x.F = param` / `pkgvar = param` stores the caller's slice or map itself instead of a copy: the
// object and the caller (and every other object given the same argument) now share one backing store.
func (w *lkWalk) adoption(lhs, rhs ast.Expr) {
	if !w.callerContainer(rhs) {
		return
	}
	switch x := unparen(lhs).(type) {
	case *ast.SelectorExpr:
		sel := w.g.info.Selections[x]
		if sel == nil || sel.Kind() != types.FieldVal || w.isLocalStorage(x.X) {
			return
		}
		v := sel.Obj().(*types.Var)
		owner := w.g.fieldOwner[v]
		if owner == "" {
			owner = "?"
		}
		w.acc("adopt:"+owner+"."+v.Name(), true, lhs.Pos())
	case *ast.Ident:
		if v, ok := w.g.info.Uses[x].(*types.Var); ok && v.Parent() == w.g.pkg.Scope() {
			w.acc("adopt:pkg."+v.Name(), true, lhs.Pos())
		}
	}
}

func isRefType(t types.Type) bool {
	if t == nil {
		return false
	}
	switch t.Underlying().(type) {
	case *types.Pointer, *types.Map, *types.Slice:
		return true
	}
	return false
}

// pkgReach: e is reached from a package-level variable through fields, elements and pointers (no calls, no
// copies by value of the final object are considered: the caller checks that the bound variable is a reference).
func (w *lkWalk) pkgReach(e ast.Expr) string {
	for {
		switch x := unparen(e).(type) {
		case *ast.SelectorExpr:
			if w.g.info.Selections[x] == nil {
				return "" // qualified identifier of an import
			}
			e = x.X
		case *ast.IndexExpr:
			e = x.X
		case *ast.SliceExpr:
			e = x.X
		case *ast.StarExpr:
			e = x.X
		case *ast.TypeAssertExpr:
			e = x.X
		case *ast.UnaryExpr:
			if x.Op != token.AND {
				return ""
			}
			e = x.X
		case *ast.Ident:
			v, ok := w.g.info.Uses[x].(*types.Var)
			if !ok {
				return ""
			}
			if v.Parent() == w.g.pkg.Scope() {
				return "pkg." + v.Name()
			}
			if a := w.pkgElem[v]; a != "" {
				return a
			}
			if a := w.alias[v]; strings.HasPrefix(a, "pkg.") {
				return strings.TrimSuffix(a, "[]")
			}
			return ""
		default:
			return ""
		}
	}
}
