package main

// C05: c05probe <opts> <n> (<namehex> <texthex>){n}     (opts as for `process`: c, n)
//
// Loads the texts in the given order into one set, runs Process and observes what the `process` dump does not:
//   print   per module (bare names, sorted): Entry.Print rendered twice (text of the first, whether the second equals it)
//   byns    per namespace of a loaded module: FindModuleByNamespace asked twice: the FullName found or "ERR: ..."
//   enums   per leaf whose type (or union member) is an enumeration or bits: Names/Values/NameMap/ValueMap rendered
//           twice, and whether ValueMap agrees with Name(v)
//   getmod  for the first two module names: GetModule called twice on a second set holding the same texts, then once
//           more after flipping IgnoreDeviateNotSupported, next to the answers of fresh sets with either option value
//           (answer = error list, or "tree:" + hash of the Print rendering)
//
// C05: c05hist <opts> <pathspec> <ops> <n> (<namehex> <texthex>){n}
//
// A history over one Modules value, then the dump of the LAST Process (same dump as `process`).
//   pathspec  "-": the texts are only in memory (ops L).  Otherwise the n texts are written below a fresh directory
//             ROOT under their names (relative paths) and pathspec = ';'-separated search path entries relative to
//             ROOT ("." = ROOT itself), an entry ending in "+" stands for dir/... (the whole tree below dir)
//   ops       ','-separated: L<i> = Parse(text i, name i); R<hex> = Read(<module or file name>), found through the
//             search path; P = Process; G<hex> = GetModule(<name>) (what tools call per module: it runs Process)
// Output JSON: loads (ok/err per L and R), run (dump of the last P), sources (key of ms.Modules/ms.SubModules ->
// file of the module statement, relative to ROOT).  ROOT is replaced by the text ROOT everywhere.
//
// C05: errsort <hex> <hex> ...   (one token per error text, "-" = the empty text, no token = no error)
//
// errorSort is unexported; it is reached through (*Entry).GetErrors() on an entry whose Errors field holds
// one errors.New value per text (distinct pointers, so the pointer-keyed `seen` map of GetErrors removes
// nothing).  Output: "n=<count>" followed by the hex of every returned error text, in the order returned.

import (
	"bytes"
	"crypto/sha1"
	"encoding/json"
	"errors"
	"fmt"
	"os"
	"path/filepath"
	"sort"
	"strconv"
	"strings"

	"github.com/openconfig/goyang/pkg/yang"
)

func init() {
	handlers["errsort"] = func(toks []string) string {
		e := &yang.Entry{}
		for _, t := range toks {
			e.Errors = append(e.Errors, errors.New(string(unhex(t))))
		}
		out := e.GetErrors()
		parts := []string{"n=" + strconv.Itoa(len(out))}
		for _, x := range out {
			parts = append(parts, enhex([]byte(x.Error())))
		}
		return strings.Join(parts, " ")
	}
}

type c05Probe struct {
	Errors []string                     `json:"errors"`
	Print  map[string][]string          `json:"print"`
	ByNS   map[string][]string          `json:"byns"`
	GetMod map[string]map[string]string `json:"getmod"`
	Enums  map[string][]string          `json:"enums"` // path of a leaf with an enumeration/bits type -> rendering, "true" if a second rendering is equal, "true" if ValueMap agrees with Name()
}

// c05Enum renders everything an EnumType answers: Names, Values, NameMap, ValueMap (sorted by key), Name(v) per value.
func c05Enum(e *yang.EnumType) (string, bool) {
	var b strings.Builder
	fmt.Fprintf(&b, "names=%v values=%v namemap=[", e.Names(), e.Values())
	nm := e.NameMap()
	var ns []string
	for n := range nm {
		ns = append(ns, n)
	}
	sort.Strings(ns)
	for _, n := range ns {
		fmt.Fprintf(&b, "%s=%d ", n, nm[n])
	}
	b.WriteString("] valuemap=[")
	vm := e.ValueMap()
	var vs []int64
	for v := range vm {
		vs = append(vs, v)
	}
	sort.Slice(vs, func(i, j int) bool { return vs[i] < vs[j] })
	agree := true
	for _, v := range vs {
		fmt.Fprintf(&b, "%d=%s ", v, vm[v])
		if e.Name(v) != vm[v] {
			agree = false
		}
	}
	b.WriteString("]")
	return b.String(), agree
}

func c05Enums(e *yang.Entry, path string, out map[string][]string, depth int) {
	if e == nil || depth > 40 {
		return
	}
	var visit func(t *yang.YangType, p string, d int)
	visit = func(t *yang.YangType, p string, d int) {
		if t == nil || d > 6 {
			return
		}
		for _, et := range []*yang.EnumType{t.Enum, t.Bit} {
			if et != nil {
				r1, agree := c05Enum(et)
				r2, _ := c05Enum(et)
				out[p] = []string{r1, strconv.FormatBool(r1 == r2), strconv.FormatBool(agree)}
			}
		}
		for i, u := range t.Type {
			visit(u, fmt.Sprintf("%s|%d", p, i), d+1)
		}
	}
	visit(e.Type, path, 0)
	var keys []string
	for k := range e.Dir {
		keys = append(keys, k)
	}
	sort.Strings(keys)
	for _, k := range keys {
		c05Enums(e.Dir[k], path+"/"+k, out, depth+1)
	}
}

func c05Load(opts string, names, texts []string, flip bool) *yang.Modules {
	ms := yang.NewModules()
	ms.ParseOptions.IgnoreSubmoduleCircularDependencies = strings.Contains(opts, "c")
	ms.ParseOptions.DeviateOptions.IgnoreDeviateNotSupported = strings.Contains(opts, "n") != flip
	for i := range names {
		ms.Parse(texts[i], names[i])
	}
	return ms
}

func c05Answer(e *yang.Entry, errs []error) string {
	if len(errs) > 0 {
		var ss []string
		for _, err := range errs {
			ss = append(ss, err.Error())
		}
		return "errors: " + strings.Join(ss, " || ")
	}
	if e == nil {
		return "nil entry, no error"
	}
	var b bytes.Buffer
	e.Print(&b)
	return fmt.Sprintf("tree: %x", sha1.Sum(b.Bytes()))
}

func init() {
	handlers["c05probe"] = func(toks []string) string {
		opts := toks[0]
		n, _ := strconv.Atoi(toks[1])
		names, texts := make([]string, n), make([]string, n)
		for i := 0; i < n; i++ {
			names[i], texts[i] = string(unhex(toks[2+2*i])), string(unhex(toks[3+2*i]))
		}
		out := &c05Probe{Errors: []string{}, Print: map[string][]string{}, ByNS: map[string][]string{}, GetMod: map[string]map[string]string{}, Enums: map[string][]string{}}
		ms := c05Load(opts, names, texts, false)
		errs := ms.Process()
		for _, err := range errs {
			out.Errors = append(out.Errors, err.Error())
		}
		var mods []string
		for k, m := range ms.Modules {
			if k == m.Name {
				mods = append(mods, k)
			}
		}
		sort.Strings(mods)
		if len(errs) == 0 {
			for _, k := range mods {
				e := yang.ToEntry(ms.Modules[k])
				var b1, b2 bytes.Buffer
				e.Print(&b1)
				e.Print(&b2)
				out.Print[k] = []string{b1.String(), strconv.FormatBool(b1.String() == b2.String())}
				c05Enums(e, "/"+k, out.Enums, 0)
			}
		}
		for _, k := range mods {
			m := ms.Modules[k]
			if m.Namespace == nil {
				continue
			}
			ns := m.Namespace.Name
			var ans []string
			for i := 0; i < 2; i++ {
				if f, err := ms.FindModuleByNamespace(ns); err != nil {
					ans = append(ans, "ERR: "+err.Error())
				} else {
					ans = append(ans, f.FullName())
				}
			}
			out.ByNS[ns] = ans
		}
		for i, k := range mods {
			if i >= 2 {
				break
			}
			r := map[string]string{}
			ms2 := c05Load(opts, names, texts, false)
			r["first"] = c05Answer(ms2.GetModule(k))
			r["second"] = c05Answer(ms2.GetModule(k))
			ms2.ParseOptions.DeviateOptions.IgnoreDeviateNotSupported = !ms2.ParseOptions.DeviateOptions.IgnoreDeviateNotSupported
			r["flipped"] = c05Answer(ms2.GetModule(k))
			r["fresh"] = c05Answer(c05Load(opts, names, texts, false).GetModule(k))
			r["fresh_flipped"] = c05Answer(c05Load(opts, names, texts, true).GetModule(k))
			out.GetMod[k] = r
		}
		b, err := json.Marshal(out)
		if err != nil {
			return "BROKEN json: " + err.Error()
		}
		return string(b)
	}
}

type c05HistOut struct {
	Loads   []string          `json:"loads"`
	Run     *runDump          `json:"run"`
	Sources map[string]string `json:"sources"`
}

func c05Hist(toks []string) string {
	opts, pathspec, ops := toks[0], toks[1], toks[2]
	n, _ := strconv.Atoi(toks[3])
	names, texts := make([]string, n), make([]string, n)
	for i := 0; i < n; i++ {
		names[i], texts[i] = string(unhex(toks[4+2*i])), string(unhex(toks[5+2*i]))
	}
	ms := yang.NewModules()
	ms.ParseOptions.IgnoreSubmoduleCircularDependencies = strings.Contains(opts, "c")
	ms.ParseOptions.DeviateOptions.IgnoreDeviateNotSupported = strings.Contains(opts, "n")
	root := ""
	if pathspec != "-" {
		d, err := os.MkdirTemp("", "c05tree")
		if err != nil {
			return "BROKEN tempdir: " + err.Error()
		}
		root = d
		defer os.RemoveAll(root)
		for i := range names {
			p := filepath.Join(root, filepath.FromSlash(names[i]))
			if err := os.MkdirAll(filepath.Dir(p), 0o755); err != nil {
				return "BROKEN mkdir: " + err.Error()
			}
			if err := os.WriteFile(p, []byte(texts[i]), 0o644); err != nil {
				return "BROKEN write: " + err.Error()
			}
		}
		for _, e := range strings.Split(pathspec, ";") {
			dots := strings.HasSuffix(e, "+")
			d := filepath.Join(root, filepath.FromSlash(strings.TrimSuffix(e, "+")))
			if dots {
				d += "/..."
			}
			ms.AddPath(d)
		}
	}
	out := &c05HistOut{Loads: []string{}, Sources: map[string]string{}}
	status := func(err error) {
		if err != nil {
			out.Loads = append(out.Loads, "err: "+strings.SplitN(err.Error(), "\n", 2)[0])
		} else {
			out.Loads = append(out.Loads, "ok")
		}
	}
	for _, op := range strings.Split(ops, ",") {
		switch {
		case op == "P":
			run := &runDump{Errors: []string{}, ErrPos: []string{}, TreeViol: []string{}, FindViol: []string{}}
			errs := ms.Process()
			for _, e := range errs {
				s := e.Error()
				if root != "" {
					s = strings.ReplaceAll(s, root, "ROOT")
				}
				run.Errors = append(run.Errors, s)
				if m := posRE.FindStringSubmatch(s); m != nil {
					run.ErrPos = append(run.ErrPos, m[1]+":"+m[2]+":"+m[3])
				} else {
					run.ErrPos = append(run.ErrPos, "")
				}
			}
			if len(errs) == 0 {
				dumpModules(ms, run, false)
			}
			out.Run = run
		case strings.HasPrefix(op, "L"):
			i, _ := strconv.Atoi(op[1:])
			status(ms.Parse(texts[i], names[i]))
		case strings.HasPrefix(op, "R"):
			status(ms.Read(string(unhex(op[1:]))))
		case strings.HasPrefix(op, "G"):
			ms.GetModule(string(unhex(op[1:])))
		}
	}
	for _, mm := range []map[string]*yang.Module{ms.Modules, ms.SubModules} {
		for k, m := range mm {
			src := yang.Source(m)
			if i := strings.Index(src, ".yang:"); i >= 0 {
				src = src[:i+5]
			}
			out.Sources[k] = src
		}
	}
	b, err := json.Marshal(out)
	if err != nil {
		return "BROKEN json: " + err.Error()
	}
	r := string(b)
	if root != "" {
		r = strings.ReplaceAll(r, root+"/", "")
		r = strings.ReplaceAll(r, root, "ROOT")
	}
	return r
}

func init() { handlers["c05hist"] = c05Hist }
