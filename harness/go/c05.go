package main

// C05: errsort <hex> <hex> ...   (one token per error text, "-" = the empty text, no token = no error)
//
// errorSort is unexported; it is reached through (*Entry).GetErrors() on an entry whose Errors field holds
// one errors.New value per text (distinct pointers, so the pointer-keyed `seen` map of GetErrors removes
// nothing).  Output: "n=<count>" followed by the hex of every returned error text, in the order returned.

import (
	"errors"
	"strconv"
	"strings"

	"github.com/openconfig/goyang/pkg/yang"
)

func init() {
	handlers["errsort"] = func(toks []string) string {
		e := &yang.Entry{}
		for _, t := range toks {
			e.Errors = append(e.Errors, errors.New(string(unhex(t))))
		}
		out := e.GetErrors()
		parts := []string{"n=" + strconv.Itoa(len(out))}
		for _, x := range out {
			parts = append(parts, enhex([]byte(x.Error())))
		}
		return strings.Join(parts, " ")
	}
}
