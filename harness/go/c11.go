package main

// C11 observations with revisions told apart (the `process` dump names an identity by module name only):
//
//   idproc <ops> <n> (<namehex> <texthex>){n}
//     ops as for `process`: L<i> parse text i, D<i> put text i on the search path without loading it, P process
//   output: one JSON object for the LAST Process call:
//     {"loads":[..], "errors":n, "errtext":[..],
//      "ids":[{"decl":"<M|S>/<full name of the declaring (sub)module>:<identity>","values":[decl,..]}],
//      "leaves":[{"name":leaf,"in":"<M|S>/<full name>","base":decl,"values":[decl,..]}]}      (identityref leaves;
//                a leaf whose type is a union has "base":"-union" and "union":[member,..], each member with its
//                base and values, members of other kinds with "base":"-<kind>")
//   identities and leaves are listed only when Process reported no error.

import (
	"encoding/json"
	"os"
	"path/filepath"
	"sort"
	"strconv"
	"strings"

	"github.com/openconfig/goyang/pkg/yang"
)

type c11Ident struct {
	Decl   string   `json:"decl"`
	Values []string `json:"values"`
}

type c11Leaf struct {
	Name   string     `json:"name"`
	In     string     `json:"in"`
	Base   string     `json:"base"`
	Values []string   `json:"values"`
	Union  []*c11Leaf `json:"union,omitempty"` // member types of a union leaf, in order (Base "-<kind>" for other kinds)
}

type c11Out struct {
	Loads   []string    `json:"loads"`
	Errors  int         `json:"errors"`
	ErrText []string    `json:"errtext"`
	Ids     []*c11Ident `json:"ids"`
	Leaves  []*c11Leaf  `json:"leaves"`
}

func c11Mod(m *yang.Module) string {
	if m == nil {
		return "?/<nil>"
	}
	k := "M"
	if m.Kind() == "submodule" {
		k = "S"
	}
	return k + "/" + m.FullName()
}

func c11Decl(i *yang.Identity) string {
	if i == nil {
		return "<nil>"
	}
	return c11Mod(yang.RootNode(i)) + ":" + i.Name
}

func c11Values(i *yang.Identity) []string {
	vs := []string{}
	for _, v := range i.Values {
		vs = append(vs, c11Decl(v))
	}
	return vs
}

func c11Walk(e *yang.Entry, in string, depth int, seen map[*yang.Entry]bool, out *c11Out) {
	if e == nil || seen[e] || depth > 40 {
		return
	}
	seen[e] = true
	if e.Kind == yang.LeafEntry && e.Type != nil && e.Type.Kind == yang.Yunion {
		lf := &c11Leaf{Name: e.Name, In: in, Base: "-union", Values: []string{}}
		for _, u := range e.Type.Type {
			switch {
			case u == nil:
				lf.Union = append(lf.Union, &c11Leaf{Base: "<nil>", Values: []string{}})
			case u.IdentityBase != nil:
				lf.Union = append(lf.Union, &c11Leaf{Base: c11Decl(u.IdentityBase), Values: c11Values(u.IdentityBase)})
			case u.Kind == yang.Yidentityref:
				lf.Union = append(lf.Union, &c11Leaf{Base: "<nil>", Values: []string{}})
			default:
				lf.Union = append(lf.Union, &c11Leaf{Base: "-" + yang.TypeKindToName[u.Kind], Values: []string{}})
			}
		}
		out.Leaves = append(out.Leaves, lf)
	} else if e.Kind == yang.LeafEntry && e.Type != nil && e.Type.IdentityBase != nil {
		out.Leaves = append(out.Leaves, &c11Leaf{Name: e.Name, In: in, Base: c11Decl(e.Type.IdentityBase), Values: c11Values(e.Type.IdentityBase)})
	} else if e.Kind == yang.LeafEntry && e.Type != nil && e.Type.Kind == yang.Yidentityref {
		out.Leaves = append(out.Leaves, &c11Leaf{Name: e.Name, In: in, Base: "<nil>", Values: []string{}})
	}
	var keys []string
	for k := range e.Dir {
		keys = append(keys, k)
	}
	sort.Strings(keys)
	for _, k := range keys {
		c11Walk(e.Dir[k], in, depth+1, seen, out)
	}
}

func c11Modules(ms *yang.Modules) []*yang.Module {
	var order []*yang.Module
	done := map[*yang.Module]bool{}
	for _, mm := range []map[string]*yang.Module{ms.Modules, ms.SubModules} {
		var keys []string
		for k := range mm {
			keys = append(keys, k)
		}
		sort.Strings(keys)
		for _, k := range keys {
			if m := mm[k]; m != nil && !done[m] {
				done[m] = true
				order = append(order, m)
			}
		}
	}
	return order
}

func runIdproc(toks []string) string {
	ops := toks[0]
	n, _ := strconv.Atoi(toks[1])
	names := make([]string, n)
	texts := make([]string, n)
	for i := 0; i < n; i++ {
		names[i] = string(unhex(toks[2+2*i]))
		texts[i] = string(unhex(toks[3+2*i]))
	}
	ms := yang.NewModules()
	out := &c11Out{Loads: []string{}, ErrText: []string{}, Ids: []*c11Ident{}, Leaves: []*c11Leaf{}}
	pathDir := ""
	defer func() {
		if pathDir != "" {
			os.RemoveAll(pathDir)
		}
	}()
	for _, op := range strings.Split(ops, ",") {
		switch {
		case strings.HasPrefix(op, "D"):
			i, _ := strconv.Atoi(op[1:])
			if pathDir == "" {
				d, err := os.MkdirTemp("", "verifpath")
				if err != nil {
					return "BROKEN tempdir: " + err.Error()
				}
				pathDir = d
				ms.AddPath(pathDir)
			}
			if err := os.WriteFile(filepath.Join(pathDir, filepath.Base(names[i])), []byte(texts[i]), 0o644); err != nil {
				return "BROKEN write: " + err.Error()
			}
		case strings.HasPrefix(op, "L"):
			i, _ := strconv.Atoi(op[1:])
			if err := ms.Parse(texts[i], names[i]); err != nil {
				out.Loads = append(out.Loads, "err")
			} else {
				out.Loads = append(out.Loads, "ok")
			}
		case op == "P":
			errs := ms.Process()
			out.Errors = len(errs)
			out.ErrText = []string{}
			out.Ids = []*c11Ident{}
			out.Leaves = []*c11Leaf{}
			for i, e := range errs {
				if i < 4 {
					out.ErrText = append(out.ErrText, e.Error())
				}
			}
			if len(errs) == 0 {
				seen := map[*yang.Entry]bool{}
				for _, m := range c11Modules(ms) {
					for _, id := range m.Identities() {
						out.Ids = append(out.Ids, &c11Ident{Decl: c11Decl(id), Values: c11Values(id)})
					}
					c11Walk(yang.ToEntry(m), c11Mod(m), 0, seen, out)
				}
			}
		}
	}
	b, err := json.Marshal(out)
	if err != nil {
		return "BROKEN json: " + err.Error()
	}
	return string(b)
}

func init() {
	handlers["idproc"] = runIdproc
}
