package main

// C03: ast <hex text> [tree tokens for the model side, ignored here]
//
// Parses the text into a fresh module set and prints "err L:C" (the line:column prefix of the error
// message, "err nopos" when the message has none) or "ok" followed by one canonical dump per
// module/submodule that was filed, in source order.  The dump is a reflection walk over the node
// structs (not the Node methods), driven by the same `yang:"…"` tags the builder uses:
//
//   TYPE:hex(Name):SRC:PARENT{key=child child …;key=…;}[ext,ext,…]
//
// SRC, PARENT and the ext entries are pre-order indices of statements in the text, obtained by pointer
// identity from the statement tree hanging off each module's Source (so a back-reference that is not
// the very statement of the parsed tree prints "?").  PARENT is the index of the parent node's
// statement, "-" when the link is nil, and gets a "!" appended when the link is not the enclosing node.
// Only non-empty child fields are printed, in struct declaration order.

import (
	"os"
	"path/filepath"
	"reflect"
	"regexp"
	"sort"
	"strconv"
	"strings"

	"github.com/openconfig/goyang/pkg/yang"
)

var c03StatementType = reflect.TypeOf(&yang.Statement{})

var c03PosRe = regexp.MustCompile(`^[^:]*\.yang:(\d+):(\d+):`)

func c03Pos(s *yang.Statement) (int, int) {
	p := strings.Split(s.Location(), ":")
	if len(p) < 3 {
		return 0, 0
	}
	l, _ := strconv.Atoi(p[len(p)-2])
	c, _ := strconv.Atoi(p[len(p)-1])
	return l, c
}

func c03ID(ids map[*yang.Statement]int, s *yang.Statement) string {
	if s == nil {
		return "-"
	}
	if i, ok := ids[s]; ok {
		return strconv.Itoa(i)
	}
	return "?"
}

func c03Dump(b *strings.Builder, v reflect.Value, encl interface{}, ids map[*yang.Statement]int) {
	st := v.Elem()
	t := st.Type()
	name, src, par := "-", "-", "-"
	var exts []string
	type fd struct {
		key  string
		kids []reflect.Value
	}
	var fds []fd
	for i := 0; i < t.NumField(); i++ {
		tag := t.Field(i).Tag.Get("yang")
		if tag == "" {
			continue
		}
		key := strings.Split(tag, ",")[0]
		fv := st.Field(i)
		switch {
		case key == "Ext":
			for j := 0; j < fv.Len(); j++ {
				s, _ := fv.Index(j).Interface().(*yang.Statement)
				exts = append(exts, c03ID(ids, s))
			}
		case fv.Kind() == reflect.String:
			name = enhex([]byte(fv.String()))
		case fv.Kind() == reflect.Interface:
			if !fv.IsNil() {
				if n, ok := fv.Interface().(yang.Node); ok {
					par = c03ID(ids, n.Statement())
				} else {
					par = "?"
				}
				if fv.Interface() != encl {
					par += "!"
				}
			} else if encl != nil {
				par = "-!"
			}
		case fv.Type() == c03StatementType:
			if !fv.IsNil() {
				src = c03ID(ids, fv.Interface().(*yang.Statement))
			}
		case fv.Kind() == reflect.Ptr:
			if !fv.IsNil() {
				fds = append(fds, fd{key, []reflect.Value{fv}})
			}
		case fv.Kind() == reflect.Slice:
			var kids []reflect.Value
			for j := 0; j < fv.Len(); j++ {
				kids = append(kids, fv.Index(j))
			}
			if len(kids) > 0 {
				fds = append(fds, fd{key, kids})
			}
		}
	}
	b.WriteString(t.Name())
	b.WriteString(":" + name + ":" + src + ":" + par + "{")
	for _, f := range fds {
		b.WriteString(f.key + "=")
		for _, k := range f.kids {
			if k.Kind() == reflect.Ptr && k.IsNil() {
				b.WriteString("NIL")
				continue
			}
			c03Dump(b, k, v.Interface(), ids)
		}
		b.WriteString(";")
	}
	b.WriteString("}[" + strings.Join(exts, ",") + "]")
}

func c03Err(err error) string {
	// position prefix of the error, if it has one
	if m := c03PosRe.FindStringSubmatch(err.Error()); m != nil {
		return "err " + m[1] + ":" + m[2]
	}
	return "err nopos"
}

// c03DumpSet prints every module/submodule filed in ms, in source order.
func c03DumpSet(ms *yang.Modules) string {
	seen := map[*yang.Module]bool{}
	var mods []*yang.Module
	for _, m := range []map[string]*yang.Module{ms.Modules, ms.SubModules} {
		for _, v := range m {
			if v != nil && !seen[v] {
				seen[v] = true
				mods = append(mods, v)
			}
		}
	}
	for _, m := range mods {
		if m.Source == nil {
			return "module-without-statement"
		}
	}
	sort.Slice(mods, func(i, j int) bool {
		li, ci := c03Pos(mods[i].Source)
		lj, cj := c03Pos(mods[j].Source)
		return li < lj || (li == lj && ci < cj)
	})
	ids := map[*yang.Statement]int{}
	ctr := 0
	var number func(s *yang.Statement)
	number = func(s *yang.Statement) {
		ids[s] = ctr
		ctr++
		for _, c := range s.SubStatements() {
			number(c)
		}
	}
	for _, m := range mods {
		number(m.Source)
	}
	var b strings.Builder
	b.WriteString("ok")
	for _, m := range mods {
		b.WriteString(" ")
		c03Dump(&b, reflect.ValueOf(m), nil, ids)
	}
	return b.String()
}

func init() {
	handlers["ast"] = func(t []string) string {
		text := string(unhex(t[0]))
		ms := yang.NewModules()
		if err := ms.Parse(text, "t.yang"); err != nil {
			return c03Err(err)
		}
		return c03DumpSet(ms)
	}

	// astfile <hex text> <hex corrected text | -> [tree tokens for the model side]
	// The same through files and Modules.Read, on ONE module set:
	//   step 1  Read(dir/c03case.yang)            the text
	//   step 2  Read(dir/c03case.yang)            again
	//   step 3  AddPath(dir); Read("c03case")     by module name through the search path
	//   step 4  (only with a corrected text) the file is rewritten, Read(dir/c03case.yang) once more
	// Each step prints "err L:C|nopos" or "ok" + the dump of everything filed in the set; steps are
	// separated by " | ".  A Read that returns no error thus always shows what it claims to have built.
	handlers["astfile"] = func(t []string) string {
		text := unhex(t[0])
		var fixed []byte
		if len(t) > 1 && t[1] != "-" {
			fixed = unhex(t[1])
		}
		dir, err := os.MkdirTemp("", "c03f")
		if err != nil {
			return "tmpdir-failed"
		}
		defer os.RemoveAll(dir)
		path := filepath.Join(dir, "c03case.yang")
		if err := os.WriteFile(path, text, 0o644); err != nil {
			return "write-failed"
		}
		ms := yang.NewModules()
		step := func(name string) string {
			if err := ms.Read(name); err != nil {
				return c03Err(err)
			}
			return c03DumpSet(ms)
		}
		out := []string{step(path), step(path)}
		ms.AddPath(dir) // (a rejected Read leaves the search path as it was)
		out = append(out, step("c03case"))
		if fixed != nil {
			if err := os.WriteFile(path, fixed, 0o644); err != nil {
				return "write-failed"
			}
			out = append(out, step(path))
		}
		return strings.Join(out, " | ")
	}
}
