package main

// C03: ast <hex text> [tree tokens for the model side, ignored here]
//
// Parses the text into a fresh module set and prints "err L:C" (the line:column prefix of the error
// message, "err nopos" when the message has none) or "ok" followed by one canonical dump per
// module/submodule that was filed, in source order.  The dump is a reflection walk over the node
// structs (not the Node methods), driven by the same `yang:"…"` tags the builder uses:
//
//   TYPE:hex(Name):SRC:PARENT{key=child child …;key=…;}[ext,ext,…]
//
// SRC, PARENT and the ext entries are pre-order indices of statements in the text, obtained by pointer
// identity from the statement tree hanging off each module's Source (so a back-reference that is not
// the very statement of the parsed tree prints "?").  PARENT is the index of the parent node's
// statement, "-" when the link is nil, and gets a "!" appended when the link is not the enclosing node.
// Only non-empty child fields are printed, in struct declaration order.

import (
	"io"
	"os"
	"path/filepath"
	"reflect"
	"regexp"
	"sort"
	"strconv"
	"strings"

	"github.com/openconfig/goyang/pkg/yang"
)

var c03StatementType = reflect.TypeOf(&yang.Statement{})

var c03PosRe = regexp.MustCompile(`^[^:]*\.yang:(\d+):(\d+):`)

func c03Pos(s *yang.Statement) (int, int) {
	p := strings.Split(s.Location(), ":")
	if len(p) < 3 {
		return 0, 0
	}
	l, _ := strconv.Atoi(p[len(p)-2])
	c, _ := strconv.Atoi(p[len(p)-1])
	return l, c
}

func c03ID(ids map[*yang.Statement]int, s *yang.Statement) string {
	if s == nil {
		return "-"
	}
	if i, ok := ids[s]; ok {
		return strconv.Itoa(i)
	}
	return "?"
}

func c03Dump(b *strings.Builder, v reflect.Value, encl interface{}, ids map[*yang.Statement]int) {
	st := v.Elem()
	t := st.Type()
	name, src, par := "-", "-", "-"
	var exts []string
	type fd struct {
		key  string
		kids []reflect.Value
	}
	var fds []fd
	for i := 0; i < t.NumField(); i++ {
		tag := t.Field(i).Tag.Get("yang")
		if tag == "" {
			continue
		}
		key := strings.Split(tag, ",")[0]
		fv := st.Field(i)
		switch {
		case key == "Ext":
			for j := 0; j < fv.Len(); j++ {
				s, _ := fv.Index(j).Interface().(*yang.Statement)
				exts = append(exts, c03ID(ids, s))
			}
		case fv.Kind() == reflect.String:
			name = enhex([]byte(fv.String()))
		case fv.Kind() == reflect.Interface:
			if !fv.IsNil() {
				if n, ok := fv.Interface().(yang.Node); ok {
					par = c03ID(ids, n.Statement())
				} else {
					par = "?"
				}
				if fv.Interface() != encl {
					par += "!"
				}
			} else if encl != nil {
				par = "-!"
			}
		case fv.Type() == c03StatementType:
			if !fv.IsNil() {
				src = c03ID(ids, fv.Interface().(*yang.Statement))
			}
		case fv.Kind() == reflect.Ptr:
			if !fv.IsNil() {
				fds = append(fds, fd{key, []reflect.Value{fv}})
			}
		case fv.Kind() == reflect.Slice:
			var kids []reflect.Value
			for j := 0; j < fv.Len(); j++ {
				kids = append(kids, fv.Index(j))
			}
			if len(kids) > 0 {
				fds = append(fds, fd{key, kids})
			}
		}
	}
	b.WriteString(t.Name())
	b.WriteString(":" + name + ":" + src + ":" + par + "{")
	for _, f := range fds {
		b.WriteString(f.key + "=")
		for _, k := range f.kids {
			if k.Kind() == reflect.Ptr && k.IsNil() {
				b.WriteString("NIL")
				continue
			}
			c03Dump(b, k, v.Interface(), ids)
		}
		b.WriteString(";")
	}
	b.WriteString("}[" + strings.Join(exts, ",") + "]")
}

func c03Err(err error) string {
	// position prefix of the error, if it has one
	if m := c03PosRe.FindStringSubmatch(err.Error()); m != nil {
		return "err " + m[1] + ":" + m[2]
	}
	return "err nopos"
}

// c03DumpSet prints every module/submodule filed in ms, in source order.
func c03DumpSet(ms *yang.Modules) string {
	seen := map[*yang.Module]bool{}
	var mods []*yang.Module
	for _, m := range []map[string]*yang.Module{ms.Modules, ms.SubModules} {
		for _, v := range m {
			if v != nil && !seen[v] {
				seen[v] = true
				mods = append(mods, v)
			}
		}
	}
	for _, m := range mods {
		if m.Source == nil {
			return "module-without-statement"
		}
	}
	sort.Slice(mods, func(i, j int) bool {
		li, ci := c03Pos(mods[i].Source)
		lj, cj := c03Pos(mods[j].Source)
		return li < lj || (li == lj && ci < cj)
	})
	ids := map[*yang.Statement]int{}
	ctr := 0
	var number func(s *yang.Statement)
	number = func(s *yang.Statement) {
		ids[s] = ctr
		ctr++
		for _, c := range s.SubStatements() {
			number(c)
		}
	}
	for _, m := range mods {
		number(m.Source)
	}
	var b strings.Builder
	b.WriteString("ok")
	for _, m := range mods {
		b.WriteString(" ")
		c03Dump(&b, reflect.ValueOf(m), nil, ids)
	}
	return b.String()
}

func init() {
	handlers["ast"] = func(t []string) string {
		text := string(unhex(t[0]))
		ms := yang.NewModules()
		if err := ms.Parse(text, "t.yang"); err != nil {
			return c03Err(err)
		}
		return c03DumpSet(ms)
	}

	// astfile <hex text> <hex corrected text | -> [tree tokens for the model side]
	// The same through files and Modules.Read, on ONE module set:
	//   step 1  Read(dir/c03case.yang)            the text
	//   step 2  Read(dir/c03case.yang)            again
	//   step 3  AddPath(dir); Read("c03case")     by module name through the search path
	//   step 4  (only with a corrected text) the file is rewritten, Read(dir/c03case.yang) once more
	// Each step prints "err L:C|nopos" or "ok" + the dump of everything filed in the set; steps are
	// separated by " | ".  A Read that returns no error thus always shows what it claims to have built.
	handlers["astfile"] = func(t []string) string {
		text := unhex(t[0])
		var fixed []byte
		if len(t) > 1 && t[1] != "-" {
			fixed = unhex(t[1])
		}
		dir, err := os.MkdirTemp("", "c03f")
		if err != nil {
			return "tmpdir-failed"
		}
		defer os.RemoveAll(dir)
		path := filepath.Join(dir, "c03case.yang")
		if err := os.WriteFile(path, text, 0o644); err != nil {
			return "write-failed"
		}
		ms := yang.NewModules()
		step := func(name string) string {
			if err := ms.Read(name); err != nil {
				return c03Err(err)
			}
			return c03DumpSet(ms)
		}
		out := []string{step(path), step(path)}
		ms.AddPath(dir) // (a rejected Read leaves the search path as it was)
		out = append(out, step("c03case"))
		if fixed != nil {
			if err := os.WriteFile(path, fixed, 0o644); err != nil {
				return "write-failed"
			}
			out = append(out, step(path))
		}
		return strings.Join(out, " | ")
	}
}

// ---------------------------------------------------------------------------------------------
// asthist <ops> <hex text> [tree tokens for the model side, ignored here]
//
// The history leg: the text is parsed into a fresh set (as for "ast"); then the operations named by the
// letters of <ops> are carried out in order on that set / on the nodes of the tree that was built, and the
// modules that Parse filed are dumped again after every step.  The syntax tree is the result of the build;
// none of the later operations is a builder, so every dump must still be the dump of the mirror:
//
//   "err L:C|nopos"                 Parse refused the text
//   "ok <dump>"                     the dump, when it is the same after Parse and after every step
//   "changed@<i><op> ok <dump>"     the first dump that differs from the one taken right after Parse
//
// Operations (panics inside an operation are recovered and ignored: what they do is other properties'
// business, here only the tree is looked at afterwards):
//   P  Modules.Process()
//   G  Modules.GetModule(name) for every module filed
//   E  ToEntry(m) for every module/submodule filed
//   e  ToEntry(n) for every node of the tree (pre-order)
//   C  Modules.ClearEntryCache()
//   M  MatchingExtensions(n, module, identifier) for every node n and every (module, identifier) that one
//      of n's own extension statements resolves to (FindModuleByPrefix), plus identifiers that match none
//      and openconfig-extensions/posix-pattern
//   X  MatchingEntryExtensions(e, …) likewise for the entry of every node (ToEntry), when there is one
//   N  the read-only helpers on every node: Source, NodePath, RootNode, FindModuleByPrefix, ChildNode,
//      FindNode, FindGrouping, PrintNode, Exts/Typedefs/Groupings/Identities, Module.Current/FullName/GetPrefix

func c03FiledModules(ms *yang.Modules) []*yang.Module {
	seen := map[*yang.Module]bool{}
	var mods []*yang.Module
	for _, m := range []map[string]*yang.Module{ms.Modules, ms.SubModules} {
		for _, v := range m {
			if v != nil && !seen[v] {
				seen[v] = true
				mods = append(mods, v)
			}
		}
	}
	sort.Slice(mods, func(i, j int) bool {
		li, ci := c03Pos(mods[i].Source)
		lj, cj := c03Pos(mods[j].Source)
		return li < lj || (li == lj && ci < cj)
	})
	return mods
}

// c03Numbering numbers the statements of the parsed text (pre-order over the modules in source order).
func c03Numbering(mods []*yang.Module) map[*yang.Statement]int {
	ids := map[*yang.Statement]int{}
	ctr := 0
	var number func(s *yang.Statement)
	number = func(s *yang.Statement) {
		ids[s] = ctr
		ctr++
		for _, c := range s.SubStatements() {
			number(c)
		}
	}
	for _, m := range mods {
		number(m.Source)
	}
	return ids
}

func c03DumpMods(mods []*yang.Module, ids map[*yang.Statement]int) string {
	var b strings.Builder
	b.WriteString("ok")
	for _, m := range mods {
		b.WriteString(" ")
		c03Dump(&b, reflect.ValueOf(m), nil, ids)
	}
	return b.String()
}

// c03Nodes lists the nodes of the tree below v in pre-order (the same reflection walk as the dump).
func c03Nodes(v reflect.Value, out *[]yang.Node, budget *int) {
	if *budget <= 0 {
		return
	}
	*budget--
	if n, ok := v.Interface().(yang.Node); ok {
		*out = append(*out, n)
	}
	st := v.Elem()
	t := st.Type()
	for i := 0; i < t.NumField(); i++ {
		tag := t.Field(i).Tag.Get("yang")
		if tag == "" {
			continue
		}
		key := strings.Split(tag, ",")[0]
		fv := st.Field(i)
		switch {
		case key == "Ext", fv.Kind() == reflect.String, fv.Kind() == reflect.Interface, fv.Type() == c03StatementType:
		case fv.Kind() == reflect.Ptr:
			if !fv.IsNil() {
				c03Nodes(fv, out, budget)
			}
		case fv.Kind() == reflect.Slice:
			for j := 0; j < fv.Len(); j++ {
				if k := fv.Index(j); k.Kind() == reflect.Ptr && !k.IsNil() {
					c03Nodes(k, out, budget)
				}
			}
		}
	}
}

func c03Quiet(f func()) {
	defer func() { _ = recover() }()
	f()
}

// c03ExtQueries: the (module, identifier) pairs worth asking node n for.
func c03ExtQueries(n yang.Node, exts []*yang.Statement) [][2]string {
	seen := map[[2]string]bool{}
	var qs [][2]string
	add := func(m, id string) {
		q := [2]string{m, id}
		if !seen[q] {
			seen[q] = true
			qs = append(qs, q)
		}
	}
	for _, x := range exts {
		if x == nil {
			continue
		}
		names := strings.SplitN(x.Keyword, ":", 2)
		id := ""
		if len(names) == 2 {
			id = names[1]
		}
		var mod *yang.Module
		c03Quiet(func() { mod = yang.FindModuleByPrefix(n, names[0]) })
		if mod != nil {
			add(mod.Name, id)
			add(mod.Name, id+"-none")
		}
	}
	add("openconfig-extensions", "posix-pattern")
	return qs
}

func c03Step(op byte, ms *yang.Modules, mods []*yang.Module, nodes []yang.Node) {
	switch op {
	case 'P':
		c03Quiet(func() { ms.Process() })
	case 'G':
		for _, m := range mods {
			if m.Kind() == "module" {
				c03Quiet(func() { ms.GetModule(m.Name) })
			}
		}
	case 'E':
		for _, m := range mods {
			c03Quiet(func() { yang.ToEntry(m) })
		}
	case 'e':
		for _, n := range nodes {
			c03Quiet(func() { yang.ToEntry(n) })
		}
	case 'C':
		c03Quiet(func() { ms.ClearEntryCache() })
	case 'M':
		for _, n := range nodes {
			var exts []*yang.Statement
			c03Quiet(func() { exts = append(exts, n.Exts()...) })
			if len(exts) == 0 {
				continue
			}
			for _, q := range c03ExtQueries(n, exts) {
				c03Quiet(func() { yang.MatchingExtensions(n, q[0], q[1]) })
			}
		}
	case 'X':
		for _, n := range nodes {
			var e *yang.Entry
			c03Quiet(func() { e = yang.ToEntry(n) })
			if e == nil || len(e.Exts) == 0 {
				continue
			}
			exts := append([]*yang.Statement(nil), e.Exts...)
			for _, q := range c03ExtQueries(n, exts) {
				c03Quiet(func() { yang.MatchingEntryExtensions(e, q[0], q[1]) })
			}
		}
	case 'N':
		// ChildNode/FindNode used to recurse without bound through an unresolved uses (D81, repaired in 64dc302);
		// they are called on every set
		for _, n := range nodes {
			c03Quiet(func() { yang.Source(n) })
			c03Quiet(func() { yang.NodePath(n) })
			c03Quiet(func() { yang.RootNode(n) })
			c03Quiet(func() { yang.FindModuleByPrefix(n, "r") })
			c03Quiet(func() { yang.FindModuleByPrefix(n, "") })
			c03Quiet(func() { yang.ChildNode(n, "a") })
			c03Quiet(func() { yang.ChildNode(n, "c1") })
			c03Quiet(func() { yang.FindNode(n, "a") })
			c03Quiet(func() { yang.FindNode(n, "../b") })
			c03Quiet(func() { yang.FindGrouping(n, "a", map[string]bool{}) })
			c03Quiet(func() { yang.FindGrouping(n, "r:a", map[string]bool{}) })
			c03Quiet(func() { yang.PrintNode(io.Discard, n) })
			c03Quiet(func() { n.Exts(); n.Kind(); n.NName(); n.ParentNode(); n.Statement() })
			if m, ok := n.(*yang.Module); ok {
				c03Quiet(func() {
					m.Current()
					m.FullName()
					m.GetPrefix()
					m.Typedefs()
					m.Groupings()
					m.Identities()
				})
			}
		}
	}
}

func init() {
	handlers["asthist"] = func(t []string) string {
		ops := t[0]
		text := string(unhex(t[1]))
		ms := yang.NewModules()
		if err := ms.Parse(text, "t.yang"); err != nil {
			return c03Err(err)
		}
		mods := c03FiledModules(ms)
		for _, m := range mods {
			if m.Source == nil {
				return "module-without-statement"
			}
		}
		ids := c03Numbering(mods)
		first := c03DumpMods(mods, ids)
		var nodes []yang.Node
		budget := 20000
		for _, m := range mods {
			c03Nodes(reflect.ValueOf(m), &nodes, &budget)
		}
		if ops == "-" {
			ops = ""
		}
		for i := 0; i < len(ops); i++ {
			c03Step(ops[i], ms, mods, nodes)
			if d := c03DumpMods(mods, ids); d != first {
				return "changed@" + strconv.Itoa(i) + string(ops[i]) + " " + d
			}
		}
		return first
	}
}
