package main

// Translator: reads the Go sources of /repo with go/ast and writes Coq definitions
// (coq/Gen/*.v) for the parts of goyang that are data.  Invoked as
//   harness gen <repo> <outdir>

import (
	"fmt"
	"os"
	"reflect"
	"runtime"
	"strings"
)

type genFunc func(repo string) (name string, content string, err error)

var generators []genFunc

func init() {
	specials["gen"] = func(args []string) int {
		if len(args) != 2 {
			fmt.Fprintln(os.Stderr, "usage: harness gen <repo> <outdir>")
			return 2
		}
		// A generator that cannot translate the current sources must not stop the others: only the
		// properties that depend on its table are affected.  Failures are listed in FAILED.txt
		// (one generator function name per line, e.g. main.genLocks) and the old table stays.
		var failed []string
		for _, g := range generators {
			fname := runtime.FuncForPC(reflect.ValueOf(g).Pointer()).Name()
			name, content, err := g(args[0])
			if err != nil {
				fmt.Fprintln(os.Stderr, "gen:", fname+":", err)
				failed = append(failed, fname+"\t"+strings.ReplaceAll(err.Error(), "\n", " "))
				continue
			}
			if err := os.WriteFile(args[1]+"/"+name, []byte(content), 0o644); err != nil {
				fmt.Fprintln(os.Stderr, "gen:", err)
				return 1
			}
		}
		if len(failed) > 0 {
			os.WriteFile(args[1]+"/FAILED.txt", []byte(strings.Join(failed, "\n")+"\n"), 0o644)
		}
		return 0
	}
}
