package main

// Translator: reads the Go sources of /repo with go/ast and writes Coq definitions
// (coq/Gen/*.v) for the parts of goyang that are data.  Invoked as
//   harness gen <repo> <outdir>

import (
	"fmt"
	"os"
)

type genFunc func(repo string) (name string, content string, err error)

var generators []genFunc

func init() {
	specials["gen"] = func(args []string) int {
		if len(args) != 2 {
			fmt.Fprintln(os.Stderr, "usage: harness gen <repo> <outdir>")
			return 2
		}
		for _, g := range generators {
			name, content, err := g(args[0])
			if err != nil {
				fmt.Fprintln(os.Stderr, "gen:", err)
				return 1
			}
			if err := os.WriteFile(args[1]+"/"+name, []byte(content), 0o644); err != nil {
				fmt.Fprintln(os.Stderr, "gen:", err)
				return 1
			}
		}
		return 0
	}
}
