package main

// Translator for C03: pkg/yang/yang.go + ast.go  ->  coq/Gen/YangSchema.v
//
// The AST builder of goyang (ast.go: initTypes/build) is a generic interpreter of the `yang:"…"`
// struct tags of the node structs in yang.go.  This generator re-plays initTypes on the syntax of
// the package (go/parser + go/ast, no reflection, no execution of /repo code):
//
//   * roots         the struct types passed to initTypes in ast.go's init()  (`&meta{}`)
//   * aliases       the `aliases` map literal of ast.go
//   * structs       every struct type initTypes reaches, in its depth-first visiting order, each with
//                   its tagged fields in declaration order: key (first tag part, after alias mapping,
//                   as initTypes stores it), kind by Go field type, `required`, `required=KIND` list
//   * name_map      nameMap as initTypes fills it: keyword -> FIRST struct type seen for it (a later
//                   different type is the "redeclared type" panic; it is kept out of the map and
//                   rejected by schema_wf on the Coq side)
//
// Every condition under which initTypes (or the reflect calls in the closures it creates) would
// panic for a field makes that field's kind FBad; schema_wf rejects FBad.
// Per struct it also records whether *T has all methods of interface Node (the Parent closure panics
// otherwise) and the string literals its Kind() method can return (Modules.add switches on them).

import (
	"fmt"
	"go/ast"
	"go/parser"
	"go/token"
	"os"
	"path/filepath"
	"reflect"
	"sort"
	"strconv"
	"strings"
)

type schemaField struct {
	goName   string
	key      string
	kind     string // Coq term
	required bool
	reqKinds []string
	note     string
}

type schemaStruct struct {
	name   string
	isNode bool
	kinds  []string
	fields []schemaField
}

type schemaPkg struct {
	types   map[string]ast.Expr                 // named type -> its type expression
	methods map[string]map[string]*ast.FuncDecl // receiver base type -> method name -> decl
	aliases map[string]string
	roots   []string
}

func coqStr(s string) string {
	// Coq string literal: only `"` needs doubling.  Keys are ASCII in practice; anything else is
	// emitted byte-wise, which is what Coq's string notation does with UTF-8 as well.
	return `"` + strings.ReplaceAll(s, `"`, `""`) + `"`
}

func coqStrList(l []string) string {
	q := make([]string, len(l))
	for i, s := range l {
		q[i] = coqStr(s)
	}
	return "[" + strings.Join(q, "; ") + "]"
}

func loadSchemaPkg(repo string) (*schemaPkg, error) {
	dir := filepath.Join(repo, "pkg", "yang")
	ents, err := os.ReadDir(dir)
	if err != nil {
		return nil, err
	}
	p := &schemaPkg{types: map[string]ast.Expr{}, methods: map[string]map[string]*ast.FuncDecl{}, aliases: map[string]string{}}
	fset := token.NewFileSet()
	var names []string
	for _, e := range ents {
		n := e.Name()
		if e.IsDir() || !strings.HasSuffix(n, ".go") || strings.HasSuffix(n, "_test.go") {
			continue
		}
		names = append(names, n)
	}
	sort.Strings(names)
	for _, n := range names {
		f, err := parser.ParseFile(fset, filepath.Join(dir, n), nil, parser.SkipObjectResolution)
		if err != nil {
			return nil, err
		}
		for _, d := range f.Decls {
			switch d := d.(type) {
			case *ast.GenDecl:
				for _, sp := range d.Specs {
					switch sp := sp.(type) {
					case *ast.TypeSpec:
						p.types[sp.Name.Name] = sp.Type
					case *ast.ValueSpec:
						if n != "ast.go" {
							continue
						}
						for i, id := range sp.Names {
							if id.Name != "aliases" || i >= len(sp.Values) {
								continue
							}
							cl, ok := sp.Values[i].(*ast.CompositeLit)
							if !ok {
								return nil, fmt.Errorf("ast.go: aliases is not a composite literal")
							}
							for _, el := range cl.Elts {
								kv, ok := el.(*ast.KeyValueExpr)
								if !ok {
									return nil, fmt.Errorf("ast.go: aliases element is not key: value")
								}
								k, ok1 := kv.Key.(*ast.BasicLit)
								v, ok2 := kv.Value.(*ast.BasicLit)
								if !ok1 || !ok2 || k.Kind != token.STRING || v.Kind != token.STRING {
									return nil, fmt.Errorf("ast.go: aliases entry is not a pair of string literals")
								}
								ks, _ := strconv.Unquote(k.Value)
								vs, _ := strconv.Unquote(v.Value)
								p.aliases[ks] = vs
							}
						}
					}
				}
			case *ast.FuncDecl:
				if d.Recv != nil && len(d.Recv.List) == 1 {
					t := d.Recv.List[0].Type
					if st, ok := t.(*ast.StarExpr); ok {
						t = st.X
					}
					if id, ok := t.(*ast.Ident); ok {
						if p.methods[id.Name] == nil {
							p.methods[id.Name] = map[string]*ast.FuncDecl{}
						}
						p.methods[id.Name][d.Name.Name] = d
					}
					continue
				}
				if n == "ast.go" && d.Recv == nil && d.Name.Name == "init" && d.Body != nil {
					// initTypes(reflect.TypeOf(&T{}))
					ast.Inspect(d.Body, func(x ast.Node) bool {
						c, ok := x.(*ast.CallExpr)
						if !ok {
							return true
						}
						if id, ok := c.Fun.(*ast.Ident); !ok || id.Name != "initTypes" || len(c.Args) != 1 {
							return true
						}
						root := ""
						if in, ok := c.Args[0].(*ast.CallExpr); ok && len(in.Args) == 1 {
							if u, ok := in.Args[0].(*ast.UnaryExpr); ok && u.Op == token.AND {
								if cl, ok := u.X.(*ast.CompositeLit); ok {
									if id, ok := cl.Type.(*ast.Ident); ok {
										root = id.Name
									}
								}
							}
						}
						p.roots = append(p.roots, root) // "" = not understood, reported below
						return true
					})
				}
			}
		}
	}
	return p, nil
}

// underlying resolves a named type through `type A B` chains.
func (p *schemaPkg) underlying(e ast.Expr) ast.Expr {
	for i := 0; i < 16; i++ {
		id, ok := e.(*ast.Ident)
		if !ok {
			return e
		}
		t, ok := p.types[id.Name]
		if !ok {
			return e
		}
		e = t
	}
	return e
}

func (p *schemaPkg) structOf(name string) *ast.StructType {
	t, ok := p.types[name]
	if !ok {
		return nil
	}
	st, _ := p.underlying(t).(*ast.StructType)
	if _, direct := t.(*ast.StructType); !direct {
		// `type A B`: methods and identity differ from B; initTypes would still see a struct, but no
		// node struct is declared this way; treat as not understood.
		return nil
	}
	return st
}

// ptrStruct returns T when e is *T with T a struct type declared in the package.
func (p *schemaPkg) ptrStruct(e ast.Expr) (string, bool) {
	st, ok := e.(*ast.StarExpr)
	if !ok {
		return "", false
	}
	id, ok := st.X.(*ast.Ident)
	if !ok || p.structOf(id.Name) == nil {
		return "", false
	}
	return id.Name, true
}

func isStatementPtr(e ast.Expr) bool {
	st, ok := e.(*ast.StarExpr)
	if !ok {
		return false
	}
	id, ok := st.X.(*ast.Ident)
	return ok && id.Name == "Statement"
}

func genYangSchema(repo string) (string, string, error) {
	p, err := loadSchemaPkg(repo)
	if err != nil {
		return "", "", err
	}
	if len(p.roots) == 0 {
		return "", "", fmt.Errorf("ast.go: no initTypes(reflect.TypeOf(&T{})) call found in init()")
	}
	for _, r := range p.roots {
		if r == "" || p.structOf(r) == nil {
			return "", "", fmt.Errorf("ast.go: init() calls initTypes with something other than reflect.TypeOf(&Struct{})")
		}
	}
	// methods of interface Node
	var nodeMethods []string
	if it, ok := p.types["Node"].(*ast.InterfaceType); ok {
		for _, m := range it.Methods.List {
			if len(m.Names) == 0 {
				nodeMethods = append(nodeMethods, "?embedded") // cannot be satisfied: isNode false everywhere
			}
			for _, n := range m.Names {
				nodeMethods = append(nodeMethods, n.Name)
			}
		}
	} else {
		return "", "", fmt.Errorf("node.go: interface Node not found")
	}

	var order []*schemaStruct
	visited := map[string]bool{}
	nameMap := map[string]string{}
	var nameOrder []string

	var initTypes func(name string)
	initTypes = func(name string) {
		if visited[name] {
			return
		}
		visited[name] = true
		st := p.structOf(name)
		ss := &schemaStruct{name: name}
		order = append(order, ss)
		ss.isNode = true
		for _, m := range nodeMethods {
			if p.methods[name][m] == nil {
				ss.isNode = false
			}
		}
		if k := p.methods[name]["Kind"]; k != nil && k.Body != nil {
			seen := map[string]bool{}
			ast.Inspect(k.Body, func(x ast.Node) bool {
				r, ok := x.(*ast.ReturnStmt)
				if !ok {
					return true
				}
				v := "?"
				if len(r.Results) == 1 {
					if bl, ok := r.Results[0].(*ast.BasicLit); ok && bl.Kind == token.STRING {
						v, _ = strconv.Unquote(bl.Value)
					}
				}
				if !seen[v] {
					seen[v] = true
					ss.kinds = append(ss.kinds, v)
				}
				return true
			})
		}
		for _, f := range st.Fields.List {
			if f.Tag == nil {
				continue
			}
			raw, _ := strconv.Unquote(f.Tag.Value)
			tag := reflect.StructTag(raw).Get("yang")
			if tag == "" {
				continue
			}
			goNames := []string{"(embedded)"}
			if len(f.Names) > 0 {
				goNames = nil
				for _, n := range f.Names {
					goNames = append(goNames, n.Name)
				}
			}
			for _, gn := range goNames {
				parts := strings.Split(tag, ",")
				key := parts[0]
				if a, ok := p.aliases[key]; ok {
					key = a
				}
				sf := schemaField{goName: gn, key: key}
				bad := ""
				for _, a := range parts[1:] {
					switch {
					case a == "nomerge":
					case a == "required":
						sf.required = true
					case strings.HasPrefix(a, "required="):
						sf.reqKinds = append(sf.reqKinds, a[len("required="):])
					default:
						bad = "unknown tag: " + a
					}
				}
				switch {
				case bad != "":
				case key == "Ext":
					// addext appends a *Statement with reflect.Append: anything but []*Statement panics
					if at, ok := f.Type.(*ast.ArrayType); ok && at.Len == nil && isStatementPtr(at.Elt) {
						sf.kind = "FExt"
					} else {
						bad = "Ext field is not []*Statement"
					}
				default:
					u := p.underlying(f.Type)
					switch t := u.(type) {
					case *ast.InterfaceType:
						id, isId := f.Type.(*ast.Ident)
						switch {
						case key != "Parent":
							bad = "interface field is " + key + ", not Parent"
						case !isId || id.Name != "Node":
							bad = "Parent field is not of type Node"
						default:
							sf.kind = "FParent"
						}
					case *ast.Ident:
						if t.Name == "string" {
							if key != "Name" {
								bad = "string field is " + key + ", not Name"
							} else {
								sf.kind = "FName"
							}
						} else {
							bad = "invalid type: " + t.Name
						}
					case *ast.StarExpr:
						if isStatementPtr(f.Type) {
							if key != "Statement" {
								bad = "*Statement field is " + key + ", not Statement"
							} else {
								sf.kind = "FStatement"
							}
						} else if tn, ok := p.ptrStruct(f.Type); ok {
							sf.kind = "FSingle " + coqStr(tn)
							if _, ok := nameMap[key]; !ok {
								nameMap[key] = tn
								nameOrder = append(nameOrder, key)
								initTypes(tn)
							}
						} else {
							bad = "pointer to a non-struct"
						}
					case *ast.ArrayType:
						if tn, ok := p.ptrStruct(t.Elt); ok && t.Len == nil {
							sf.kind = "FMulti " + coqStr(tn)
							if _, ok := nameMap[key]; !ok {
								nameMap[key] = tn
								nameOrder = append(nameOrder, key)
								initTypes(tn)
							}
						} else {
							bad = "slice of something other than struct pointers"
						}
					default:
						bad = "invalid type"
					}
				}
				if bad != "" {
					sf.kind = "FBad"
					sf.note = bad
				}
				ss.fields = append(ss.fields, sf)
			}
		}
	}
	for _, r := range p.roots {
		initTypes(r)
	}

	var b strings.Builder
	b.WriteString("(* GENERATED by harness/go/gen_schema.go from pkg/yang/yang.go, ast.go, node.go -- do not edit.\n")
	b.WriteString("   The struct-tag table the generic AST builder (ast.go: initTypes, build) interprets. *)\n")
	b.WriteString("From Coq Require Import String List.\nFrom GY Require Import Model.Ast.\nImport ListNotations.\nLocal Open Scope string_scope.\n\n")
	fmt.Fprintf(&b, "(* initTypes is seeded in ast.go's init() with: %s *)\n", strings.Join(p.roots, ", "))
	fmt.Fprintf(&b, "Definition roots : list string := %s.\n\n", coqStrList(p.roots))
	var ak []string
	for k := range p.aliases {
		ak = append(ak, k)
	}
	sort.Strings(ak)
	b.WriteString("Definition aliases : list (string * string) := [")
	for i, k := range ak {
		if i > 0 {
			b.WriteString("; ")
		}
		fmt.Fprintf(&b, "(%s, %s)", coqStr(k), coqStr(p.aliases[k]))
	}
	b.WriteString("].\n\n")
	b.WriteString("(* SDef struct-name implements-Node Kind()-literals fields;  Field key kind required required=KINDs *)\n")
	b.WriteString("Definition structs : list sdef := [\n")
	for i, s := range order {
		fmt.Fprintf(&b, "  SDef %s %v %s [", coqStr(s.name), s.isNode, coqStrList(s.kinds))
		for j, f := range s.fields {
			if j > 0 {
				b.WriteString(";")
			}
			note := ""
			if f.note != "" {
				note = " (* " + strings.ReplaceAll(f.note, "*)", "* )") + " *)"
			}
			fmt.Fprintf(&b, "\n    Field %s (%s) %v %s%s", coqStr(f.key), f.kind, f.required, coqStrList(f.reqKinds), note)
		}
		b.WriteString("]")
		if i < len(order)-1 {
			b.WriteString(";")
		}
		b.WriteString("\n")
	}
	b.WriteString("].\n\n")
	b.WriteString("(* nameMap: keyword -> struct (first type seen by initTypes) *)\n")
	b.WriteString("Definition name_map : list (string * string) := [\n")
	for i, k := range nameOrder {
		sep := ";"
		if i == len(nameOrder)-1 {
			sep = ""
		}
		fmt.Fprintf(&b, "  (%s, %s)%s\n", coqStr(k), coqStr(nameMap[k]), sep)
	}
	b.WriteString("].\n\n")
	b.WriteString("Definition schema : Ast.schema := Schema structs aliases name_map.\n")
	return "YangSchema.v", b.String(), nil
}

func init() {
	generators = append(generators, genYangSchema)
}
