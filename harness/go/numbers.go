package main

import (
	"fmt"
	"sort"
	"strconv"
	"strings"

	"github.com/openconfig/goyang/pkg/yang"
)

func mkNumber(v, fd, neg string) yang.Number {
	val, err := strconv.ParseUint(v, 10, 64)
	if err != nil {
		panic("bad value " + v)
	}
	f, _ := strconv.Atoi(fd)
	return yang.Number{Value: val, FractionDigits: uint8(f), Negative: neg == "1"}
}

func b2s(b bool) string {
	if b {
		return "t"
	}
	return "f"
}

func showNumber(n yang.Number) string {
	neg := "0"
	if n.Negative {
		neg = "1"
	}
	return fmt.Sprintf("%d:%d:%s", n.Value, n.FractionDigits, neg)
}

func parseRangeTok(s string) yang.YangRange {
	if s == "-" {
		return nil
	}
	var r yang.YangRange
	for _, part := range strings.Split(s, ",") {
		mm := strings.Split(part, "~")
		a := strings.Split(mm[0], ":")
		b := strings.Split(mm[1], ":")
		r = append(r, yang.YRange{Min: mkNumber(a[0], a[1], a[2]), Max: mkNumber(b[0], b[1], b[2])})
	}
	return r
}

func showRange(r yang.YangRange) string {
	if len(r) == 0 {
		return "-"
	}
	var ps []string
	for _, x := range r {
		ps = append(ps, showNumber(x.Min)+"~"+showNumber(x.Max))
	}
	return strings.Join(ps, ",")
}

func init() {
	handlers["less"] = func(t []string) string {
		n, m := mkNumber(t[0], t[1], t[2]), mkNumber(t[3], t[4], t[5])
		return b2s(n.Less(m)) + " " + b2s(n.Equal(m))
	}
	handlers["int"] = func(t []string) string {
		i, err := mkNumber(t[0], t[1], t[2]).Int()
		if err != nil {
			return "err"
		}
		return fmt.Sprintf("ok %d", i)
	}
	handlers["string"] = func(t []string) string {
		return "ok " + enhex([]byte(mkNumber(t[0], t[1], t[2]).String()))
	}
	// roundtrip v fd neg : print, parse back at the same precision, compare
	handlers["roundtrip"] = func(t []string) string {
		n := mkNumber(t[0], t[1], t[2])
		str := n.String()
		var m yang.Number
		var err error
		if n.FractionDigits == 0 {
			m, err = yang.ParseInt(str)
		} else {
			m, err = yang.ParseDecimal(str, n.FractionDigits)
		}
		if err != nil {
			return "err"
		}
		return "ok " + showNumber(m) + " " + b2s(m.Equal(n))
	}
	handlers["parseint"] = func(t []string) string {
		n, err := yang.ParseInt(string(unhex(t[0])))
		if err != nil {
			return "err"
		}
		return "ok " + showNumber(n)
	}
	handlers["parsedec"] = func(t []string) string {
		fd, _ := strconv.Atoi(t[1])
		n, err := yang.ParseDecimal(string(unhex(t[0])), uint8(fd))
		if err != nil {
			return "err"
		}
		return "ok " + showNumber(n)
	}
	handlers["asrangeint"] = func(t []string) string {
		lo, _ := strconv.ParseInt(t[1], 10, 64)
		hi, _ := strconv.ParseInt(t[2], 10, 64)
		i, err := yang.VerifAsRangeInt(string(unhex(t[0])), lo, hi)
		if err != nil {
			return "err"
		}
		return fmt.Sprintf("ok %d", i)
	}
	// ranges <parent> <text hex> <decimal 0|1> <fd>
	handlers["ranges"] = func(t []string) string {
		y := parseRangeTok(t[0])
		fd, _ := strconv.Atoi(t[3])
		r, err := yang.VerifParseChildRanges(y, string(unhex(t[1])), t[2] == "1", uint8(fd))
		if err != nil {
			return "err"
		}
		return "ok " + showRange(r)
	}
	// enum <bits 0|1> <name:valuehex|~,...>   through a real module and Type.resolve
	handlers["enum"] = func(t []string) string {
		bits := t[0] == "1"
		var b strings.Builder
		b.WriteString("module m { namespace \"urn:m\"; prefix m; leaf l { type ")
		if bits {
			b.WriteString("bits {")
		} else {
			b.WriteString("enumeration {")
		}
		if t[1] != "-" {
			for _, mem := range strings.Split(t[1], ",") {
				nv := strings.Split(mem, ":")
				kw, vk := "enum", "value"
				if bits {
					kw, vk = "bit", "position"
				}
				if nv[1] == "~" {
					fmt.Fprintf(&b, " %s %s;", kw, nv[0])
				} else {
					fmt.Fprintf(&b, " %s %s { %s \"%s\"; }", kw, nv[0], vk, string(unhex(nv[1])))
				}
			}
		}
		b.WriteString(" } } }")
		ms := yang.NewModules()
		if err := ms.Parse(b.String(), "m.yang"); err != nil {
			return "parse-error " + strings.ReplaceAll(err.Error(), "\n", " ")
		}
		if errs := ms.Process(); len(errs) > 0 {
			return "err"
		}
		e := yang.ToEntry(ms.Modules["m"])
		l := e.Dir["l"]
		if l == nil || l.Type == nil {
			return "no-leaf"
		}
		et := l.Type.Enum
		if bits {
			et = l.Type.Bit
		}
		if et == nil {
			return "ok toint=- tostring=-"
		}
		nm := et.NameMap()
		var names []string
		for n := range nm {
			names = append(names, n)
		}
		sort.Strings(names)
		var a []string
		for _, n := range names {
			a = append(a, fmt.Sprintf("%s:%d", n, nm[n]))
		}
		vm := et.ValueMap()
		var vals []int64
		for v := range vm {
			vals = append(vals, v)
		}
		sort.Slice(vals, func(i, j int) bool { return vals[i] < vals[j] })
		var c []string
		for _, v := range vals {
			c = append(c, fmt.Sprintf("%d:%s", v, vm[v]))
		}
		j := func(x []string) string {
			if len(x) == 0 {
				return "-"
			}
			return strings.Join(x, ",")
		}
		return "ok toint=" + j(a) + " tostring=" + j(c)
	}
}
