package main

// C08: the deviation options are read during Process, so a Process after the options were changed must give what a
// fresh module set gives under the new options.
//
//   c08flip <opts1,opts2,...> <n> (<namehex> <texthex>){n}
//     loads all texts into ONE Modules value, then for every opts string in turn: sets the options
//     (c = IgnoreSubmoduleCircularDependencies, n = IgnoreDeviateNotSupported, "-" none), calls Process and dumps.
//   -> the JSON of `process` (loads, one run per opts string)

import (
	"encoding/json"
	"strconv"
	"strings"

	"github.com/openconfig/goyang/pkg/yang"
)

func runC08Flip(toks []string) string {
	seq := strings.Split(toks[0], ",")
	n, _ := strconv.Atoi(toks[1])
	ms := yang.NewModules()
	out := &procOut{Loads: []string{}, Runs: []*runDump{}}
	for i := 0; i < n; i++ {
		name := string(unhex(toks[2+2*i]))
		text := string(unhex(toks[3+2*i]))
		if err := ms.Parse(text, name); err != nil {
			out.Loads = append(out.Loads, "err: "+strings.SplitN(err.Error(), "\n", 2)[0])
		} else {
			out.Loads = append(out.Loads, "ok")
		}
	}
	for _, opts := range seq {
		ms.ParseOptions.IgnoreSubmoduleCircularDependencies = strings.Contains(opts, "c")
		ms.ParseOptions.DeviateOptions.IgnoreDeviateNotSupported = strings.Contains(opts, "n")
		run := &runDump{Errors: []string{}, ErrPos: []string{}, TreeViol: []string{}, FindViol: []string{}}
		errs := ms.Process()
		for _, e := range errs {
			run.Errors = append(run.Errors, e.Error())
			run.ErrPos = append(run.ErrPos, "")
		}
		if len(errs) == 0 {
			dumpModules(ms, run, false)
		}
		out.Runs = append(out.Runs, run)
	}
	b, err := json.Marshal(out)
	if err != nil {
		return "BROKEN json: " + err.Error()
	}
	return string(b)
}

func init() {
	handlers["c08flip"] = runC08Flip
}
