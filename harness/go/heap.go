package main

// C06 (pointer level): runs (*Entry).dup / add / merge on a hand-built graph of *yang.Entry values and dumps the
// resulting POINTER GRAPH canonically, for comparison with the heap model coq/Model/Heap.v.
//
//   heap <N> <cell>{N} <nops> <op>* <nroots> <ref>*
//   cell = <parent|~> <namehex> <kind> <la: ~ | min:max> <ty: ~ | token> <ns: ~> <nkids> (<keyhex> <id>)* <input|~> <output|~>
//   op   = D <ref>                 r_k := dup(ref)            (k-th D, k from 0; r_k is added to the dump roots)
//        | M <ref> <ns|~> <ref>    merge(nil, ns, oe)
//        | A <ref> <keyhex> <ref>  add(key, value)
//        | F <ref>                 FixChoice()
//   ref  = <id> | r<k>
//
// Dump: nodes numbered by first visit in a walk from the roots (given roots, then dup results) -- Dir in sorted key order,
// then RPC.Input, then RPC.Output; a node met again is not re-walked, so a shared node shows as a link to an earlier
// number.  Per node:  <n> p=<parent's number|~ nil|x not in the graph> <namehex> k<kind> la= ty= ns= e=<#errors>
// d=[keyhex>n,...] i= o= s=<sub-records shared with an earlier node: L ListAttr, X Extra, D Default, R RPC>.

import (
	"fmt"
	"reflect"
	"sort"
	"strconv"
	"strings"

	"github.com/openconfig/goyang/pkg/yang"
)

func init() { handlers["heap"] = runHeap }

func runHeap(toks []string) string {
	pos := 0
	next := func() string { t := toks[pos]; pos++; return t }
	atoi := func(s string) int {
		n, err := strconv.Atoi(s)
		if err != nil {
			panic("bad int " + s)
		}
		return n
	}
	n := atoi(next())
	ents := make([]*yang.Entry, n)
	for i := range ents {
		ents[i] = &yang.Entry{}
	}
	types := map[string]*yang.YangType{}
	typeTok := map[*yang.YangType]string{}
	nsvals := map[string]*yang.Value{}
	nsTok := map[*yang.Value]string{}
	nsval := func(t string) *yang.Value {
		if t == "~" {
			return nil
		}
		if nsvals[t] == nil {
			nsvals[t] = &yang.Value{Name: "ns" + t}
			nsTok[nsvals[t]] = t
		}
		return nsvals[t]
	}
	for i := 0; i < n; i++ {
		e := ents[i]
		if p := next(); p != "~" {
			e.Parent = ents[atoi(p)]
		}
		e.Name = string(unhex(next()))
		e.Node = &yang.Container{Name: e.Name}
		e.Kind = yang.EntryKind(atoi(next()))
		if la := next(); la != "~" {
			f := strings.Split(la, ":")
			mn, _ := strconv.ParseUint(f[0], 10, 64)
			mx, _ := strconv.ParseUint(f[1], 10, 64)
			e.ListAttr = &yang.ListAttr{MinElements: mn, MaxElements: mx}
		}
		if ty := next(); ty != "~" {
			if types[ty] == nil {
				types[ty] = &yang.YangType{Name: "t" + ty}
				typeTok[types[ty]] = ty
			}
			e.Type = types[ty]
		}
		if ns := next(); ns != "~" {
			panic("initial namespace stamps are not supported")
		}
		nk := atoi(next())
		if e.Kind != yang.LeafEntry || nk > 0 {
			e.Dir = map[string]*yang.Entry{}
		}
		for j := 0; j < nk; j++ {
			k := string(unhex(next()))
			e.Dir[k] = ents[atoi(next())]
		}
		in, out := next(), next()
		if in != "~" || out != "~" {
			e.RPC = &yang.RPCEntry{}
			if in != "~" {
				e.RPC.Input = ents[atoi(in)]
			}
			if out != "~" {
				e.RPC.Output = ents[atoi(out)]
			}
		}
		e.Extra = map[string][]interface{}{"x": {i}}
		e.Default = append(make([]string, 0, 4), "v")
	}
	var results []*yang.Entry
	ref := func(t string) *yang.Entry {
		if strings.HasPrefix(t, "r") {
			return results[atoi(t[1:])]
		}
		return ents[atoi(t)]
	}
	nops := atoi(next())
	for i := 0; i < nops; i++ {
		switch op := next(); op {
		case "D":
			results = append(results, yang.VerifDup(ref(next())))
		case "M":
			e, ns, oe := ref(next()), nsval(next()), ref(next())
			yang.VerifMerge(e, nil, ns, oe)
		case "A":
			e, k, v := ref(next()), string(unhex(next())), ref(next())
			yang.VerifAdd(e, k, v)
		case "F":
			ref(next()).FixChoice()
		default:
			panic("bad op " + op)
		}
	}
	var roots []*yang.Entry
	nroots := atoi(next())
	for i := 0; i < nroots; i++ {
		roots = append(roots, ref(next()))
	}
	roots = append(roots, results...)

	num := map[*yang.Entry]int{}
	var order []*yang.Entry
	var walk func(e *yang.Entry)
	walk = func(e *yang.Entry) {
		if e == nil {
			return
		}
		if _, ok := num[e]; ok {
			return
		}
		num[e] = len(order)
		order = append(order, e)
		keys := make([]string, 0, len(e.Dir))
		for k := range e.Dir {
			keys = append(keys, k)
		}
		sort.Strings(keys)
		for _, k := range keys {
			walk(e.Dir[k])
		}
		if e.RPC != nil {
			walk(e.RPC.Input)
			walk(e.RPC.Output)
		}
	}
	for _, r := range roots {
		walk(r)
	}
	nref := func(e *yang.Entry) string {
		if e == nil {
			return "~"
		}
		if k, ok := num[e]; ok {
			return strconv.Itoa(k)
		}
		return "x"
	}
	seenLA := map[*yang.ListAttr]bool{}
	seenX := map[uintptr]bool{}
	seenD := map[*string]bool{}
	seenR := map[*yang.RPCEntry]bool{}
	var out []string
	for i, e := range order {
		la, ty, ns, sh := "~", "~", "~", ""
		if e.ListAttr != nil {
			la = fmt.Sprintf("%d:%d", e.ListAttr.MinElements, e.ListAttr.MaxElements)
			if seenLA[e.ListAttr] {
				sh += "L"
			}
			seenLA[e.ListAttr] = true
		}
		if e.Type != nil {
			if t, ok := typeTok[e.Type]; ok {
				ty = t
			} else {
				ty = "new"
			}
		}
		if v := yang.VerifNamespaceField(e); v != nil {
			if t, ok := nsTok[v]; ok {
				ns = t
			} else {
				ns = "new"
			}
		}
		if e.Extra != nil {
			p := reflect.ValueOf(e.Extra).Pointer()
			if seenX[p] {
				sh += "X"
			}
			seenX[p] = true
		}
		if len(e.Default) > 0 {
			if seenD[&e.Default[0]] {
				sh += "D"
			}
			seenD[&e.Default[0]] = true
		}
		in, outp := "~", "~"
		if e.RPC != nil {
			if seenR[e.RPC] {
				sh += "R"
			}
			seenR[e.RPC] = true
			in, outp = nref(e.RPC.Input), nref(e.RPC.Output)
		}
		keys := make([]string, 0, len(e.Dir))
		for k := range e.Dir {
			keys = append(keys, k)
		}
		sort.Strings(keys)
		var d []string
		for _, k := range keys {
			d = append(d, enhex([]byte(k))+">"+nref(e.Dir[k]))
		}
		out = append(out, fmt.Sprintf("%d p=%s %s k%d la=%s ty=%s ns=%s e=%d d=[%s] i=%s o=%s s=%s",
			i, nref(e.Parent), enhex([]byte(e.Name)), int(e.Kind), la, ty, ns, len(e.Errors), strings.Join(d, ","), in, outp, sh))
	}
	return strings.Join(out, " | ")
}
