module verifharness

go 1.22.0

require github.com/openconfig/goyang v0.0.0

replace github.com/openconfig/goyang => /repo
