module verifharness

go 1.22.0

require github.com/openconfig/goyang v0.0.0

require github.com/google/go-cmp v0.7.0 // indirect

replace github.com/openconfig/goyang => /repo
