package main

import (
	"strconv"
	"strings"

	"github.com/openconfig/goyang/pkg/yang"
)

// C15: histories of parses in ONE process.
func init() {
	// parsedecseq <text hex> <fd> <text hex> <fd> ...   -> results in order, separated by " | "
	// (each result as for parsedec; what a call returns must not depend on the calls made before it)
	handlers["parsedecseq"] = func(t []string) string {
		var out []string
		for i := 0; i+1 < len(t); i += 2 {
			fd, err := strconv.Atoi(t[i+1])
			if err != nil || fd < 0 || fd > 255 {
				panic("bad fraction-digits " + t[i+1])
			}
			n, perr := yang.ParseDecimal(string(unhex(t[i])), uint8(fd))
			if perr != nil {
				out = append(out, "err")
			} else {
				out = append(out, "ok "+showNumber(n))
			}
		}
		return strings.Join(out, " | ")
	}
}
