package main

import (
	"sort"
	"strconv"
	"strings"
	"sync"

	"github.com/openconfig/goyang/pkg/yang"
)

// C15: histories of parses in ONE process.
func init() {
	// parsedecseq <text hex> <fd> <text hex> <fd> ...   -> results in order, separated by " | "
	// (each result as for parsedec; what a call returns must not depend on the calls made before it)
	handlers["parsedecseq"] = func(t []string) string {
		var out []string
		for i := 0; i+1 < len(t); i += 2 {
			fd, err := strconv.Atoi(t[i+1])
			if err != nil || fd < 0 || fd > 255 {
				panic("bad fraction-digits " + t[i+1])
			}
			n, perr := yang.ParseDecimal(string(unhex(t[i])), uint8(fd))
			if perr != nil {
				out = append(out, "err")
			} else {
				out = append(out, "ok "+showNumber(n))
			}
		}
		return strings.Join(out, " | ")
	}

	// rangeapi <range tok>     a YangRange built by hand (bounds may carry different fraction digits)
	// -> "less=<t|f for every pair i,j in row order> sorted=<t|f sort.IsSorted> valid=<t|f Validate() == nil>
	//     sort=<the range after Sort()> validsorted=<t|f Validate() of that>"
	handlers["rangeapi"] = func(t []string) string {
		r := parseRangeTok(t[0])
		var less strings.Builder
		for i := range r {
			for j := range r {
				less.WriteString(tf(r.Less(i, j)))
			}
		}
		if less.Len() == 0 {
			less.WriteString("-")
		}
		out := "less=" + less.String() + " sorted=" + tf(sort.IsSorted(r)) + " valid=" + tf(r.Validate() == nil)
		r.Sort()
		return out + " sort=" + showRange(r) + " validsorted=" + tf(r.Validate() == nil)
	}

	// stringpar <iterations> <v:fd:neg> <v:fd:neg> ...   one goroutine per number, all printing at the same time
	// -> per number the hex of what String returned (every time the same), or MIXED:<hex of a deviating result>
	handlers["stringpar"] = func(t []string) string {
		iters, err := strconv.Atoi(t[0])
		if err != nil {
			panic("bad iterations")
		}
		nums := make([]yang.Number, 0, len(t)-1)
		for _, x := range t[1:] {
			f := strings.Split(x, ":")
			nums = append(nums, mkNumber(f[0], f[1], f[2]))
		}
		res := make([]string, len(nums))
		var wg sync.WaitGroup
		start := make(chan struct{})
		for i := range nums {
			wg.Add(1)
			go func(i int) {
				defer wg.Done()
				<-start
				first := nums[i].String()
				res[i] = enhex([]byte(first))
				for k := 1; k < iters; k++ {
					if s := nums[i].String(); s != first {
						res[i] = "MIXED:" + enhex([]byte(s))
						return
					}
				}
			}(i)
		}
		close(start)
		wg.Wait()
		return strings.Join(res, " ")
	}
}

func tf(b bool) string {
	if b {
		return "t"
	}
	return "f"
}
