package main

// C12: the rendering of Entry.Print as an observable of read-only-ness.
//
//   print12 <opts> <n> (<namehex> <texthex>){n}
//   output: JSON {"loads":[..], "runs":[dump], "prints":[p1,...]}: for EVERY entry of every module tree -- rpc/action
//   input and output entries included -- Print is started at that entry; p = "<position>|<markers>" where markers has
//   one letter per printed node line, in the order printed: R for "RO:" and w for "rw:".  Print walks Dir in sorted key
//   order and does not descend into rpc input/output, so the markers are the read-only flags of the entry and its Dir
//   descendants in pre-order.

import (
	"bytes"
	"encoding/json"
	"sort"
	"strconv"
	"strings"

	"github.com/openconfig/goyang/pkg/yang"
)

type print12Out struct {
	Loads  []string   `json:"loads"`
	Runs   []*runDump `json:"runs"`
	Prints []string   `json:"prints"`
}

func runPrint12(toks []string) string {
	opts := toks[0]
	n, _ := strconv.Atoi(toks[1])
	ms := yang.NewModules()
	ms.ParseOptions.IgnoreSubmoduleCircularDependencies = strings.Contains(opts, "c")
	ms.ParseOptions.DeviateOptions.IgnoreDeviateNotSupported = strings.Contains(opts, "n")
	out := &print12Out{Loads: []string{}, Runs: []*runDump{}, Prints: []string{}}
	for i := 0; i < n; i++ {
		name, text := string(unhex(toks[2+2*i])), string(unhex(toks[3+2*i]))
		if err := ms.Parse(text, name); err != nil {
			out.Loads = append(out.Loads, "err: "+strings.SplitN(err.Error(), "\n", 2)[0])
		} else {
			out.Loads = append(out.Loads, "ok")
		}
	}
	run := &runDump{Errors: []string{}, ErrPos: []string{}, TreeViol: []string{}, FindViol: []string{}}
	out.Runs = append(out.Runs, run)
	for _, e := range ms.Process() {
		run.Errors = append(run.Errors, e.Error())
	}
	if len(run.Errors) == 0 {
		dumpModules(ms, run, false)
		var names []string
		for k, m := range ms.Modules {
			if k == m.Name {
				names = append(names, k)
			}
		}
		sort.Strings(names)
		var visit func(e *yang.Entry, pos string)
		visit = func(e *yang.Entry, pos string) {
			var b bytes.Buffer
			e.Print(&b)
			var marks []byte
			for _, line := range strings.Split(b.String(), "\n") {
				t := strings.TrimLeft(line, " ")
				switch {
				case strings.HasPrefix(t, "RO: "):
					marks = append(marks, 'R')
				case strings.HasPrefix(t, "rw: "):
					marks = append(marks, 'w')
				}
			}
			out.Prints = append(out.Prints, pos+"|"+string(marks))
			var keys []string
			for k := range e.Dir {
				keys = append(keys, k)
			}
			sort.Strings(keys)
			for _, k := range keys {
				visit(e.Dir[k], pos+"/C"+strings.TrimPrefix(enhex([]byte(k)), "-"))
			}
			if e.RPC != nil {
				if e.RPC.Input != nil {
					visit(e.RPC.Input, pos+"/I")
				}
				if e.RPC.Output != nil {
					visit(e.RPC.Output, pos+"/O")
				}
			}
		}
		for _, k := range names {
			visit(yang.ToEntry(ms.Modules[k]), enhex([]byte(k)))
		}
	}
	b, err := json.Marshal(out)
	if err != nil {
		return "BROKEN json: " + err.Error()
	}
	return string(b)
}

func init() {
	handlers["print12"] = runPrint12
}
