package main

// C13: module registry (Modules.add / FindModule lookups) and file chooser (findFile / findInDir).
//
//   registry <op> ...
//       a:<m|s>:<namehex>:<revs>     Parse a generated (sub)module text; revs = "-" or rev,rev,... (hex, "_" = "")
//       t:<hdr>+<hdr>+...            Parse ONE text holding several (sub)modules; hdr = <m|s>;<namehex>;<revs>;
//                                    the id of the j-th module of op i is 1000+16*i+j; one verdict for the text
//       f:<m|s>:<namehex>:<n|r<hex>> FindModule of an Import (m) / Include (s), n = no revision-date
//     -> v=<0|1 per add> f=<id|- per find> M=<keyhex>:<id>,... S=<keyhex>:<id>,...
//     the id of a text is the index of its op; it is written into the description statement.
//
//   findfile <tree> <cwd> <path> <name>
//       tree  (<entry>,<entry>,...)  entry = F<namehex> | L<namehex> | D<namehex>(<entry>,...)   children of the temp root
//             (L = a symbolic link to a regular file kept outside the tree: for the chooser it is a file)
//       cwd   comp/comp/... (hex) or "."          directory (below the root) the lookup runs in
//       path  elem;elem;... or "-"                elem = comp/comp/... or ".", a trailing "+" appends "/..."
//       name  hex
//     -> root-relative components (hex, '/'-joined) of the file that was opened, "-" if none

import (
	"fmt"
	"os"
	"path/filepath"
	"sort"
	"strings"

	"github.com/openconfig/goyang/pkg/yang"
)

func c13Rev(s string) string {
	if s == "_" {
		return ""
	}
	return string(unhex(s))
}

func c13Text(kind, name string, revs []string, id int) string {
	var b strings.Builder
	if kind == "m" {
		fmt.Fprintf(&b, "module %q { namespace \"urn:x\"; prefix p; ", name)
	} else {
		fmt.Fprintf(&b, "submodule %q { belongs-to owner { prefix o; } ", name)
	}
	fmt.Fprintf(&b, "description \"%d\"; ", id)
	for _, r := range revs {
		fmt.Fprintf(&b, "revision %q; ", r)
	}
	b.WriteString("}")
	return b.String()
}

func c13Desc(m *yang.Module) string {
	if m == nil {
		return "-"
	}
	if m.Description == nil {
		return "?"
	}
	return m.Description.Name
}

func c13Dump(m map[string]*yang.Module) string {
	var ks []string
	for k := range m {
		ks = append(ks, k)
	}
	sort.Strings(ks)
	var out []string
	for _, k := range ks {
		out = append(out, enhex([]byte(k))+":"+c13Desc(m[k]))
	}
	if len(out) == 0 {
		return "-"
	}
	return strings.Join(out, ",")
}

func c13Registry(toks []string) string {
	ms := yang.NewModules()
	var vs, fs []string
	for i, op := range toks {
		if strings.HasPrefix(op, "t:") {
			var texts []string
			for j, h := range strings.Split(op[2:], "+") {
				q := strings.Split(h, ";")
				if len(q) != 3 {
					return "bad-case"
				}
				var revs []string
				if q[2] != "-" {
					for _, r := range strings.Split(q[2], ",") {
						revs = append(revs, c13Rev(r))
					}
				}
				texts = append(texts, c13Text(q[0], string(unhex(q[1])), revs, 1000+16*i+j))
			}
			if err := ms.Parse(strings.Join(texts, "\n"), fmt.Sprintf("t%d", i)); err != nil {
				vs = append(vs, "0")
			} else {
				vs = append(vs, "1")
			}
			continue
		}
		p := strings.Split(op, ":")
		if len(p) != 4 {
			return "bad-case"
		}
		name := string(unhex(p[2]))
		switch p[0] {
		case "a":
			var revs []string
			if p[3] != "-" {
				for _, r := range strings.Split(p[3], ",") {
					revs = append(revs, c13Rev(r))
				}
			}
			if err := ms.Parse(c13Text(p[1], name, revs, i), fmt.Sprintf("t%d", i)); err != nil {
				vs = append(vs, "0")
			} else {
				vs = append(vs, "1")
			}
		case "f":
			var rd *yang.Value
			if p[3] != "n" {
				rd = &yang.Value{Name: c13Rev(p[3][1:])}
			}
			var n yang.Node
			if p[1] == "m" {
				n = &yang.Import{Name: name, RevisionDate: rd}
			} else {
				n = &yang.Include{Name: name, RevisionDate: rd}
			}
			fs = append(fs, c13Desc(ms.FindModule(n)))
		default:
			return "bad-case"
		}
	}
	j := func(x []string, sep string) string {
		if len(x) == 0 {
			return "-"
		}
		return strings.Join(x, sep)
	}
	return fmt.Sprintf("v=%s f=%s M=%s S=%s", j(vs, ""), j(fs, ","), c13Dump(ms.Modules), c13Dump(ms.SubModules))
}

// ---- findfile ----

type c13Parser struct {
	s     string
	i     int
	store string // directory outside the layout holding the targets of the symbolic links
	n     int
	revs  bool // every file gets a revision statement of its own (several files of one module can be loaded)
	r     int
}

// entries parses "(" entry { "," entry } ")" or "()" and creates them below dir; rel = hex components so far.
func (p *c13Parser) entries(dir string, rel []string) {
	if p.s[p.i] != '(' {
		panic("tree syntax")
	}
	p.i++
	for p.s[p.i] != ')' {
		kind := p.s[p.i]
		p.i++
		j := p.i
		for p.i < len(p.s) && strings.IndexByte("(),", p.s[p.i]) < 0 {
			p.i++
		}
		hx := p.s[j:p.i]
		name := string(unhex(hx))
		full := filepath.Join(dir, name)
		r := append(append([]string{}, rel...), hx)
		switch kind {
		case 'F', 'L':
			// the module inside carries the name the file name announces (its leading letters)
			k := 0
			for k < len(name) && name[k] >= 'a' && name[k] <= 'z' {
				k++
			}
			mod := "x"
			if k > 0 {
				mod = name[:k]
			}
			txt := fmt.Sprintf("module %s { namespace \"urn:x\"; prefix p; description \"%s\"; }", mod, strings.Join(r, "/"))
			if p.revs {
				p.r++
				txt = fmt.Sprintf("module %s { namespace \"urn:x\"; prefix p; description \"%s\"; revision %04d-01-01; }", mod, strings.Join(r, "/"), 1000+p.r)
			}
			if kind == 'L' {
				p.n++
				target := filepath.Join(p.store, fmt.Sprintf("t%d", p.n))
				if err := os.WriteFile(target, []byte(txt), 0o644); err != nil {
					panic(err)
				}
				if err := os.Symlink(target, full); err != nil {
					panic(err)
				}
			} else if err := os.WriteFile(full, []byte(txt), 0o644); err != nil {
				panic(err)
			}
		case 'D':
			if err := os.MkdirAll(full, 0o755); err != nil {
				panic(err)
			}
			p.entries(full, r)
		default:
			panic("tree syntax")
		}
		if p.s[p.i] == ',' {
			p.i++
		}
	}
	p.i++
}

func c13Comps(root, s string) string {
	d := root
	if s != "." {
		for _, c := range strings.Split(s, "/") {
			d = filepath.Join(d, string(unhex(c)))
		}
	}
	return d
}

// c13PathElem: comp/comp/... (hex, below the temp root: an absolute element), "." (the root), or
// r<spelling hex>:<comps> for an element spelled relative to the current directory, used as spelled; a trailing "+"
// appends "/...".
func c13PathElem(root, e string) string {
	dots := strings.HasSuffix(e, "+")
	e = strings.TrimSuffix(e, "+")
	var d string
	if strings.HasPrefix(e, "r") {
		d = string(unhex(e[1:strings.Index(e, ":")]))
	} else {
		d = c13Comps(root, e)
	}
	if dots {
		d += "/..."
	}
	return d
}

// readseq <tree> <cwd> <path> <name>,<name>,...: the path is set with AddPath, then Read(name) for each name in turn
// on one Modules -> per step the root-relative components of the file whose module arrived, "-" when Read failed
func c13ReadSeq(toks []string) string {
	if len(toks) != 4 {
		return "bad-case"
	}
	root, err := os.MkdirTemp("", "c13rs")
	if err != nil {
		panic(err)
	}
	defer os.RemoveAll(root)
	store, err := os.MkdirTemp("", "c13st")
	if err != nil {
		panic(err)
	}
	defer os.RemoveAll(store)
	(&c13Parser{s: toks[0], store: store, revs: true}).entries(root, nil)
	ms := yang.NewModules()
	if toks[2] != "-" {
		for _, e := range strings.Split(toks[2], ";") {
			ms.AddPath(c13PathElem(root, e))
		}
	}
	old, err := os.Getwd()
	if err != nil {
		panic(err)
	}
	if err := os.Chdir(c13Comps(root, toks[1])); err != nil {
		panic(err)
	}
	defer os.Chdir(old)
	seen := map[string]bool{}
	var out []string
	for _, n := range strings.Split(toks[3], ",") {
		rerr := ms.Read(string(unhex(n)))
		var got []string
		for _, m := range ms.Modules {
			d := c13Desc(m)
			if !seen[d] {
				seen[d] = true
				got = append(got, d)
			}
		}
		sort.Strings(got)
		switch {
		case len(got) == 0 && rerr != nil:
			out = append(out, "-")
		case len(got) == 1 && rerr == nil:
			out = append(out, got[0])
		default:
			out = append(out, fmt.Sprintf("odd:err=%v:loaded=%s", rerr != nil, strings.Join(got, "+")))
		}
	}
	return strings.Join(out, ",")
}

func c13FindFile(toks []string) string {
	if len(toks) != 4 {
		return "bad-case"
	}
	root, err := os.MkdirTemp("", "c13ff")
	if err != nil {
		panic(err)
	}
	defer os.RemoveAll(root)
	store, err := os.MkdirTemp("", "c13st")
	if err != nil {
		panic(err)
	}
	defer os.RemoveAll(store)
	(&c13Parser{s: toks[0], store: store}).entries(root, nil)

	ms := yang.NewModules()
	if toks[2] != "-" {
		for _, e := range strings.Split(toks[2], ";") {
			ms.Path = append(ms.Path, c13PathElem(root, e))
		}
	}
	old, err := os.Getwd()
	if err != nil {
		panic(err)
	}
	if err := os.Chdir(c13Comps(root, toks[1])); err != nil {
		panic(err)
	}
	defer os.Chdir(old)

	rerr := ms.Read(string(unhex(toks[3])))
	seen := map[string]bool{}
	var got []string
	for _, m := range ms.Modules {
		d := c13Desc(m)
		if !seen[d] {
			seen[d] = true
			got = append(got, d)
		}
	}
	switch {
	case len(got) == 0 && rerr != nil:
		return "-"
	case len(got) == 1 && rerr == nil:
		return got[0]
	default:
		sort.Strings(got)
		return fmt.Sprintf("odd:err=%v:loaded=%s", rerr != nil, strings.Join(got, "+"))
	}
}

// findtwice <treeA> <treeB> <cwd> <path> <name>: FindModule of an import of <name> on layout A, then the entries of
// B are added to the layout and the same Modules is asked again -> "<first> <second>"
func c13FindTwice(toks []string) string {
	if len(toks) != 5 {
		return "bad-case"
	}
	root, err := os.MkdirTemp("", "c13ff")
	if err != nil {
		panic(err)
	}
	defer os.RemoveAll(root)
	store, err := os.MkdirTemp("", "c13st")
	if err != nil {
		panic(err)
	}
	defer os.RemoveAll(store)
	pr := &c13Parser{s: toks[0], store: store}
	pr.entries(root, nil)
	ms := yang.NewModules()
	if toks[3] != "-" {
		for _, e := range strings.Split(toks[3], ";") {
			ms.Path = append(ms.Path, c13PathElem(root, e))
		}
	}
	old, err := os.Getwd()
	if err != nil {
		panic(err)
	}
	if err := os.Chdir(c13Comps(root, toks[2])); err != nil {
		panic(err)
	}
	defer os.Chdir(old)
	name := string(unhex(toks[4]))
	first := c13Desc(ms.FindModule(&yang.Import{Name: name}))
	pr.s, pr.i = toks[1], 0
	pr.entries(root, nil)
	second := c13Desc(ms.FindModule(&yang.Import{Name: name}))
	return first + " " + second
}

func init() {
	handlers["readseq"] = c13ReadSeq
	handlers["findtwice"] = c13FindTwice
	handlers["registry"] = c13Registry
	handlers["findfile"] = c13FindFile
}
