open Drv
(* ---- C05 ----
   errsort  <hex> <hex> ...   one token per error text ("-" = empty text, no token = no error):
                              "n=<count> <hex> ..." = the extracted errorSort (insertion sort instance), same format as the Go side
   errclass <hex> <hex> ...   "positioned" | "-": are all texts positioned (file:line:col: text, Spec/C05.v) *)
let do_errsort toks =
  let l = L.map bytes_of_hex toks in
  let out = ErrorSort.errorSort l in
  Str_.concat " " (("n=" ^ string_of_int (L.length out)) :: L.map hex_of_bytes out)

let do_errclass toks =
  let l = L.map bytes_of_hex toks in
  if L.for_all C05.positionedb l then "positioned" else "-"

let () = register "errsort" do_errsort; register "errclass" do_errclass
