open Drv
(* ---- C05 ----
   errsort  <hex> <hex> ...   one token per error text ("-" = empty text, no token = no error):
                              "n=<count> <hex> ..." = the extracted errorSort (insertion sort instance), same format as the Go side
   errclass <hex> <hex> ...   "positioned" | "-": are all texts positioned (file:line:col: text, Spec/C05.v) *)
let do_errsort toks =
  let l = L.map bytes_of_hex toks in
  let out = ErrorSort.errorSort l in
  Str_.concat " " (("n=" ^ string_of_int (L.length out)) :: L.map hex_of_bytes out)

let do_errclass toks =
  let l = L.map bytes_of_hex toks in
  if L.for_all C05.positionedb l then "positioned" else "-"

let () = register "errsort" do_errsort; register "errclass" do_errclass

(* c05find <pathspec> <files> <names>
     pathspec  ';'-separated search path entries: '/'-separated hex components below the root ("." = the root), a
               trailing '+' = dir/...
     files     ';'-separated regular files of the tree: '/'-separated hex components
     names     ','-separated hex module names asked for
   -> per name: '/'-separated hex components of the file C05.lookup_fs settles on, "-" = no such file, "?" = not modelled *)
let c05_comps s = if s = "." then [] else L.map bytes_of_hex (Str_.split_on_char '/' s)
let rec c05_insert (es : File.entry list) = function
  | [] -> es
  | [f] -> File.File f :: es
  | d :: rest ->
    let rec go = function
      | [] -> [File.Dir (d, c05_insert [] rest)]
      | File.Dir (n, cs) :: tl when n = d -> File.Dir (n, c05_insert cs rest) :: tl
      | e :: tl -> e :: go tl in
    go es
let do_c05find toks =
  match toks with
  | [p; fs; ns] ->
    let path = L.map (fun e ->
        let n = Str_.length e in
        if n > 0 && e.[n - 1] = '+' then (c05_comps (Str_.sub e 0 (n - 1)), true) else (c05_comps e, false))
        (Str_.split_on_char ';' p) in
    let tree = L.fold_left (fun es f -> c05_insert es (c05_comps f)) [] (Str_.split_on_char ';' fs) in
    let root = File.Dir ([], tree) in
    let one n =
      match C05.lookup_fs root path (bytes_of_hex n) with
      | Outcome.Ok f ->
        let i = int_of_nat f.File.f_loc in
        if i = 0 then "?" else
          let base = fst (L.nth path (i - 1)) in
          Str_.concat "/" (L.map hex_of_bytes (base @ f.File.f_rel))
      | Outcome.Err -> "-"
      | _ -> "?" in
    Str_.concat " " (L.map one (Str_.split_on_char ',' ns))
  | _ -> "bad-case"

let () = register "c05find" do_c05find
