(* Utilities and command registry of the line-protocol driver around the extracted Coq model.
   stdin: one case per line, "<cmd> <tok> <tok> ...";  stdout: one observation per line.
   Byte strings are hex ("-" = empty); integers are decimal. *)
open BinNums
open Datatypes
module L = Stdlib.List
module Str_ = Stdlib.String

let rec pos_of_int n =
  if n <= 1 then Coq_xH
  else if n land 1 = 1 then Coq_xI (pos_of_int (n lsr 1)) else Coq_xO (pos_of_int (n lsr 1))
let n_of_int n = if n <= 0 then N0 else Npos (pos_of_int n)
let rec int_of_pos = function Coq_xH -> 1 | Coq_xO p -> 2 * int_of_pos p | Coq_xI p -> 2 * int_of_pos p + 1
let int_of_n = function N0 -> 0 | Npos p -> int_of_pos p
let z_of_int n = if n = 0 then Z0 else if n > 0 then Zpos (pos_of_int n) else Zneg (pos_of_int (-n))
let int_of_z = function Z0 -> 0 | Zpos p -> int_of_pos p | Zneg p -> - (int_of_pos p)
let rec nat_of_int n = if n <= 0 then O else S (nat_of_int (n - 1))
let rec int_of_nat = function O -> 0 | S n -> 1 + int_of_nat n

(* arbitrary-size decimal <-> Z using the extracted arithmetic *)
let z_ten = z_of_int 10
let z_of_string s =
  let neg, s = if Str_.length s > 0 && s.[0] = '-' then true, Str_.sub s 1 (Str_.length s - 1) else false, s in
  let z = ref Z0 in
  Str_.iter (fun c -> z := BinInt.Z.add (BinInt.Z.mul !z z_ten) (z_of_int (Char.code c - 48))) s;
  if neg then BinInt.Z.opp !z else !z
let string_of_z z =
  if z = Z0 then "0" else begin
    let neg, z = (match z with Zneg p -> true, Zpos p | _ -> false, z) in
    let b = Buffer.create 24 in
    let z = ref z in
    while !z <> Z0 do
      let (q, r) = BinInt.Z.div_eucl !z z_ten in
      Buffer.add_char b (Char.chr (48 + int_of_z r)); z := q
    done;
    let s = Buffer.contents b in
    let n = Str_.length s in
    let r = Str_.init n (fun i -> s.[n - 1 - i]) in
    if neg then "-" ^ r else r
  end
let n_of_string s = BinInt.Z.to_N (z_of_string s)
let string_of_n n = string_of_z (BinInt.Z.of_N n)

(* hex <-> list of N (bytes or runes < 256) *)
let hexval c = match c with
  | '0'..'9' -> Char.code c - 48 | 'a'..'f' -> Char.code c - 87 | 'A'..'F' -> Char.code c - 55
  | _ -> failwith "hex"
let bytes_of_hex s =
  if s = "-" then [] else
  let n = Str_.length s / 2 in
  L.init n (fun i -> n_of_int (hexval s.[2*i] * 16 + hexval s.[2*i+1]))
let hex_of_bytes l =
  if l = [] then "-" else
  Str_.concat "" (L.map (fun b -> Printf.sprintf "%02x" (int_of_n b)) l)
(* runes: comma separated decimal code points, "-" = empty *)
let runes_of_tok s =
  if s = "-" then [] else L.map (fun x -> n_of_int (int_of_string x)) (Str_.split_on_char ',' s)
let tok_of_runes l =
  if l = [] then "-" else Str_.concat "," (L.map (fun r -> string_of_int (int_of_n r)) l)

let split_ws s = L.filter (fun x -> x <> "") (Str_.split_on_char ' ' s)


(* command registry: each cmd_*.ml registers its handlers at module initialisation *)
let registry : (string, string list -> string) Hashtbl.t = Hashtbl.create 64
let register name f = Hashtbl.replace registry name f
