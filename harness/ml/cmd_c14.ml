open BinNums
open Datatypes
open Drv
(* ---- C14: the EnumType API on its own: Enum.Set_ / Enum.SetNext folded over a list of calls.
   A call that returns Err leaves the state as it was (Model/Enum.v: "Set: Err leaves e unchanged")
   and the fold goes on, as a Go caller that ignores the error would. ---- *)
let hex_name l = if l = [] then "-" else hex_of_bytes l
let zcmp a b = match BinInt.Z.compare a b with Eq -> 0 | Lt -> -1 | Gt -> 1

(* the EnumType seen through every read accessor (same line as enumViews in harness/go/c14.go):
   NameMap, ValueMap, Names() with Value/IsDefined, Values() (the values of ToInt, sorted) with Name *)
let views (e : Enum.coq_EnumType) =
  (* Go sorts the names as strings = bytewise; compare the byte lists as int lists *)
  let key n = L.map int_of_n n in
  let ti = L.sort (fun (a, _) (b, _) -> compare (key a) (key b)) e.Enum.coq_ToInt in
  let ts = L.sort (fun (a, _) (b, _) -> zcmp a b) e.Enum.coq_ToString in
  let j x = if x = [] then "-" else Str_.concat "," x in
  let value_of n = match Enum.lookup_s n e.Enum.coq_ToInt with Some v -> (string_of_z v, "t") | None -> ("0", "f") in
  let name_of v = match Enum.lookup_z v e.Enum.coq_ToString with Some n -> hex_name n | None -> "-" in
  let vals = L.sort zcmp (L.map snd e.Enum.coq_ToInt) in
  "toint=" ^ j (L.map (fun (n, v) -> hex_name n ^ ":" ^ string_of_z v) ti)
  ^ " tostring=" ^ j (L.map (fun (v, n) -> string_of_z v ^ ":" ^ hex_name n) ts)
  ^ " names=" ^ j (L.map (fun (n, _) -> let (v, d) = value_of n in hex_name n ^ ":" ^ v ^ ":" ^ d) ti)
  ^ " values=" ^ j (L.map (fun v -> string_of_z v ^ ":" ^ name_of v) vals)

(* enummod: the member loop of Type.resolve; substatements other than value/position (status, description,
   reference, if-feature) play no part in the assignment, and what a caller does to the containers it was
   handed does not reach the type *)
let parse_members mems =
  L.map (fun m -> match Str_.split_on_char ':' m with
      | [n; v; _pre; _post] -> (L.init (Str_.length n) (fun i -> n_of_int (Char.code n.[i])),
                                (if v = "~" then None else Some (bytes_of_hex v)))
      | _ -> failwith "member") (Str_.split_on_char ',' mems)

let do_enummod toks =
  match toks with
  | [bits; mems] ->
    (match Enum.run_members (bits = "1") (parse_members mems) with
     | Outcome.Ok (e, errs) -> if errs <> [] then "err" else "ok " ^ views e
     | Outcome.Err -> "err" | Outcome.Panic -> "panic" | Outcome.Unmodelled -> "unmodelled")
  | _ -> "bad-case"

(* Enum.Set_ / Enum.SetNext folded over the calls; None when a call is outside the model *)
let apply_ops e0 ops =
  let ops = if ops = "-" then [] else Str_.split_on_char ',' ops in
  let unmodelled = ref false in
  let step (e, verdicts) op =
    match Str_.split_on_char ':' op with
    | ["md"] | ["mo"] | ["ma"] | ["vd"] | ["vo"] | ["va"] | ["ln"] | ["lv"] ->
      (* NameMap / ValueMap / Names / Values hand out copies: editing them changes nothing *)
      (e, 'r' :: verdicts)
    | parts ->
      let r = match parts with
        | ["n"; n] -> Enum.coq_SetNext e (bytes_of_hex n)
        | ["s"; n; v] -> Enum.coq_Set_ e (bytes_of_hex n) (z_of_string v)
        | _ -> failwith "op" in
      (match r with
       | Outcome.Ok e' -> (e', 'o' :: verdicts)
       | Outcome.Err -> (e, 'e' :: verdicts)
       | Outcome.Panic -> (e, 'P' :: verdicts)
       | Outcome.Unmodelled -> unmodelled := true; (e, 'U' :: verdicts)) in
  let (e, verdicts) = L.fold_left step (e0, []) ops in
  if !unmodelled then None else begin
    let vs = Str_.concat "" (L.rev_map (Str_.make 1) verdicts) in
    Some ("ops=" ^ (if vs = "" then "-" else vs) ^ " " ^ views e)
  end

let do_enumapi toks =
  match toks with
  | bits :: rest ->
    let ops = match rest with [] -> "-" | [s] -> s | _ -> failwith "ops" in
    let e0 = if bits = "1" then Enum.coq_NewBitfield else Enum.coq_NewEnumType in
    (match apply_ops e0 ops with Some s -> s | None -> "unmodelled")
  | _ -> "bad-case"

(* enumext: the type a leaf has after Type.resolve (in place, through a typedef or a chain of typedefs: the same
   EnumType in every case) extended through the API: the calls continue from the state the member loop left *)
let do_enumext toks =
  match toks with
  | [bits; _form; _leaf; mems; ops] ->
    (match Enum.run_members (bits = "1") (parse_members mems) with
     | Outcome.Ok (e, errs) ->
       if errs <> [] then "err" else (match apply_ops e ops with Some s -> "ok " ^ s | None -> "unmodelled")
     | Outcome.Err -> "err" | Outcome.Panic -> "panic" | Outcome.Unmodelled -> "unmodelled")
  | _ -> "bad-case"

(* enumproc: every Process / GetModule on the same Modules reports the errors of the member list again, and a type
   that restricts a typedef (own enum/bit list) gets its table from the listed members as a direct type does *)
let do_enumproc toks =
  match toks with
  | [bits; _form; steps; mems] ->
    (match Enum.run_members (bits = "1") (parse_members mems) with
     | Outcome.Ok (e, errs) ->
       let n = Str_.length steps in
       if errs <> [] then "steps=" ^ Str_.make n 'e' ^ " err" else "steps=" ^ Str_.make n 'o' ^ " " ^ views e
     | Outcome.Err -> "err" | Outcome.Panic -> "panic" | Outcome.Unmodelled -> "unmodelled")
  | _ -> "bad-case"

(* enumunion: the tables of the union's member types in order; a member type equal to an earlier one (same
   name->value and value->name maps) is listed once, as the union resolution of goyang does *)
let do_enumunion toks =
  let rec go acc = function
    | [] -> `Tables (L.rev acc)
    | m :: rest ->
      (match Enum.run_members false (parse_members m) with
       | Outcome.Ok (e, []) -> go (e :: acc) rest
       | Outcome.Ok _ | Outcome.Err -> (match go acc rest with `Unmodelled -> `Unmodelled | _ -> `Err)
       | Outcome.Panic -> `Panic
       | Outcome.Unmodelled -> `Unmodelled) in
  match go [] toks with
  | `Unmodelled -> "unmodelled"
  | `Panic -> "panic"
  | `Err -> "err"
  | `Tables es ->
    let key (e : Enum.coq_EnumType) =
      (L.sort compare (L.map (fun (n, v) -> (L.map int_of_n n, string_of_z v)) e.Enum.coq_ToInt),
       L.sort compare (L.map (fun (v, n) -> (string_of_z v, L.map int_of_n n)) e.Enum.coq_ToString)) in
    let rec dedup seen = function
      | [] -> []
      | e :: r -> if L.mem (key e) seen then dedup seen r else e :: dedup (key e :: seen) r in
    "ok " ^ Str_.concat " | " (L.map views (dedup [] es))

(* enumdev: deviate replace { type ... } gives the leaf the replacement's table; the replaced type is resolved too *)
let do_enumdev toks =
  match toks with
  | [bits; _form; old_; new_] ->
    let run m = Enum.run_members (bits = "1") (parse_members m) in
    (match run old_, run new_ with
     | Outcome.Ok (_, []), Outcome.Ok (e, []) -> "ok " ^ views e
     | Outcome.Unmodelled, _ | _, Outcome.Unmodelled -> "unmodelled"
     | Outcome.Panic, _ | _, Outcome.Panic -> "panic"
     | _ -> "err")
  | _ -> "bad-case"

(* enumset: several enumeration / bits types in one Modules set (same module, another module, in place, under a
   typedef, in a grouping): the table of each type is the member loop run on ITS OWN member list - a function of that list
   alone (Enum.run_members takes nothing else), whatever other types the set contains and in whatever order they are
   resolved; every Process / GetModule reports an error iff some list has one.  Names are hex: arbitrary byte strings *)
let parse_hex_members mems =
  L.map (fun m -> match Str_.split_on_char ':' m with
      | [n; v] -> (bytes_of_hex n, (if v = "~" then None else Some (bytes_of_hex v)))
      | _ -> failwith "member") (Str_.split_on_char ',' mems)

let do_enumset toks =
  match toks with
  | steps :: types ->
    let n = Str_.length steps in
    let rec go acc err = function
      | [] -> if err then `Err else `Tables (L.rev acc)
      | ty :: rest ->
        if Str_.length ty < 4 || ty.[2] <> ';' then failwith "type" else
        (match Enum.run_members (ty.[0] = 'b') (parse_hex_members (Str_.sub ty 3 (Str_.length ty - 3))) with
         | Outcome.Ok (e, []) -> go (e :: acc) err rest
         | Outcome.Ok _ | Outcome.Err -> go acc true rest
         | Outcome.Panic -> `Panic
         | Outcome.Unmodelled -> `Unmodelled) in
    (match go [] false types with
     | `Unmodelled -> "unmodelled"
     | `Panic -> "panic"
     | `Err -> "steps=" ^ Str_.make n 'e' ^ " err"
     | `Tables es -> "steps=" ^ Str_.make n 'o' ^ " " ^ Str_.concat " | " (L.map views es))
  | _ -> "bad-case"

let () = register "enumset" do_enumset; register "enumunion" do_enumunion; register "enumdev" do_enumdev; register "enumproc" do_enumproc; register "enumapi" do_enumapi; register "enummod" do_enummod; register "enumext" do_enumext
