open BinNums
open Datatypes
open Drv
(* ---- C14: the EnumType API on its own: Enum.Set_ / Enum.SetNext folded over a list of calls.
   A call that returns Err leaves the state as it was (Model/Enum.v: "Set: Err leaves e unchanged")
   and the fold goes on, as a Go caller that ignores the error would. ---- *)
let hex_name l = if l = [] then "-" else hex_of_bytes l
let zcmp a b = match BinInt.Z.compare a b with Eq -> 0 | Lt -> -1 | Gt -> 1

let do_enumapi toks =
  match toks with
  | bits :: rest ->
    let ops = match rest with [] | ["-"] -> [] | [s] -> Str_.split_on_char ',' s | _ -> failwith "ops" in
    let e0 = if bits = "1" then Enum.coq_NewBitfield else Enum.coq_NewEnumType in
    let unmodelled = ref false in
    let step (e, verdicts) op =
      let r = match Str_.split_on_char ':' op with
        | ["n"; n] -> Enum.coq_SetNext e (bytes_of_hex n)
        | ["s"; n; v] -> Enum.coq_Set_ e (bytes_of_hex n) (z_of_string v)
        | _ -> failwith "op" in
      match r with
      | Outcome.Ok e' -> (e', 'o' :: verdicts)
      | Outcome.Err -> (e, 'e' :: verdicts)
      | Outcome.Panic -> (e, 'P' :: verdicts)
      | Outcome.Unmodelled -> unmodelled := true; (e, 'U' :: verdicts) in
    let (e, verdicts) = L.fold_left step (e0, []) ops in
    if !unmodelled then "unmodelled" else begin
      let vs = Str_.concat "" (L.rev_map (Str_.make 1) verdicts) in
      (* Go sorts the names as strings = bytewise; compare the byte lists as int lists *)
      let key n = L.map int_of_n n in
      let ti = L.sort (fun (a, _) (b, _) -> compare (key a) (key b)) e.Enum.coq_ToInt in
      let ts = L.sort (fun (a, _) (b, _) -> zcmp a b) e.Enum.coq_ToString in
      let j x = if x = [] then "-" else Str_.concat "," x in
      "ops=" ^ (if vs = "" then "-" else vs)
      ^ " toint=" ^ j (L.map (fun (n, v) -> hex_name n ^ ":" ^ string_of_z v) ti)
      ^ " tostring=" ^ j (L.map (fun (v, n) -> string_of_z v ^ ":" ^ hex_name n) ts)
    end
  | _ -> "bad-case"

let () = register "enumapi" do_enumapi
