(* C02: the text printer of coq/Model/Printer.v.  printparse <hex text>: read the text with the reference reader
   (C02.spec_parse); if it accepts with forest f, print  printed <hex of print_forest f>  -- after re-reading the
   printed text with the reference reader, which must give f again (theorem C02_print_spec; a failure here is a
   fault of extraction or driver, reported as model-roundtrip-failed) -- else  reject / ambiguous *)
open Drv
open Cmd_parse

let do_printparse toks =
  match toks with
  | [h] ->
    (match C02.spec_parse (runes_of_hex h) with
     | C02.Reject -> "reject"
     | C02.Ambiguous -> "ambiguous"
     | C02.Accept f ->
       if not (Printer.forest_ok f) then "not-printable"
       else begin
         let t = Printer.print_forest f in
         match C02.spec_parse t with
         | C02.Accept g when g = f -> "printed " ^ hex_of_runes t
         | _ -> "model-roundtrip-failed"
       end)
  | _ -> "bad-case"

let () = register "printparse" do_printparse
