(* C06 pointer level: the heap model of dup / add / merge (coq/Model/Heap.v) on the case format of harness/go/heap.go:
     heap <N> <cell>{N} <nops> <op>* <nroots> <ref>*      (see heap.go for the grammar and the dump format)
   The dump numbers cells by first visit exactly as heap.go numbers *Entry pointers. *)
open Drv
open Heap

exception Bad of string

let do_heap ts =
  let toks = ref ts in
  let next () = match !toks with [] -> raise (Bad "eof") | t :: r -> toks := r; t in
  let int_tok () = int_of_string (next ()) in
  let opt f t = if t = "~" then None else Some (f t) in
  let n = int_tok () in
  let cells = L.init n (fun _ ->
    let p = opt (fun s -> nat_of_int (int_of_string s)) (next ()) in
    let nm = bytes_of_hex (next ()) in
    let kind = n_of_int (int_tok ()) in
    let la = opt (fun s -> match Str_.split_on_char ':' s with
                           | [a; b] -> (n_of_string a, n_of_string b) | _ -> raise (Bad "la")) (next ()) in
    let ty = opt (fun s -> n_of_int (int_of_string s)) (next ()) in
    let ns = opt (fun s -> n_of_int (int_of_string s)) (next ()) in
    let nk = int_tok () in
    let kids = L.init nk (fun _ -> let k = bytes_of_hex (next ()) in let v = nat_of_int (int_tok ()) in (k, v)) in
    let i = opt (fun s -> nat_of_int (int_of_string s)) (next ()) in
    let o = opt (fun s -> nat_of_int (int_of_string s)) (next ()) in
    { c_parent = p; c_name = nm; c_kind = kind; c_children = kids; c_input = i; c_output = o;
      c_la = la; c_ty = ty; c_ns = ns; c_errs = O }) in
  let h = ref cells in
  let results = ref [] in
  let rf t = if Str_.length t > 0 && t.[0] = 'r'
    then L.nth (L.rev !results) (int_of_string (Str_.sub t 1 (Str_.length t - 1)))
    else nat_of_int (int_of_string t) in
  let nops = int_tok () in
  let fail = ref None in
  for _ = 1 to nops do
    match next () with
    | "D" -> let e = rf (next ()) in
      (match dup_top !h e with
       | None -> fail := Some "fuel-or-nil"
       | Some (h', r) -> h := h'; results := r :: !results)
    | "M" -> let e = rf (next ()) in
      let ns = opt (fun s -> n_of_int (int_of_string s)) (next ()) in
      let oe = rf (next ()) in
      (match merge_top !h e ns oe with None -> fail := Some "fuel-or-nil" | Some h' -> h := h')
    | "A" -> let e = rf (next ()) in let k = bytes_of_hex (next ()) in let v = rf (next ()) in
      h := add !h e k v
    | "F" -> let e = rf (next ()) in
      (match fix_top !h e with None -> fail := Some "fuel-or-nil" | Some h' -> h := h')
    | op -> raise (Bad ("op " ^ op))
  done;
  let nroots = int_tok () in
  let roots = L.init nroots (fun _ -> rf (next ())) in
  let roots = roots @ L.rev !results in
  match !fail with Some m -> "model:" ^ m | None ->
  let num : (int, int) Hashtbl.t = Hashtbl.create 64 in
  let order = ref [] in
  let cnt = ref 0 in
  let sorted c = L.sort (fun (a, _) (b, _) -> compare (hex_of_bytes a) (hex_of_bytes b)) c.c_children in
  let rec walk (i : Datatypes.nat) =
    let ii = int_of_nat i in
    if not (Hashtbl.mem num ii) then
      match get !h i with
      | None -> raise (Bad "dangling")
      | Some c ->
        Hashtbl.add num ii !cnt; incr cnt; order := (i, c) :: !order;
        L.iter (fun (_, v) -> walk v) (sorted c);
        (match c.c_input with Some v -> walk v | None -> ());
        (match c.c_output with Some v -> walk v | None -> ()) in
  L.iter walk roots;
  let nref = function
    | None -> "~"
    | Some i -> (match Hashtbl.find_opt num (int_of_nat i) with Some k -> string_of_int k | None -> "x") in
  let on = function None -> "~" | Some x -> string_of_n x in
  let line k (_, c) =
    Printf.sprintf "%d p=%s %s k%s la=%s ty=%s ns=%s e=%d d=[%s] i=%s o=%s s="
      k (nref c.c_parent) (hex_of_bytes c.c_name) (string_of_n c.c_kind)
      (match c.c_la with None -> "~" | Some (a, b) -> string_of_n a ^ ":" ^ string_of_n b)
      (on c.c_ty) (on c.c_ns) (int_of_nat c.c_errs)
      (Str_.concat "," (L.map (fun (k, v) -> hex_of_bytes k ^ ">" ^ nref (Some v)) (sorted c)))
      (nref c.c_input) (nref c.c_output) in
  Str_.concat " | " (L.mapi line (L.rev !order))

let () = register "heap" (fun ts -> try do_heap ts with Bad m -> "bad-case:" ^ m)
