(* Reader (coq/Model/Reader.v): the step text -> abstract schema inside the model.
   read_text <texthex>                              -> the abstract module in the token encoding of schema_gen.enc_module
                                                       (what cmd_schema.ml's p_module decodes), or "none"
   resolve_text <opts> <n_order> name* <n> texthex*  -> "none" | what `resolve` prints: "err" | "ok <forest>"
                                                       (opts containing e: "<n> <module>* ;; " is printed before it) *)
open BinNums
open Datatypes
open Drv
open Schema

let hx (s : str) = hex_of_bytes s
let e_tri = function TSUnset -> "u" | TSTrue -> "t" | TSFalse -> "f"
let e_os = function None -> "~" | Some s -> "s" ^ (if s = [] then "" else hex_of_bytes s)
let e_on = function None -> "~" | Some n -> string_of_n n
let e_list f l = string_of_int (L.length l) :: L.concat (L.map f l)
let rec e_node (d : dnode) : string list =
  match d with
  | DLeaf (n, ty, c, m, d, u) -> ["L"; hx n; hx ty; e_tri c; e_tri m; e_os d; e_os u]
  | DLeafList (n, ty, c, ds, mn, mx) -> ["LL"; hx n; hx ty; e_tri c] @ e_list (fun d -> [hx d]) ds @ [e_on mn; e_on mx]
  | DContainer (n, c, b) -> ["C"; hx n; e_tri c] @ e_list e_node b
  | DList (n, k, c, mn, mx, b) -> ["LI"; hx n; e_os k; e_tri c; e_on mn; e_on mx] @ e_list e_node b
  | DChoice (n, c, m, d, b) -> ["CH"; hx n; e_tri c; e_tri m; e_os d] @ e_list e_node b
  | DCase (n, b) -> ["CA"; hx n] @ e_list e_node b
  | DAny (x, n, c, m) -> ["A"; (if x then "1" else "0"); hx n; e_tri c; e_tri m]
  | DUses g -> ["U"; hx g]
  | DGrouping (gid, n, b) -> ["G"; string_of_int (int_of_nat gid); hx n] @ e_list e_node b
  | DRpc (a, n, i, o) ->
    let ob = function None -> ["~"] | Some b -> "+" :: e_list e_node b in
    ["R"; (if a then "1" else "0"); hx n] @ ob i @ ob o
  | DNotification (n, b) -> ["N"; hx n] @ e_list e_node b
let e_deviate (d : deviate) =
  [hx d.dv_kind; e_tri d.dv_cfg; e_tri d.dv_mand; e_os d.dv_default; e_on d.dv_min; e_on d.dv_max; e_os d.dv_units;
   e_os d.dv_type]
let e_module (m : coq_module) =
  ["M"; hx m.m_name; hx m.m_prefix; hx m.m_ns; e_os m.m_belongs]
  @ e_list (fun (p, mn) -> [hx p; hx mn]) m.m_imports
  @ e_list (fun s -> [hx s]) m.m_includes
  @ e_list e_node m.m_body
  @ e_list (fun (p, b) -> hx p :: e_list e_node b) m.m_augments
  @ e_list (fun (p, ds) -> hx p :: e_list e_deviate ds) m.m_deviations

let do_read_text toks =
  match toks with
  | [h] ->
    (match Reader.read_text (Cmd_parse.runes_of_hex h) with
     | None -> "none"
     | Some m -> Str_.concat " " (e_module m))
  | _ -> "bad-case"

let do_resolve_text ts =
  Cmd_schema.toks := ts;
  try
    let opts = Cmd_schema.next () in
    let order = Cmd_schema.p_list Cmd_schema.p_str in
    let texts = Cmd_schema.p_list (fun () -> Cmd_parse.runes_of_hex (Cmd_schema.next ())) in
    let has c = Str_.contains opts c in
    (* option letter e: the encoding of the modules read (ghost ids numbered through the set) is printed first *)
    (match Reader.process_text texts (has 'c') (has 'n') order with
     | None -> "none"
     | Some (sc, r) ->
       let b = Buffer.create 1024 in
       if has 'e' then begin
         Buffer.add_string b (Str_.concat " " (e_list e_module sc));
         Buffer.add_string b " ;; "
       end;
       (match r with
        | RErr -> Buffer.add_string b "err"
        | ROk f ->
          let f = L.sort (fun (a, _) (c, _) -> compare (Cmd_schema.s_of a) (Cmd_schema.s_of c)) f in
          Buffer.add_string b "ok";
          L.iter (fun (mn, root) -> Buffer.add_string b " "; Cmd_schema.dump sc f mn [] b root) f);
       Buffer.contents b)
  with Cmd_schema.Bad m -> "bad-case:" ^ m

let () = register "read_text" do_read_text
let () = register "resolve_text" do_resolve_text
