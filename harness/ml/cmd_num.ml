open BinNums
open Datatypes
open Drv
(* ---- numbers (C15), ranges (C10), enums (C14) ---- *)
let mk_number v fd neg =
  { Number.coq_Value = z_of_string v; Number.coq_FractionDigits = z_of_string fd; Number.coq_Negative = (neg = "1") }
let show_number (n : Number.coq_Number) =
  Printf.sprintf "%s:%s:%s" (string_of_z n.Number.coq_Value) (string_of_z n.Number.coq_FractionDigits)
    (if n.Number.coq_Negative then "1" else "0")
let b2s b = if b then "t" else "f"
let show_outcome f = function
  | Outcome.Ok a -> "ok " ^ f a
  | Outcome.Err -> "err"
  | Outcome.Panic -> "panic"
  | Outcome.Unmodelled -> "unmodelled"
let parse_range_tok s =
  if s = "-" then [] else
  L.map (fun part ->
    match Str_.split_on_char '~' part with
    | [a; b] ->
      (match Str_.split_on_char ':' a, Str_.split_on_char ':' b with
       | [v1; f1; n1], [v2; f2; n2] -> (mk_number v1 f1 n1, mk_number v2 f2 n2)
       | _ -> failwith "range tok")
    | _ -> failwith "range tok") (Str_.split_on_char ',' s)
let show_range r =
  if r = [] then "-" else Str_.concat "," (L.map (fun (a, b) -> show_number a ^ "~" ^ show_number b) r)
let string_of_bytes l = Str_.concat "" (L.map (fun b -> Str_.make 1 (Char.chr (int_of_n b))) l)
let bytes_of_string s = L.init (Str_.length s) (fun i -> n_of_int (Char.code s.[i]))

let do_enum toks =
  match toks with
  | [bits; mems] ->
    let ms = if mems = "-" then [] else
      L.map (fun m -> match Str_.split_on_char ':' m with
        | [n; v] -> (bytes_of_string n, (if v = "~" then None else Some (bytes_of_hex v)))
        | _ -> failwith "member") (Str_.split_on_char ',' mems) in
    (match Enum.run_members (bits = "1") ms with
     | Outcome.Ok (e, errs) ->
       if errs <> [] then "err" else begin
         let ti = L.sort compare (L.map (fun (n, v) -> (string_of_bytes n, v)) e.Enum.coq_ToInt) in
         let ts = L.sort (fun (a, _) (b, _) -> match BinInt.Z.compare a b with Eq -> 0 | Lt -> -1 | Gt -> 1) e.Enum.coq_ToString in
         let j x = if x = [] then "-" else Str_.concat "," x in
         "ok toint=" ^ j (L.map (fun (n, v) -> n ^ ":" ^ string_of_z v) ti)
         ^ " tostring=" ^ j (L.map (fun (v, n) -> string_of_z v ^ ":" ^ string_of_bytes n) ts)
       end
     | Outcome.Err -> "err" | Outcome.Panic -> "panic" | Outcome.Unmodelled -> "unmodelled")
  | _ -> "bad-case"

let do_num cmd toks =
  match cmd, toks with
  | "less", [v1; f1; n1; v2; f2; n2] ->
    let n = mk_number v1 f1 n1 and m = mk_number v2 f2 n2 in
    b2s (Number.coq_Less n m) ^ " " ^ b2s (Number.coq_Equal n m)
  | "int", [v; f; n] -> show_outcome string_of_z (Number.coq_Int (mk_number v f n))
  | "string", [v; f; n] -> show_outcome hex_of_bytes (Number.coq_String_ (mk_number v f n))
  | "roundtrip", [v; f; ng] ->
    let n = mk_number v f ng in
    (match Number.coq_String_ n with
     | Outcome.Ok str ->
       let r = if n.Number.coq_FractionDigits = Z0 then Number.coq_ParseInt str
               else Number.coq_ParseDecimal str n.Number.coq_FractionDigits in
       (match r with
        | Outcome.Ok m -> "ok " ^ show_number m ^ " " ^ b2s (Number.coq_Equal m n)
        | Outcome.Err -> "err" | Outcome.Panic -> "panic" | Outcome.Unmodelled -> "unmodelled")
     | _ -> "panic")
  | "parseint", [h] -> show_outcome show_number (Number.coq_ParseInt (bytes_of_hex h))
  | "parsedec", [h; fd] -> show_outcome show_number (Number.coq_ParseDecimal (bytes_of_hex h) (z_of_string fd))
  | "asrangeint", [h; lo; hi] -> show_outcome string_of_z (Number.asRangeInt (bytes_of_hex h) (z_of_string lo) (z_of_string hi))
  | "ranges", [y; h; dec; fd] ->
    show_outcome show_range (Range.parseChildRanges (parse_range_tok y) (bytes_of_hex h) (dec = "1") (z_of_string fd))
  | _ -> "bad-case"


let () =
  L.iter (fun c -> register c (do_num c))
    ["less"; "int"; "string"; "roundtrip"; "parseint"; "parsedec"; "asrangeint"; "ranges"];
  register "enum" do_enum
