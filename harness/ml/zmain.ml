(* main loop: stdin one case per line "<cmd> <tok> ...", stdout one observation per line *)
let () =
  try
    while true do
      let line = input_line stdin in
      match Drv.split_ws line with
      | [] -> print_endline ""
      | cmd :: toks ->
        let out =
          match Hashtbl.find_opt Drv.registry cmd with
          | None -> "unknown-cmd"
          | Some f -> (try f toks with e -> "model-exn:" ^ Printexc.to_string e) in
        print_endline out
    done
  with End_of_file -> ()
