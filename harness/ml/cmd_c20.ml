open BinNums
open Datatypes
open Drv
(* a chunk token may carry a mode letter (S = io.WriteString, R = io.Copy): the same operation for the model *)
(* "ok" | <n> | s<n> (a short write reported as io.ErrShortWrite: the same thing for the model) *)
let acc_of_tok a =
  if a = "ok" then None
  else if String.length a > 0 && a.[0] = 's' then Some (z_of_string (String.sub a 1 (String.length a - 1)))
  else Some (z_of_string a)
let chunk_of_tok c =
  if String.length c > 0 && (c.[0] = 'S' || c.[0] = 'R') then bytes_of_hex (String.sub c 1 (String.length c - 1))
  else bytes_of_hex c
(* ---- C20 ---- indent <prefix> (<chunk> <acc>)*   acc = ok | integer *)
let do_indent toks =
  match toks with
  | p :: rest ->
    let prefix = bytes_of_hex p in
    let rec calls = function
      | c :: a :: r -> (chunk_of_tok c, (acc_of_tok a)) :: calls r
      | _ -> [] in
    let (rs, out) = Indent.run prefix (Indent.coq_NewWriter prefix) (calls rest) in
    let rs = Str_.concat "," (L.map (fun (n, e) -> string_of_z n ^ ":" ^ (if e then "E" else "ok")) rs) in
    Printf.sprintf "%s %s" (hex_of_bytes out) (if rs = "" then "-" else rs)
  | _ -> "bad-case"

let do_bytes toks =
  match toks with
  | [p; b] -> hex_of_bytes (Indent.coq_Bytes (bytes_of_hex p) (bytes_of_hex b))
  | _ -> "bad-case"


(* indent2 <p1> <p2> (L <chunk> <acc> | U <chunk> <acc> | N)* *)
let do_indent2 toks =
  match toks with
  | p1 :: p2 :: rest ->
    let p1 = bytes_of_hex p1 and p2 = bytes_of_hex p2 in
    let acc a = acc_of_tok a in
    let rec ops = function
      | "L" :: c :: a :: r -> Indent.OLower (chunk_of_tok c, acc a) :: ops r
      | "U" :: c :: a :: r -> Indent.OUpper (chunk_of_tok c, acc a) :: ops r
      | "N" :: r -> Indent.ONew :: ops r
      | _ -> [] in
    let (rs, out) = Indent.run2 p1 p2 (Indent.coq_NewWriter p1) (Indent.coq_NewWriter p2) (ops rest) in
    let rs = Str_.concat "," (L.map (fun (n, e) -> string_of_z n ^ ":" ^ (if e then "E" else "ok")) rs) in
    Printf.sprintf "%s %s" (hex_of_bytes out) (if rs = "" then "-" else rs)
  | _ -> "bad-case"

let () = register "indent" do_indent; register "bytes" do_bytes; register "indent2" do_indent2
