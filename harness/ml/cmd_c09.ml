open Datatypes
open Drv
(* ---- C09 ---- c09 <nmods> module*
     module  := <name> <sub 0|1> <revision> <prefix> <belongs> <nimports> (<prefix> <module> <revision-date|N>)*
                <nincludes> (<name> <revision-date|N>)* scope
     scope   := <ntypedefs> typedef* <nkids> scope* <nleaves> leaf*
     typedef := <name> <units|N> <default|N> tref
     leaf    := <name> tref
     tref    := <name> <fd int|N> <range|N> <length|N> <npat> <pat>* <nenum> <name>* <nbit> <name>*
                <path|N> <idbase|N> <nmembers> tref*
   strings are hex ("-" = empty, "N" = absent).
   output: one JSON object {"tderr":bool,"rngerr":bool,"leaves":[{"leaf":hex,"type":T|null}...],
                            "ranges":[{"leaf":hex,"rng":text|null|"ERR"}...]}  (rng: resolved range of integer types),
     T = {"name","kind","units","default","hasdef","fd","range","length","pattern","enum","bit","path","idbase","union"}
   (strings hex, absent = null). *)

exception Bad_case

let raw_of_hex h =
  if h = "-" then "" else
  Str_.init (Str_.length h / 2) (fun i -> Char.chr (hexval h.[2*i] * 16 + hexval h.[2*i+1]))
let hex_of_raw s =
  if s = "" then "-" else
  Str_.concat "" (L.init (Str_.length s) (fun i -> Printf.sprintf "%02x" (Char.code s.[i])))

let cs_of_raw s = Types.str_of_codes (L.init (Str_.length s) (fun i -> n_of_int (Char.code s.[i])))
let raw_of_cs s =
  let l = Types.codes_of_str s in
  let b = Buffer.create 16 in
  L.iter (fun c -> Buffer.add_char b (Char.chr (int_of_n c))) l;
  Buffer.contents b
let cs_of_hex h = cs_of_raw (raw_of_hex h)
let hex_of_cs s = hex_of_raw (raw_of_cs s)

let toks = ref []
let next () = match !toks with [] -> raise Bad_case | x :: r -> toks := r; x
let next_int () = try int_of_string (next ()) with Failure _ -> raise Bad_case
let next_str () = cs_of_hex (next ())
let next_ostr () = let t = next () in if t = "N" then None else Some (cs_of_hex t)
let rec times n f = if n <= 0 then [] else let x = f () in x :: times (n - 1) f
let next_strs () = let n = next_int () in times n next_str

let rec read_tref () =
  let name = next_str () in
  let fd = (let t = next () in if t = "N" then None else Some (n_of_string t)) in
  let range = next_ostr () in
  let length = next_ostr () in
  let pats = next_strs () in
  let enums = next_strs () in
  let bits = next_strs () in
  let path = next_ostr () in
  let idbase = next_ostr () in
  let n = next_int () in
  let members = times n read_tref in
  { Types.t_name = name; t_fd = fd; t_range = range; t_length = length; t_patterns = pats; t_enums = enums;
    t_bits = bits; t_path = path; t_idbase = idbase; t_members = members }

let read_typedef () =
  let name = next_str () in
  let units = next_ostr () in
  let def = next_ostr () in
  let t = read_tref () in
  { Types.td_name = name; td_type = t; td_units = units; td_default = def }

let read_leaf () =
  let name = next_str () in
  let t = read_tref () in
  { Types.lf_name = name; lf_type = t }

let rec read_scope () =
  let n = next_int () in
  let tds = times n read_typedef in
  let n = next_int () in
  let kids = times n read_scope in
  let n = next_int () in
  let leaves = times n read_leaf in
  { Types.sc_typedefs = tds; sc_kids = kids; sc_leaves = leaves }

let read_module () =
  let name = next_str () in
  let sub = (next () = "1") in
  let rev = next_str () in
  let prefix = next_str () in
  let belongs = next_str () in
  let n = next_int () in
  let imports = times n (fun () -> let p = next_str () in let m = next_str () in let r = next_ostr () in (p, (m, r))) in
  let n = next_int () in
  let includes = times n (fun () -> let m = next_str () in let r = next_ostr () in (m, r)) in
  let top = read_scope () in
  { Types.m_name = name; m_sub = sub; m_rev = rev; m_prefix = prefix; m_belongs = belongs; m_imports = imports;
    m_includes = includes; m_top = top }

let q s = "\"" ^ s ^ "\""
let jstr s = q (hex_of_cs s)
let jostr = function None -> "null" | Some s -> jstr s
let jlist f l = "[" ^ Str_.concat "," (L.map f l) ^ "]"
let jolist = function None -> "null" | Some l -> jlist jstr l

let rec jtype (y : Types.yangtype) =
  Printf.sprintf
    "{\"name\":%s,\"kind\":%s,\"units\":%s,\"default\":%s,\"hasdef\":%s,\"fd\":%s,\"range\":%s,\"length\":%s,\"pattern\":%s,\"enum\":%s,\"bit\":%s,\"path\":%s,\"idbase\":%s,\"union\":%s}"
    (jstr y.Types.y_name) (q (raw_of_cs (Types.kind_name y.Types.y_kind))) (jstr y.Types.y_units)
    (jstr y.Types.y_default) (if y.Types.y_hasdef then "true" else "false") (string_of_n y.Types.y_fd)
    (jostr y.Types.y_range) (jostr y.Types.y_length) (jlist jstr y.Types.y_patterns) (jolist y.Types.y_enum)
    (jolist y.Types.y_bit) (jstr y.Types.y_path) (jostr y.Types.y_idbase) (jlist jtype y.Types.y_union)

let joutcome = function
  | Outcome.Ok y -> jtype y
  | Outcome.Err -> "null"
  | Outcome.Panic -> "\"PANIC\""
  | Outcome.Unmodelled -> "\"FUEL\""

(* showRangeText of the Go harness: Min.String()..Max.String() joined by "|" (integers) *)
let show_num (n : Number.coq_Number) =
  let v = string_of_z n.Number.coq_Value in
  if n.Number.coq_Negative && v <> "0" then "-" ^ v else v
let show_range r = Str_.concat "|" (L.map (fun (a, b) -> show_num a ^ ".." ^ show_num b) r)
let jrange = function
  | Outcome.Ok None -> "null"
  | Outcome.Ok (Some r) -> q (show_range r)
  | Outcome.Err -> "\"ERR\""
  | Outcome.Panic -> "\"PANIC\""
  | Outcome.Unmodelled -> "\"UNMODELLED\""

let do_c09 ts =
  toks := ts;
  try
    let n = next_int () in
    let mods = times n read_module in
    if !toks <> [] then "bad-case" else
    let (tderr, leaves) = Types.process mods in
    let rngs = Types.leaf_ranges mods in
    Printf.sprintf "{\"tderr\":%s,\"rngerr\":%s,\"leaves\":%s,\"ranges\":%s}" (if tderr then "true" else "false")
      (if Types.any_range_error mods then "true" else "false")
      (jlist (fun (name, o) -> Printf.sprintf "{\"leaf\":%s,\"type\":%s}" (jstr name) (joutcome o)) leaves)
      (jlist (fun (name, o) -> Printf.sprintf "{\"leaf\":%s,\"rng\":%s}" (jstr name) (jrange o)) rngs)
  with Bad_case | Failure _ -> "bad-case"

let () = register "c09" do_c09
