(* C08 spec oracle: the extracted reference Spec/C08.v (spec_deviate, folded in written order) applied to one
   target node given by its attributes.
   c08spec <ign> <removable> <hmin> <hmax> <kind> <hasdir> <cfg> <mand> <n> dflt* <units> <type|~> <la|~> <n> deviate*
     kind: Leaf Directory AnyData AnyXML Case Choice Input Notification Output; la = min:max; strings hex ("-" empty);
     hmin/hmax: a min-elements / max-elements statement is present on the node (part of its list attributes)
   ->  k0r<0|1>s<0|1> none
     | k0r..s.. some <removed> <cfg> <mand> [d,..] "units" "type"|- min:max|- <hmin> <hmax>
   r: a step the library refuses (delete of a leaf-list default), s: a step outside the claim (delete of
   units/type) -- along the reference run.  (k is always 0: no known finding is classified here any more.)
   c08specr <n> <typename>* <rest as c08spec>
     the same reference with its parameter [resolvable] (Spec/C08.v, Section Spec: "the type names that resolve")
     instantiated by the given set of names instead of Schema.is_builtin: for the generated replacement types
     that are whole type statements (restrictions, unions, typedef references), where the generator knows by
     construction whether the statement resolves; the names are labels of those statements. *)
open BinNums
open Datatypes
open Drv
open Schema
open C08

let kind_of_name = function
  | "Leaf" -> KLeaf | "Directory" -> KDir | "AnyData" -> KAnyData | "AnyXML" -> KAnyXML | "Case" -> KCase
  | "Choice" -> KChoice | "Input" -> KInput | "Notification" -> KNotification | "Output" -> KOutput
  | x -> raise (Cmd_schema.Bad ("kind " ^ x))

let do_spec_with (labelled : bool) ts =
  Cmd_schema.toks := ts;
  let open Cmd_schema in
  try
    let resolvable = if labelled then (let names = p_list p_str in fun t -> L.mem t names) else is_builtin in
    let b () = next () = "1" in
    let ign = b () in let removable = b () in let hmin = b () in let hmax = b () in
    let kind = kind_of_name (next ()) in
    let hasdir = b () in
    let cfg = p_tri () in let mand = p_tri () in
    let dflts = p_list p_str in
    let units = p_str () in
    let ty = p_ostr () in
    let la = (match next () with
        | "~" -> None
        | t -> (match Str_.split_on_char ':' t with
            | [a; c] -> Some ((n_of_string a, n_of_string c), (hmin, hmax))
            | _ -> raise (Bad ("la " ^ t)))) in
    let dvs = p_list p_deviate in
    let e = Entry ([], kind, cfg, mand, dflts, units, ty, [], la, None, (if hasdir then Some [] else None), None) in
    let k = ref false and r = ref false and s = ref false in
    let rec go st = function
      | [] -> Some st
      | dv :: rest ->
        if refused st dv then r := true;
        if not (in_scope dv) then s := true;
        (match spec_deviate resolvable ign removable st dv with
         | Some st' -> go st' rest
         | None -> None) in
    let res = go (init_state e) dvs in
    let fl = Printf.sprintf "k%dr%ds%d" (if !k then 1 else 0) (if !r then 1 else 0) (if !s then 1 else 0) in
    (match res with
     | None -> fl ^ " none"
     | Some st ->
       let n = ts_node st in
       let q x = "\"" ^ x ^ "\"" in
       Str_.concat " " [
         fl; "some"; (if ts_removed st then "1" else "0");
         tri_name (e_cfg n); tri_name (e_mand n);
         "[" ^ Str_.concat "," (L.map (fun d -> q (s_of d)) (e_dflt n)) ^ "]";
         q (s_of (e_units n));
         (match e_ty n with Some t -> q (s_of t) | None -> "-");
         (match e_la n with Some ((mn, mx), _) -> string_of_n mn ^ ":" ^ string_of_n mx | None -> "-");
         (if min_written n then "1" else "0"); (if max_written n then "1" else "0") ])
  with Cmd_schema.Bad m -> "bad-case:" ^ m

let () = register "c08spec" (do_spec_with false)
let () = register "c08specr" (do_spec_with true)
