(* C06: the reference expansion inline_schema (coq/Spec/C06.v) on a schema in the encoding of cmd_schema.ml:
     inline <opts> <n_order> name* <n_modules> module*   ->  "none" | "ok <n_modules> module*"   (same token format) *)
open Drv
open Schema

let hx l = hex_of_bytes l
let hx0 l = if l = [] then "" else hex_of_bytes l
let e_tri = function TSUnset -> "u" | TSTrue -> "t" | TSFalse -> "f"
let e_os = function None -> "~" | Some s -> "s" ^ hx0 s
let e_on = function None -> "~" | Some n -> string_of_n n
let e_list f l = string_of_int (L.length l) :: L.concat (L.map f l)
let rec e_node (n : dnode) : string list =
  match n with
  | DLeaf (nm, ty, c, m, d, u) -> ["L"; hx nm; hx ty; e_tri c; e_tri m; e_os d; e_os u]
  | DLeafList (nm, ty, c, ds, mn, mx) -> ["LL"; hx nm; hx ty; e_tri c] @ e_list (fun d -> [hx d]) ds @ [e_on mn; e_on mx]
  | DContainer (nm, c, b) -> ["C"; hx nm; e_tri c] @ e_list e_node b
  | DList (nm, k, c, mn, mx, b) -> ["LI"; hx nm; e_os k; e_tri c; e_on mn; e_on mx] @ e_list e_node b
  | DChoice (nm, c, m, d, b) -> ["CH"; hx nm; e_tri c; e_tri m; e_os d] @ e_list e_node b
  | DCase (nm, b) -> ["CA"; hx nm] @ e_list e_node b
  | DAny (x, nm, c, m) -> ["A"; (if x then "1" else "0"); hx nm; e_tri c; e_tri m]
  | DUses g -> ["U"; hx g]
  | DGrouping (gid, nm, b) -> ["G"; string_of_int (int_of_nat gid); hx nm] @ e_list e_node b
  | DRpc (a, nm, i, o) ->
    let ob = function None -> ["~"] | Some b -> "+" :: e_list e_node b in
    ["R"; (if a then "1" else "0"); hx nm] @ ob i @ ob o
  | DNotification (nm, b) -> ["N"; hx nm] @ e_list e_node b
let e_deviate (d : deviate) =
  [hx d.dv_kind; e_tri d.dv_cfg; e_tri d.dv_mand; e_os d.dv_default; e_on d.dv_min; e_on d.dv_max; e_os d.dv_units; e_os d.dv_type]
let e_module (m : coq_module) =
  ["M"; hx m.m_name; hx m.m_prefix; hx m.m_ns; e_os m.m_belongs]
  @ e_list (fun (p, mn) -> [hx p; hx mn]) m.m_imports
  @ e_list (fun s -> [hx s]) m.m_includes
  @ e_list e_node m.m_body
  @ e_list (fun (p, b) -> hx p :: e_list e_node b) m.m_augments
  @ e_list (fun (p, ds) -> hx p :: e_list e_deviate ds) m.m_deviations

let do_inline ts =
  Cmd_schema.toks := ts;
  try
    let _opts = Cmd_schema.next () in
    let _order = Cmd_schema.p_list Cmd_schema.p_str in
    let sc = Cmd_schema.p_list Cmd_schema.p_module in
    (match C06.inline_schema sc with
     | None -> "none"
     | Some sc' -> "ok " ^ Str_.concat " " (e_list e_module sc'))
  with Cmd_schema.Bad m -> "bad-case:" ^ m

let () = register "inline" do_inline
