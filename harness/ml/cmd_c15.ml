open BinNums
open Datatypes
open Drv
(* ---- C15: histories of parses: the model is a function, every call stands alone ---- *)
let show_number (n : Number.coq_Number) =
  Printf.sprintf "%s:%s:%s" (string_of_z n.Number.coq_Value) (string_of_z n.Number.coq_FractionDigits)
    (if n.Number.coq_Negative then "1" else "0")

let do_parsedecseq toks =
  let unmodelled = ref false in
  let rec go = function
    | h :: fd :: rest ->
      let r = match Number.coq_ParseDecimal (bytes_of_hex h) (z_of_string fd) with
        | Outcome.Ok n -> "ok " ^ show_number n
        | Outcome.Err -> "err"
        | Outcome.Panic -> "panic"
        | Outcome.Unmodelled -> unmodelled := true; "unmodelled" in
      r :: go rest
    | _ -> [] in
  let rs = go toks in
  if !unmodelled then "unmodelled" else Str_.concat " | " rs

let () = register "parsedecseq" do_parsedecseq
