open BinNums
open Datatypes
open Drv
(* ---- C15: histories of parses: the model is a function, every call stands alone ---- *)
let show_number (n : Number.coq_Number) =
  Printf.sprintf "%s:%s:%s" (string_of_z n.Number.coq_Value) (string_of_z n.Number.coq_FractionDigits)
    (if n.Number.coq_Negative then "1" else "0")

let do_parsedecseq toks =
  let unmodelled = ref false in
  let rec go = function
    | h :: fd :: rest ->
      let r = match Number.coq_ParseDecimal (bytes_of_hex h) (z_of_string fd) with
        | Outcome.Ok n -> "ok " ^ show_number n
        | Outcome.Err -> "err"
        | Outcome.Panic -> "panic"
        | Outcome.Unmodelled -> unmodelled := true; "unmodelled" in
      r :: go rest
    | _ -> [] in
  let rs = go toks in
  if !unmodelled then "unmodelled" else Str_.concat " | " rs

(* rangeapi: YangRange.Less / IsSorted / Validate / Sort on a hand-built range (Model/Range.v) *)
let do_rangeapi toks =
  match toks with
  | [tok] ->
    let r = Cmd_num.parse_range_tok tok in
    let tf b = if b then "t" else "f" in
    let less = Str_.concat "" (L.concat_map (fun a -> L.map (fun b -> tf (Range.rLess a b)) r) r) in
    let sorted = Range.coq_Sort r in
    "less=" ^ (if less = "" then "-" else less) ^ " sorted=" ^ tf (Range.is_sorted r) ^ " valid=" ^ tf (Range.coq_Validate r)
    ^ " sort=" ^ Cmd_num.show_range sorted ^ " validsorted=" ^ tf (Range.coq_Validate sorted)
  | _ -> "bad-case"

(* stringpar: String is a function; what concurrent callers get is what each would get alone *)
let do_stringpar toks =
  match toks with
  | _iters :: nums ->
    let one x = match Str_.split_on_char ':' x with
      | [v; f; n] ->
        (match Number.coq_String_ (Cmd_num.mk_number v f n) with
         | Outcome.Ok s -> hex_of_bytes s | Outcome.Err -> "err" | Outcome.Panic -> "panic" | Outcome.Unmodelled -> "unmodelled")
      | _ -> failwith "number" in
    Str_.concat " " (L.map one nums)
  | _ -> "bad-case"

let () = register "parsedecseq" do_parsedecseq; register "rangeapi" do_rangeapi; register "stringpar" do_stringpar
