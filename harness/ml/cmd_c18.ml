open BinNums
open Datatypes
open Drv
(* ---- C18 ---- the history machine of coq/Model/History.v, stepped op by op, next to coq/Spec/C18.v

   c18hist <fx> <ntexts> text* <nops> op*
     fx   := now | pinned | repaired | five 0/1 digits (atomic byns types idents binds)
     text := S                                  the text does not parse
           | I <n> item*n
     item := B <ntds>                           rejected statement that registered ntds typedefs
           | G <id> <m|s> <name> <revs> <ns> <belongs|~> <ntds> <imports> <includes> <idents>
             revs, idents: comma separated hex strings or "-"; imports, includes: comma separated name:rev with
             rev = hex or "~" (no revision-date), or "-"
     op   := L<i> | P | N<ns hex> | T
   prints  <model op results joined by " ; "> || <specification op results joined by " ; ">
     model  L<0|1> M=<key:id,..> S=<key:id,..>     keys of ms.Modules / ms.SubModules after the load
            P ok=<0|1> B=<id.(i|c).k>id,..>        import (i) / include (c) bindings after Process, sorted
            N=<f<id>|none|amb>                      FindModuleByNamespace
            T=<some|none>
     spec   L<0|1> A=<id,..> part=<0|1>            accepted items so far, in order; the load has the listed shape
            P | N=.. | T *)

let split c s = Str_.split_on_char c s
let join sep l = if l = [] then "-" else Str_.concat sep l
let b01 b = if b then "1" else "0"
let strs tok = if tok = "-" then [] else L.map bytes_of_hex (split ',' tok)
let refs tok =
  if tok = "-" then [] else
    L.map (fun x -> match split ':' x with
        | [n; "~"] -> (bytes_of_hex n, None)
        | [n; r] -> (bytes_of_hex n, Some (bytes_of_hex r))
        | _ -> failwith "ref") (split ',' tok)

let tdctr = ref 0
let fresh_tds n = L.init n (fun _ -> incr tdctr; n_of_int !tdctr)

let rec read_items n toks =
  if n = 0 then ([], toks) else
    match toks with
    | "B" :: ntds :: rest ->
      let it = History.Bad (fresh_tds (int_of_string ntds)) in
      let (its, rest) = read_items (n - 1) rest in (it :: its, rest)
    | "G" :: id :: k :: name :: revs :: ns :: bel :: ntds :: imps :: incs :: ids :: rest ->
      let h = { Registry.h_id = n_of_int (int_of_string id);
                h_kind = (if k = "m" then Registry.KMod else Registry.KSub);
                h_name = bytes_of_hex name; h_revs = strs revs } in
      let g = { History.g_hdr = h; g_ns = bytes_of_hex ns;
                g_belongs = (if bel = "~" then None else Some (bytes_of_hex bel));
                g_tds = fresh_tds (int_of_string ntds); g_imports = refs imps; g_includes = refs incs;
                g_idents = strs ids } in
      let (its, rest) = read_items (n - 1) rest in (History.Good g :: its, rest)
    | _ -> failwith "item"

let rec read_texts n toks =
  if n = 0 then ([], toks) else
    match toks with
    | "S" :: rest -> let (ts, rest) = read_texts (n - 1) rest in (History.SyntaxErr :: ts, rest)
    | "I" :: k :: rest ->
      let (its, rest) = read_items (int_of_string k) rest in
      let (ts, rest) = read_texts (n - 1) rest in (History.Items its :: ts, rest)
    | _ -> failwith "text"

let fixes_of s =
  match s with
  | "now" -> History.now
  | "pinned" -> History.pinned
  | "repaired" -> History.repaired
  | _ -> { History.fx_atomic = s.[0] = '1'; fx_byns = s.[1] = '1'; fx_types = s.[2] = '1';
           fx_idents = s.[3] = '1'; fx_binds = s.[4] = '1' }

let dump_smap m =
  let l = L.map (fun (k, h) -> hex_of_bytes k ^ ":" ^ string_of_int (int_of_n h.Registry.h_id)) m in
  join "," (L.sort compare l)
let dump_binds (b : History.bmap) =
  let l = L.map (fun (((i, c), k), j) ->
      Printf.sprintf "%d.%s.%d>%d" (int_of_n i) (if c then "c" else "i") (int_of_nat k) (int_of_n j)) b in
  join "," (L.sort compare l)
let show_ns = function
  | History.NsFound id -> "f" ^ string_of_int (int_of_n id)
  | History.NsNone -> "none"
  | History.NsAmbiguous -> "amb"

let do_hist toks =
  tdctr := 0;
  match toks with
  | fx :: nt :: rest ->
    let fx = fixes_of fx in
    let (texts, rest) = read_texts (int_of_string nt) rest in
    let ops = (match rest with _ :: ops -> ops | [] -> []) in
    let st = ref History.coq_NewState in
    let acc = ref [] in
    let mo = ref [] and so = ref [] in
    L.iter (fun o ->
        let op = (match o.[0] with
            | 'L' -> History.Load (L.nth texts (int_of_string (Str_.sub o 1 (Str_.length o - 1))))
            | 'P' -> History.Proc
            | 'N' -> History.QNs (bytes_of_hex (Str_.sub o 1 (Str_.length o - 1)))
            | _ -> History.QTree) in
        let (st', x) = History.step (fun v -> v) fx !st op in
        st := st';
        (match x with
         | History.OLoad ok ->
           mo := Printf.sprintf "L%s M=%s S=%s" (b01 ok) (dump_smap st'.History.reg.Registry.coq_Modules)
               (dump_smap st'.History.reg.Registry.coq_SubModules) :: !mo
         | History.OProc v ->
           mo := Printf.sprintf "P ok=%s B=%s" (b01 v.History.v_ok) (dump_binds v.History.v_binds) :: !mo
         | History.ONs r -> mo := ("N=" ^ show_ns r) :: !mo
         | History.OTree r -> mo := (match r with Some _ -> "T=some" | None -> "T=none") :: !mo);
        (match op with
         | History.Load t ->
           let part = C18.partial_shape !acc t in
           let ok = (match C18.spec_load !acc t with
               | Some gs -> acc := !acc @ gs; true
               | None -> false) in
           so := Printf.sprintf "L%s A=%s part=%s" (b01 ok)
               (join "," (L.map (fun g -> string_of_int (int_of_n (History.gid g))) !acc)) (b01 part) :: !so
         | History.Proc -> so := "P" :: !so
         | History.QNs ns -> so := ("N=" ^ show_ns (C18.spec_ns !acc ns)) :: !so
         | History.QTree -> so := "T" :: !so)) ops;
    Str_.concat " ; " (L.rev !mo) ^ " || " ^ Str_.concat " ; " (L.rev !so)
  | _ -> "bad-case"

let () = register "c18hist" do_hist
