(* C16, builder leg: front <hex text>
   FrontEnd.front_end over the generated table on the text (UTF-8 decoded as cmd_parse.ml does it, the way Go's
   lexer does).  One line:
     syntax <positions>          yang.Parse rejected the text (positions as the `parse` command prints them)
     ok                          every top-level statement built and is a module / submodule
     err <kind> <line>:<col>     the builder's error, kind as cmd_c03.ml names it, and the position it prints
     err <kind> nopos            the message carries no position *)
open Drv

let do_front toks =
  match toks with
  | [h] ->
    (match FrontEnd.front_end YangSchema.schema (Cmd_parse.runes_of_hex h) with
     | FrontEnd.FSyntax es -> "syntax " ^ Str_.concat "," (L.map Cmd_parse.show_err es)
     | FrontEnd.FOutOfFuel -> "model-out-of-fuel"
     | FrontEnd.FOk _ -> "ok"
     | FrontEnd.FErr (k, p) ->
       "err " ^ Cmd_c03.kind_name k ^ " " ^
       (match p with
        | FrontEnd.NoPos -> "nopos"
        | FrontEnd.At (l, c) -> string_of_z l ^ ":" ^ string_of_z c
        | FrontEnd.BadId -> "bad-id")
     | FrontEnd.FPanic -> "PANIC"
     | FrontEnd.FUnmodelled -> "unmodelled")
  | _ -> "bad-case"

let () = register "front" do_front
