open Datatypes
open Drv
(* ---- C03 ---- ast <hex text> <ntop> (<kw hex> <arg: N | E | hex> <line:col> <nsubs>)*
   On an error the model reports a kind and a statement id; the id is printed as that statement's line:col
   (as given in the case), so that it can be compared with the position prefix of the Go error message.
   The statement forest is given in prefix order; ids are assigned here in pre-order (the Go side numbers
   the statements of the parsed text the same way).  The first token (the YANG text) is for the Go side. *)

let coq_ascii_of_char c =
  let n = Char.code c in
  let b i = (n lsr i) land 1 = 1 in
  Ascii.Ascii (b 0, b 1, b 2, b 3, b 4, b 5, b 6, b 7)
let char_of_coq_ascii (Ascii.Ascii (b0, b1, b2, b3, b4, b5, b6, b7)) =
  let v b i = if b then 1 lsl i else 0 in
  Char.chr (v b0 0 + v b1 1 + v b2 2 + v b3 3 + v b4 4 + v b5 5 + v b6 6 + v b7 7)
let coq_string_of s =
  let r = ref String0.EmptyString in
  for i = Str_.length s - 1 downto 0 do r := String0.String (coq_ascii_of_char s.[i], !r) done;
  !r
let rec string_of_coq = function
  | String0.EmptyString -> ""
  | String0.String (c, r) -> Str_.make 1 (char_of_coq_ascii c) ^ string_of_coq r
let raw_of_hex h =
  if h = "-" then "" else
  Str_.init (Str_.length h / 2) (fun i -> Char.chr (hexval h.[2*i] * 16 + hexval h.[2*i+1]))
let hex_of_raw s =
  if s = "" then "-" else
  Str_.concat "" (L.init (Str_.length s) (fun i -> Printf.sprintf "%02x" (Char.code s.[i])))

exception Bad_case

(* parse one statement from the token list; returns (stmt, remaining tokens) *)
let positions : (int, string) Hashtbl.t = Hashtbl.create 64
let rec read_stmt ctr toks =
  match toks with
  | kw :: arg :: pos :: n :: rest ->
    let id = !ctr in
    incr ctr;
    Hashtbl.replace positions id pos;
    let has, a = (match arg with "N" -> false, "" | "E" -> true, "" | h -> true, raw_of_hex h) in
    let subs, rest = read_list ctr (int_of_string n) rest in
    Ast.Stmt (coq_string_of (raw_of_hex kw), has, coq_string_of a, nat_of_int id, subs), rest
  | _ -> raise Bad_case
and read_list ctr n toks =
  if n = 0 then [], toks else
  let s, rest = read_stmt ctr toks in
  let l, rest = read_list ctr (n - 1) rest in
  s :: l, rest

let optid = function None -> "-" | Some i -> string_of_int (int_of_nat i)

let rec dump b (Ast.Node (ty, name, src, par, fields, exts)) =
  Buffer.add_string b (string_of_coq ty); Buffer.add_char b ':';
  Buffer.add_string b (hex_of_raw (string_of_coq name)); Buffer.add_char b ':';
  Buffer.add_string b (optid src); Buffer.add_char b ':';
  Buffer.add_string b (optid par); Buffer.add_char b '{';
  L.iter (fun (k, l) ->
    if l <> [] then begin
      Buffer.add_string b (string_of_coq k); Buffer.add_char b '=';
      L.iter (dump b) l;
      Buffer.add_char b ';' end) fields;
  Buffer.add_string b "}[";
  Buffer.add_string b (Str_.concat "," (L.map (fun i -> string_of_int (int_of_nat i)) exts));
  Buffer.add_char b ']'

let kind_name = function
  | Ast.EUnknownStmt -> "unknown-statement" | Ast.EUnknownField -> "unknown-field" | Ast.ENoExt -> "no-ext"
  | Ast.EAlreadySet -> "already-set" | Ast.EMissing -> "missing" | Ast.EMissingKind -> "missing-kind"
  | Ast.EOtherKind -> "other-kind" | Ast.ENotModule -> "not-module"

(* the observation of one Modules.Parse / Modules.Read of a text on an empty module set *)
let observe forest =
  match Ast.parse_all_e YangSchema.schema forest with
  | Ast.ROk nodes ->
    let b = Buffer.create 256 in
    Buffer.add_string b "ok";
    L.iter (fun nd -> Buffer.add_char b ' '; dump b nd) nodes;
    Buffer.contents b
  | Ast.RErr (k, pos) ->
    let p = (match pos with
             | None -> "nopos"
             | Some i -> (try Hashtbl.find positions (int_of_nat i) with Not_found -> "?")) in
    "err " ^ p ^ " " ^ kind_name k
  | Ast.RPanic -> "PANIC"
  | Ast.RUnmodelled -> "unmodelled"

let read_forest toks =
  match toks with
  | n :: rest -> Hashtbl.reset positions; read_list (ref 0) (int_of_string n) rest
  | [] -> raise Bad_case

let do_ast toks =
  match toks with
  | _text :: rest ->
    (try
      let forest, rest = read_forest rest in
      if rest <> [] then "bad-case" else observe forest
    with Bad_case | Failure _ -> "bad-case")
  | _ -> "bad-case"

(* astfile <hex text> <hex corrected text | -> <forest> [<corrected forest>]
   Reading a file is parsing its text into the set (Modules.Read = findFile + Parse), and a rejected text
   leaves the set as it was (Parse is all-or-nothing).  So: a rejected file is rejected the same way by
   every further Read, and once the file is corrected the Read gives what the corrected text gives on the
   still empty set.  For an accepted file the further Reads either report the duplicate or change nothing:
   "same" (the check canonicalises the implementation's answer accordingly). *)
let do_astfile toks =
  match toks with
  | _text :: fixed :: rest ->
    (try
      let forest, rest = read_forest rest in
      let r1 = observe forest in
      let is_err = Str_.length r1 >= 3 && Str_.sub r1 0 3 = "err" in
      let later = if is_err then r1 else "same" in
      let steps = [r1; later; later] in
      let steps =
        if fixed = "-" then (if rest <> [] then raise Bad_case else steps)
        else begin
          let forest2, rest2 = read_forest rest in
          if rest2 <> [] then raise Bad_case;
          let r4 = observe forest2 in
          let err4 = Str_.length r4 >= 3 && Str_.sub r4 0 3 = "err" in
          steps @ [if is_err then r4 else if err4 then "err" else "unsupported-case"]
        end in
      Str_.concat " | " steps
    with Bad_case | Failure _ -> "bad-case")
  | _ -> "bad-case"

(* asthist <ops> <hex text> <forest>
   The history leg.  In the model the syntax tree is a VALUE: Process, ToEntry, GetModule, MatchingExtensions,
   the entry cache and the lookup helpers are functions that take the tree and return something else
   (entries, statement lists, modules); none of them is a builder.  So whatever <ops> is, the tree that a
   module set holds after the history is the tree `Ast.parse_all_e` returned -- the one C03_mirror speaks
   about -- and the observation is the one of "ast".  The implementation side dumps its (mutable) tree
   again after every step of the history; it has to print this very dump every time. *)
let do_asthist toks =
  match toks with
  | _ops :: rest -> do_ast rest
  | _ -> "bad-case"

let () = register "ast" do_ast; register "astfile" do_astfile; register "asthist" do_asthist
