(* C17: Schema.Find on the model forest for a list of (context module, start position, path) queries.
   find17 <opts> <n_order> name* <n_modules> module* <nq> query*
     query = <ctx module hex> <start module hex> <nsteps> step* <path hex>      step = C<hex> | I | O
   -> err | ok wf=<0|1> <r1> ... <rn> | <forest after the queries, format of cmd_schema.ml>
     r = - (nothing) | noctx | <module hex>/<step>/...:<name hex>:<kind>
   The queries run in order on one forest (Find creates rpc input/output on demand).
   The decoders are copies of the ones in cmd_schema.ml (kept separate so that either part builds alone). *)
open BinNums
open Datatypes
open Drv
open Schema

exception Bad of string
let toks : string list ref = ref []
let next () = match !toks with [] -> raise (Bad "eof") | t :: r -> toks := r; t
let str_of_tok t = bytes_of_hex t
let p_str () = str_of_tok (next ())
let p_int () = int_of_string (next ())
let p_tri () = match next () with "u" -> TSUnset | "t" -> TSTrue | "f" -> TSFalse | x -> raise (Bad ("tri " ^ x))
let p_ostr () = match next () with "~" -> None | t -> Some (bytes_of_hex (Str_.sub t 1 (Str_.length t - 1) |> fun h -> if h = "" then "-" else h))
let p_on () = match next () with "~" -> None | t -> Some (n_of_string t)
let p_list f = let n = p_int () in L.init n (fun _ -> f ())
let rec p_node () : dnode =
  match next () with
  | "L" -> let n = p_str () in let ty = p_str () in let c = p_tri () in let m = p_tri () in
    let d = p_ostr () in let u = p_ostr () in DLeaf (n, ty, c, m, d, u)
  | "LL" -> let n = p_str () in let ty = p_str () in let c = p_tri () in let ds = p_list p_str in
    let mn = p_on () in let mx = p_on () in DLeafList (n, ty, c, ds, mn, mx)
  | "C" -> let n = p_str () in let c = p_tri () in let b = p_list p_node in DContainer (n, c, b)
  | "LI" -> let n = p_str () in let k = p_ostr () in let c = p_tri () in let mn = p_on () in let mx = p_on () in
    let b = p_list p_node in DList (n, k, c, mn, mx, b)
  | "CH" -> let n = p_str () in let c = p_tri () in let m = p_tri () in let d = p_ostr () in
    let b = p_list p_node in DChoice (n, c, m, d, b)
  | "CA" -> let n = p_str () in let b = p_list p_node in DCase (n, b)
  | "A" -> let x = next () = "1" in let n = p_str () in let c = p_tri () in let m = p_tri () in DAny (x, n, c, m)
  | "U" -> DUses (p_str ())
  | "G" -> let gid = nat_of_int (p_int ()) in let n = p_str () in let b = p_list p_node in DGrouping (gid, n, b)
  | "R" -> let a = next () = "1" in let n = p_str () in
    let ob () = match next () with "~" -> None | "+" -> Some (p_list p_node) | x -> raise (Bad ("optbody " ^ x)) in
    let i = ob () in let o = ob () in DRpc (a, n, i, o)
  | "N" -> let n = p_str () in let b = p_list p_node in DNotification (n, b)
  | x -> raise (Bad ("node " ^ x))
let p_deviate () : deviate =
  let k = p_str () in let c = p_tri () in let m = p_tri () in let d = p_ostr () in
  let mn = p_on () in let mx = p_on () in let u = p_ostr () in let t = p_ostr () in
  { dv_kind = k; dv_cfg = c; dv_mand = m; dv_default = d; dv_min = mn; dv_max = mx; dv_units = u; dv_type = t }
let p_module () : coq_module =
  (match next () with "M" -> () | x -> raise (Bad ("module " ^ x)));
  let name = p_str () in let prefix = p_str () in let ns = p_str () in let belongs = p_ostr () in
  let imports = p_list (fun () -> let p = p_str () in let m = p_str () in (p, m)) in
  let includes = p_list p_str in
  let body = p_list p_node in
  let augs = p_list (fun () -> let p = p_str () in let b = p_list p_node in (p, b)) in
  let devs = p_list (fun () -> let p = p_str () in let d = p_list p_deviate in (p, d)) in
  { m_name = name; m_prefix = prefix; m_ns = ns; m_belongs = belongs; m_imports = imports; m_includes = includes;
    m_body = body; m_augments = augs; m_deviations = devs }

let s_of l = Str_.concat "" (L.map (fun b -> Str_.make 1 (Char.chr (int_of_n b))) l)
let kind_name = function
  | KLeaf -> "Leaf" | KDir -> "Directory" | KAnyData -> "AnyData" | KAnyXML -> "AnyXML" | KCase -> "Case"
  | KChoice -> "Choice" | KInput -> "Input" | KNotification -> "Notification" | KOutput -> "Output"
let tri_name = function TSUnset -> "unset" | TSTrue -> "true" | TSFalse -> "false"

let rec dump sc f (mn : str) (steps : step list) b (e : entry) =
  let p = (mn, steps) in
  let q s = "\"" ^ s ^ "\"" in
  Buffer.add_string b "(";
  Buffer.add_string b (Str_.concat " " [
    q (s_of (e_name e)); kind_name (e_kind e); tri_name (e_cfg e); tri_name (e_mand e);
    "[" ^ Str_.concat "," (L.map (fun d -> q (s_of d)) (e_dflt e)) ^ "]";
    q (s_of (e_units e));
    (match e_ty e with Some t -> q (s_of t) | None -> "-");
    q (s_of (e_key e));
    (match e_la e with Some ((mn, mx), _) -> string_of_n mn ^ ":" ^ string_of_n mx | None -> "-");
    q (s_of (coq_Namespace sc f p));
    (if coq_ReadOnly f p then "RO" else "rw");
    (match coq_InstantiatingModule sc f p with Some m -> q (s_of m) | None -> "ERR") ]);
  (match e_dir e with
   | None -> Buffer.add_string b " nodir"
   | Some d ->
     let d = L.sort (fun (a, _) (c, _) -> compare (s_of a) (s_of c)) d in
     Buffer.add_string b " {";
     L.iter (fun (k, c) -> dump sc f mn (steps @ [SChild k]) b c) d;
     Buffer.add_string b "}");
  (match e_rpc e with
   | None -> ()
   | Some (i, o) ->
     Buffer.add_string b " rpc";
     (match i with Some x -> Buffer.add_string b " in"; dump sc f mn (steps @ [SIn]) b x | None -> ());
     (match o with Some x -> Buffer.add_string b " out"; dump sc f mn (steps @ [SOut]) b x | None -> ()));
  Buffer.add_string b ")"

let p_step () : step =
  let t = next () in
  if t = "I" then SIn else if t = "O" then SOut
  else if Str_.length t >= 1 && t.[0] = 'C' then SChild (bytes_of_hex (let h = Str_.sub t 1 (Str_.length t - 1) in if h = "" then "-" else h))
  else raise (Bad ("step " ^ t))
let show_step = function SIn -> "I" | SOut -> "O" | SChild n -> "C" ^ (if n = [] then "" else hex_of_bytes n)
let show_pos (mn, steps) = Str_.concat "/" (hex_of_bytes mn :: L.map show_step steps)

let do_find17 ts =
  toks := ts;
  try
    let opts = next () in
    let order = p_list p_str in
    let sc = p_list p_module in
    let has c = Str_.contains opts c in
    (match coq_Process sc (has 'c') (has 'n') order with
     | RErr -> "err"
     | ROk f0 ->
       let wf = C17.wf_forestb (nat_of_int 200) f0 in
       let f = ref f0 in
       let qs = p_list (fun () ->
         let ctx = p_str () in let sm = p_str () in let st = p_list p_step in let path = p_str () in (ctx, sm, st, path)) in
       let rs = L.map (fun (ctx, sm, st, path) ->
         match find_module sc ctx with
         | None -> "noctx"
         | Some cm ->
           let (r, f') = coq_Find sc !f cm (sm, st) path in
           f := f';
           (match r with
            | None -> "-"
            | Some p ->
              (match locate_pos f' p with
               | None -> show_pos p ^ ":?:?"
               | Some e -> show_pos p ^ ":" ^ hex_of_bytes (e_name e) ^ ":" ^ kind_name (e_kind e)))) qs in
       let fs = L.sort (fun (a, _) (c, _) -> compare (s_of a) (s_of c)) !f in
       let b = Buffer.create 1024 in
       Buffer.add_string b ("ok wf=" ^ (if wf then "1" else "0"));
       L.iter (fun r -> Buffer.add_string b " "; Buffer.add_string b r) rs;
       Buffer.add_string b " | ok";
       L.iter (fun (mn, root) -> Buffer.add_string b " "; dump sc fs mn [] b root) fs;
       Buffer.contents b)
  with Bad m -> "bad-case:" ^ m

let () = register "find17" do_find17

(* C12: the proved reference semantics of ReadOnly evaluated on a path of the implementation's dump.
   ro12 (<kind> <config>)*   root first; kind as printed by the dump, config = unset | true | false
   -> <ro_up_pinned: the upward walk of the pinned entry.go> <ro_text: the property's wording>
      <ntbo: no config true below an output>, each 0/1 *)
let kind_of = function
  | "Leaf" -> KLeaf | "Directory" -> KDir | "AnyData" -> KAnyData | "AnyXML" -> KAnyXML | "Case" -> KCase
  | "Choice" -> KChoice | "Input" -> KInput | "Notification" -> KNotification | "Output" -> KOutput
  | x -> raise (Bad ("kind " ^ x))
let tri_of = function "unset" -> TSUnset | "true" -> TSTrue | "false" -> TSFalse | x -> raise (Bad ("config " ^ x))
let do_ro12 ts =
  try
    let rec go = function
      | k :: c :: r -> Entry ([], kind_of k, tri_of c, TSUnset, [], [], None, [], None, None, None, None) :: go r
      | [] -> []
      | _ -> raise (Bad "odd") in
    let es = go ts in
    let b x = if x then "1" else "0" in
    Str_.concat " " [b (C12.ro_up_pinned false (L.rev es)); b (C12.ro_text es); b (C12.ntbo false es)]
  with Bad m -> "bad-case:" ^ m
let () = register "ro12" do_ro12
