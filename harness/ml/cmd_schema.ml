(* Core resolver model (coq/Model/Schema.v): decode an abstract schema, run Process, dump the forest.
   resolve <opts> <n_order> name* <n_modules> module*      (prefix token format, see check/props/schema_gen.py) *)
open BinNums
open Datatypes
open Drv
open Schema

exception Bad of string
let toks : string list ref = ref []
let next () = match !toks with [] -> raise (Bad "eof") | t :: r -> toks := r; t
let str_of_tok t = bytes_of_hex t                       (* hex, "-" = empty *)
let p_str () = str_of_tok (next ())
let p_int () = int_of_string (next ())
let p_tri () = match next () with "u" -> TSUnset | "t" -> TSTrue | "f" -> TSFalse | x -> raise (Bad ("tri " ^ x))
let p_ostr () = match next () with "~" -> None | t -> Some (bytes_of_hex (Str_.sub t 1 (Str_.length t - 1) |> fun h -> if h = "" then "-" else h))
let p_on () = match next () with "~" -> None | t -> Some (n_of_string t)
let p_list f = let n = p_int () in L.init n (fun _ -> f ())
let rec p_node () : dnode =
  match next () with
  | "L" -> let n = p_str () in let ty = p_str () in let c = p_tri () in let m = p_tri () in
    let d = p_ostr () in let u = p_ostr () in DLeaf (n, ty, c, m, d, u)
  | "LL" -> let n = p_str () in let ty = p_str () in let c = p_tri () in let ds = p_list p_str in
    let mn = p_on () in let mx = p_on () in DLeafList (n, ty, c, ds, mn, mx)
  | "C" -> let n = p_str () in let c = p_tri () in let b = p_list p_node in DContainer (n, c, b)
  | "LI" -> let n = p_str () in let k = p_ostr () in let c = p_tri () in let mn = p_on () in let mx = p_on () in
    let b = p_list p_node in DList (n, k, c, mn, mx, b)
  | "CH" -> let n = p_str () in let c = p_tri () in let m = p_tri () in let d = p_ostr () in
    let b = p_list p_node in DChoice (n, c, m, d, b)
  | "CA" -> let n = p_str () in let b = p_list p_node in DCase (n, b)
  | "A" -> let x = next () = "1" in let n = p_str () in let c = p_tri () in let m = p_tri () in DAny (x, n, c, m)
  | "U" -> DUses (p_str ())
  | "G" -> let gid = nat_of_int (p_int ()) in let n = p_str () in let b = p_list p_node in DGrouping (gid, n, b)
  | "R" -> let a = next () = "1" in let n = p_str () in
    let ob () = match next () with "~" -> None | "+" -> Some (p_list p_node) | x -> raise (Bad ("optbody " ^ x)) in
    let i = ob () in let o = ob () in DRpc (a, n, i, o)
  | "N" -> let n = p_str () in let b = p_list p_node in DNotification (n, b)
  | x -> raise (Bad ("node " ^ x))
let p_deviate () : deviate =
  let k = p_str () in let c = p_tri () in let m = p_tri () in let d = p_ostr () in
  let mn = p_on () in let mx = p_on () in let u = p_ostr () in let t = p_ostr () in
  { dv_kind = k; dv_cfg = c; dv_mand = m; dv_default = d; dv_min = mn; dv_max = mx; dv_units = u; dv_type = t }
let p_module () : coq_module =
  (match next () with "M" -> () | x -> raise (Bad ("module " ^ x)));
  let name = p_str () in let prefix = p_str () in let ns = p_str () in let belongs = p_ostr () in
  let imports = p_list (fun () -> let p = p_str () in let m = p_str () in (p, m)) in
  let includes = p_list p_str in
  let body = p_list p_node in
  let augs = p_list (fun () -> let p = p_str () in let b = p_list p_node in (p, b)) in
  let devs = p_list (fun () -> let p = p_str () in let d = p_list p_deviate in (p, d)) in
  { m_name = name; m_prefix = prefix; m_ns = ns; m_belongs = belongs; m_imports = imports; m_includes = includes;
    m_body = body; m_augments = augs; m_deviations = devs }

let s_of l = Str_.concat "" (L.map (fun b -> Str_.make 1 (Char.chr (int_of_n b))) l)
let kind_name = function
  | KLeaf -> "Leaf" | KDir -> "Directory" | KAnyData -> "AnyData" | KAnyXML -> "AnyXML" | KCase -> "Case"
  | KChoice -> "Choice" | KInput -> "Input" | KNotification -> "Notification" | KOutput -> "Output"
let tri_name = function TSUnset -> "unset" | TSTrue -> "true" | TSFalse -> "false"

(* canonical dump, children sorted by name; must match canon_go in schema_gen.py *)
let rec dump sc f (mn : str) (steps : step list) b (e : entry) =
  let p = (mn, steps) in
  let q s = "\"" ^ s ^ "\"" in
  Buffer.add_string b "(";
  Buffer.add_string b (Str_.concat " " [
    q (s_of (e_name e)); kind_name (e_kind e); tri_name (e_cfg e); tri_name (e_mand e);
    "[" ^ Str_.concat "," (L.map (fun d -> q (s_of d)) (e_dflt e)) ^ "]";
    q (s_of (e_units e));
    (match e_ty e with Some t -> q (s_of t) | None -> "-");
    q (s_of (e_key e));
    (match e_la e with Some ((mn, mx), _) -> string_of_n mn ^ ":" ^ string_of_n mx | None -> "-");
    q (s_of (coq_Namespace sc f p));
    (if coq_ReadOnly f p then "RO" else "rw");
    (match coq_InstantiatingModule sc f p with Some m -> q (s_of m) | None -> "ERR") ]);
  (match e_dir e with
   | None -> Buffer.add_string b " nodir"
   | Some d ->
     let d = L.sort (fun (a, _) (c, _) -> compare (s_of a) (s_of c)) d in
     Buffer.add_string b " {";
     L.iter (fun (k, c) -> dump sc f mn (steps @ [SChild k]) b c) d;
     Buffer.add_string b "}");
  (match e_rpc e with
   | None -> ()
   | Some (i, o) ->
     Buffer.add_string b " rpc";
     (match i with Some x -> Buffer.add_string b " in"; dump sc f mn (steps @ [SIn]) b x | None -> ());
     (match o with Some x -> Buffer.add_string b " out"; dump sc f mn (steps @ [SOut]) b x | None -> ()));
  Buffer.add_string b ")"

let do_resolve ts =
  toks := ts;
  try
    let opts = next () in
    let order = p_list p_str in
    let sc = p_list p_module in
    let has c = Str_.contains opts c in
    (match coq_Process sc (has 'c') (has 'n') order with
     | RErr -> "err"
     | ROk f ->
       let f = L.sort (fun (a, _) (c, _) -> compare (s_of a) (s_of c)) f in
       let b = Buffer.create 1024 in
       Buffer.add_string b "ok";
       L.iter (fun (mn, root) -> Buffer.add_string b " "; dump sc f mn [] b root) f;
       Buffer.contents b)
  with Bad m -> "bad-case:" ^ m

let () = register "resolve" do_resolve
