#!/bin/sh
# builds ./driver from the extracted modules in gen/ and drv.ml, cmd_*.ml, zmain.ml
set -e
cd "$(dirname "$0")"
rm -rf _b && mkdir _b && cp gen/*.ml gen/*.mli drv.ml cmd_*.ml _b/
cd _b
FILES=$(ocamlfind ocamldep -sort *.mli *.ml)
cp ../zmain.ml .
ocamlfind ocamlopt -O2 -w -a $FILES zmain.ml -o ../driver 2>&1 | grep -v "^$" || true
test -x ../driver
