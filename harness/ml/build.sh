#!/bin/sh
# builds ./driver<suffix> from the extracted modules in gen<suffix>/ and drv.ml, cmd_*.ml, zmain.ml
# usage: build.sh [suffix [part ...]]   (parts given: only cmd_<part>.ml are linked)
set -e
cd "$(dirname "$0")"
SUF="$1"
[ $# -gt 0 ] && shift
B=_b$SUF
rm -rf $B && mkdir $B && cp gen$SUF/*.ml gen$SUF/*.mli drv.ml $B/
if [ $# -gt 0 ]; then for p in "$@"; do [ -f cmd_$p.ml ] && cp cmd_$p.ml $B/; done; else cp cmd_*.ml $B/; fi
cd $B
FILES=$(ocamlfind ocamldep -sort *.mli *.ml)
cp ../zmain.ml .
ocamlfind ocamlopt -O2 -w -a $FILES zmain.ml -o ../driver$SUF 2>&1 | grep -v "^$" || true
test -x ../driver$SUF
