#!/bin/sh
# builds ./driver from the extracted modules in gen/ and driver.ml
set -e
cd "$(dirname "$0")"
rm -rf _b && mkdir _b && cp gen/*.ml gen/*.mli driver.ml _b/
cd _b
FILES=$(ocamlfind ocamldep -sort *.mli *.ml)
ocamlfind ocamlopt -O2 -w -a $FILES -o ../driver 2>&1 | grep -v "^$" || true
test -x ../driver
