(* Line-protocol driver around the extracted Coq model.
   stdin: one case per line, "<cmd> <tok> <tok> ...";  stdout: one observation per line.
   Byte strings are hex ("-" = empty); integers are decimal. *)
open BinNums
open Datatypes
module L = Stdlib.List
module Str_ = Stdlib.String

let rec pos_of_int n =
  if n <= 1 then Coq_xH
  else if n land 1 = 1 then Coq_xI (pos_of_int (n lsr 1)) else Coq_xO (pos_of_int (n lsr 1))
let n_of_int n = if n <= 0 then N0 else Npos (pos_of_int n)
let rec int_of_pos = function Coq_xH -> 1 | Coq_xO p -> 2 * int_of_pos p | Coq_xI p -> 2 * int_of_pos p + 1
let int_of_n = function N0 -> 0 | Npos p -> int_of_pos p
let z_of_int n = if n = 0 then Z0 else if n > 0 then Zpos (pos_of_int n) else Zneg (pos_of_int (-n))
let int_of_z = function Z0 -> 0 | Zpos p -> int_of_pos p | Zneg p -> - (int_of_pos p)
let rec nat_of_int n = if n <= 0 then O else S (nat_of_int (n - 1))
let rec int_of_nat = function O -> 0 | S n -> 1 + int_of_nat n

(* arbitrary-size decimal <-> Z using the extracted arithmetic *)
let z_ten = z_of_int 10
let z_of_string s =
  let neg, s = if Str_.length s > 0 && s.[0] = '-' then true, Str_.sub s 1 (Str_.length s - 1) else false, s in
  let z = ref Z0 in
  Str_.iter (fun c -> z := BinInt.Z.add (BinInt.Z.mul !z z_ten) (z_of_int (Char.code c - 48))) s;
  if neg then BinInt.Z.opp !z else !z
let string_of_z z =
  if z = Z0 then "0" else begin
    let neg, z = (match z with Zneg p -> true, Zpos p | _ -> false, z) in
    let b = Buffer.create 24 in
    let z = ref z in
    while !z <> Z0 do
      let (q, r) = BinInt.Z.div_eucl !z z_ten in
      Buffer.add_char b (Char.chr (48 + int_of_z r)); z := q
    done;
    let s = Buffer.contents b in
    let n = Str_.length s in
    let r = Str_.init n (fun i -> s.[n - 1 - i]) in
    if neg then "-" ^ r else r
  end
let n_of_string s = BinInt.Z.to_N (z_of_string s)
let string_of_n n = string_of_z (BinInt.Z.of_N n)

(* hex <-> list of N (bytes or runes < 256) *)
let hexval c = match c with
  | '0'..'9' -> Char.code c - 48 | 'a'..'f' -> Char.code c - 87 | 'A'..'F' -> Char.code c - 55
  | _ -> failwith "hex"
let bytes_of_hex s =
  if s = "-" then [] else
  let n = Str_.length s / 2 in
  L.init n (fun i -> n_of_int (hexval s.[2*i] * 16 + hexval s.[2*i+1]))
let hex_of_bytes l =
  if l = [] then "-" else
  Str_.concat "" (L.map (fun b -> Printf.sprintf "%02x" (int_of_n b)) l)
(* runes: comma separated decimal code points, "-" = empty *)
let runes_of_tok s =
  if s = "-" then [] else L.map (fun x -> n_of_int (int_of_string x)) (Str_.split_on_char ',' s)
let tok_of_runes l =
  if l = [] then "-" else Str_.concat "," (L.map (fun r -> string_of_int (int_of_n r)) l)

let split_ws s = L.filter (fun x -> x <> "") (Str_.split_on_char ' ' s)

(* ---- C20 ---- indent <prefix> (<chunk> <acc>)*   acc = ok | integer *)
let do_indent toks =
  match toks with
  | p :: rest ->
    let prefix = bytes_of_hex p in
    let rec calls = function
      | c :: a :: r -> (bytes_of_hex c, (if a = "ok" then None else Some (z_of_string a))) :: calls r
      | _ -> [] in
    let (rs, out) = Indent.run prefix (Indent.coq_NewWriter prefix) (calls rest) in
    let rs = Str_.concat "," (L.map (fun (n, e) -> string_of_z n ^ ":" ^ (if e then "E" else "ok")) rs) in
    Printf.sprintf "%s %s" (hex_of_bytes out) (if rs = "" then "-" else rs)
  | _ -> "bad-case"

let do_bytes toks =
  match toks with
  | [p; b] -> hex_of_bytes (Indent.coq_Bytes (bytes_of_hex p) (bytes_of_hex b))
  | _ -> "bad-case"

(* ---- numbers (C15), ranges (C10), enums (C14) ---- *)
let mk_number v fd neg =
  { Number.coq_Value = z_of_string v; Number.coq_FractionDigits = z_of_string fd; Number.coq_Negative = (neg = "1") }
let show_number (n : Number.coq_Number) =
  Printf.sprintf "%s:%s:%s" (string_of_z n.Number.coq_Value) (string_of_z n.Number.coq_FractionDigits)
    (if n.Number.coq_Negative then "1" else "0")
let b2s b = if b then "t" else "f"
let show_outcome f = function
  | Outcome.Ok a -> "ok " ^ f a
  | Outcome.Err -> "err"
  | Outcome.Panic -> "panic"
  | Outcome.Unmodelled -> "unmodelled"
let parse_range_tok s =
  if s = "-" then [] else
  L.map (fun part ->
    match Str_.split_on_char '~' part with
    | [a; b] ->
      (match Str_.split_on_char ':' a, Str_.split_on_char ':' b with
       | [v1; f1; n1], [v2; f2; n2] -> (mk_number v1 f1 n1, mk_number v2 f2 n2)
       | _ -> failwith "range tok")
    | _ -> failwith "range tok") (Str_.split_on_char ',' s)
let show_range r =
  if r = [] then "-" else Str_.concat "," (L.map (fun (a, b) -> show_number a ^ "~" ^ show_number b) r)
let string_of_bytes l = Str_.concat "" (L.map (fun b -> Str_.make 1 (Char.chr (int_of_n b))) l)
let bytes_of_string s = L.init (Str_.length s) (fun i -> n_of_int (Char.code s.[i]))

let do_enum toks =
  match toks with
  | [bits; mems] ->
    let ms = if mems = "-" then [] else
      L.map (fun m -> match Str_.split_on_char ':' m with
        | [n; v] -> (bytes_of_string n, (if v = "~" then None else Some (bytes_of_hex v)))
        | _ -> failwith "member") (Str_.split_on_char ',' mems) in
    (match Enum.run_members (bits = "1") ms with
     | Outcome.Ok (e, errs) ->
       if errs <> [] then "err" else begin
         let ti = L.sort compare (L.map (fun (n, v) -> (string_of_bytes n, v)) e.Enum.coq_ToInt) in
         let ts = L.sort (fun (a, _) (b, _) -> match BinInt.Z.compare a b with Eq -> 0 | Lt -> -1 | Gt -> 1) e.Enum.coq_ToString in
         let j x = if x = [] then "-" else Str_.concat "," x in
         "ok toint=" ^ j (L.map (fun (n, v) -> n ^ ":" ^ string_of_z v) ti)
         ^ " tostring=" ^ j (L.map (fun (v, n) -> string_of_z v ^ ":" ^ string_of_bytes n) ts)
       end
     | Outcome.Err -> "err" | Outcome.Panic -> "panic" | Outcome.Unmodelled -> "unmodelled")
  | _ -> "bad-case"

let do_num cmd toks =
  match cmd, toks with
  | "less", [v1; f1; n1; v2; f2; n2] ->
    let n = mk_number v1 f1 n1 and m = mk_number v2 f2 n2 in
    b2s (Number.coq_Less n m) ^ " " ^ b2s (Number.coq_Equal n m)
  | "int", [v; f; n] -> show_outcome string_of_z (Number.coq_Int (mk_number v f n))
  | "string", [v; f; n] -> show_outcome hex_of_bytes (Number.coq_String_ (mk_number v f n))
  | "roundtrip", [v; f; ng] ->
    let n = mk_number v f ng in
    (match Number.coq_String_ n with
     | Outcome.Ok str ->
       let r = if n.Number.coq_FractionDigits = Z0 then Number.coq_ParseInt str
               else Number.coq_ParseDecimal str n.Number.coq_FractionDigits in
       (match r with
        | Outcome.Ok m -> "ok " ^ show_number m ^ " " ^ b2s (Number.coq_Equal m n)
        | Outcome.Err -> "err" | Outcome.Panic -> "panic" | Outcome.Unmodelled -> "unmodelled")
     | _ -> "panic")
  | "parseint", [h] -> show_outcome show_number (Number.coq_ParseInt (bytes_of_hex h))
  | "parsedec", [h; fd] -> show_outcome show_number (Number.coq_ParseDecimal (bytes_of_hex h) (z_of_string fd))
  | "asrangeint", [h; lo; hi] -> show_outcome string_of_z (Number.asRangeInt (bytes_of_hex h) (z_of_string lo) (z_of_string hi))
  | "ranges", [y; h; dec; fd] ->
    show_outcome show_range (Range.parseChildRanges (parse_range_tok y) (bytes_of_hex h) (dec = "1") (z_of_string fd))
  | _ -> "bad-case"

let dispatch cmd toks =
  match cmd with
  | "indent" -> do_indent toks
  | "bytes" -> do_bytes toks
  | "less" | "int" | "string" | "roundtrip" | "parseint" | "parsedec" | "asrangeint" | "ranges" -> do_num cmd toks
  | "enum" -> do_enum toks
  | _ -> "unknown-cmd"

let () =
  try
    while true do
      let line = input_line stdin in
      match split_ws line with
      | [] -> print_endline ""
      | cmd :: toks ->
        let out = (try dispatch cmd toks with e -> "model-exn:" ^ Printexc.to_string e) in
        print_endline out
    done
  with End_of_file -> ()
