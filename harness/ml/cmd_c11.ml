open Datatypes
open Drv
(* ---- C11 ---- idres <o2> <o3> <nmods> {module} <nrefs> {ref}
   module: <name> <sub 0|1> <revision> <prefix> <belongs-to> <nimports> {<prefix> <name> <revision-date>}
           <nincludes> {<name> <revision-date>} <nidents> {<name> <nbases> {<base>}}        (in load order)
   ref   : <sub 0|1> <full name> <base>        (an identityref type statement inside that module revision)
   all strings hex ("-" = empty); o2/o3 select the iteration oracles of the two loops over the dictionary.
   output: "err" when an error is reported (or a ref does not resolve), "fuel" when out of fuel, otherwise
           "ok <key>=<decl>=<v>,<v>.. ... | <base decl> ..."  (dictionary key, the declaration filed there, its
           Values; all hex) *)

let coq_ascii_of_char c =
  let n = Char.code c in
  let b i = (n lsr i) land 1 = 1 in
  Ascii.Ascii (b 0, b 1, b 2, b 3, b 4, b 5, b 6, b 7)
let char_of_coq_ascii (Ascii.Ascii (b0, b1, b2, b3, b4, b5, b6, b7)) =
  let v b i = if b then 1 lsl i else 0 in
  Char.chr (v b0 0 + v b1 1 + v b2 2 + v b3 3 + v b4 4 + v b5 5 + v b6 6 + v b7 7)
let coq_string_of s =
  let r = ref String0.EmptyString in
  for i = Str_.length s - 1 downto 0 do r := String0.String (coq_ascii_of_char s.[i], !r) done;
  !r
let rec string_of_coq = function
  | String0.EmptyString -> ""
  | String0.String (c, r) -> Str_.make 1 (char_of_coq_ascii c) ^ string_of_coq r
let raw_of_hex h =
  if h = "-" then "" else
  Str_.init (Str_.length h / 2) (fun i -> Char.chr (hexval h.[2*i] * 16 + hexval h.[2*i+1]))
let hex_of_raw s =
  if s = "" then "-" else
  Str_.concat "" (L.init (Str_.length s) (fun i -> Printf.sprintf "%02x" (Char.code s.[i])))

exception Bad_case

let toks = ref []
let next () = match !toks with [] -> raise Bad_case | t :: r -> toks := r; t
let next_s () = coq_string_of (raw_of_hex (next ()))
let next_i () = int_of_string (next ())
let rec times n f = if n <= 0 then [] else let x = f () in x :: times (n - 1) f

let read_module () =
  let name = next_s () in
  let sub = next () = "1" in
  let rev = next_s () in
  let prefix = next_s () in
  let belongs = next_s () in
  let imports = times (next_i ()) (fun () -> let p = next_s () in let n = next_s () in let d = next_s () in ((p, n), d)) in
  let includes = times (next_i ()) (fun () -> let n = next_s () in let d = next_s () in (n, d)) in
  let idents = times (next_i ()) (fun () ->
    let n = next_s () in
    let bases = times (next_i ()) next_s in
    { Identity.i_name = n; Identity.i_bases = bases }) in
  { Identity.m_name = name; m_sub = sub; m_rev = rev; m_prefix = prefix; m_belongs = belongs; m_imports = imports;
    m_includes = includes; m_idents = idents }

let hexk k = hex_of_raw (string_of_coq k)

let do_idres ts =
  toks := ts;
  try
    let o2 = Identity.oracle (nat_of_int (next_i ())) in
    let o3 = Identity.oracle (nat_of_int (next_i ())) in
    let sc = times (next_i ()) read_module in
    let refs = times (next_i ()) (fun () ->
      let sub = next () = "1" in let m = next_s () in let b = next_s () in (sub, m, b)) in
    if !toks <> [] then "bad-case" else
    match Identity.resolve_identities o2 o3 sc with
    | None -> "fuel"
    | Some r ->
      let bases = L.map (fun (sub, m, b) -> Identity.identityref_base sc r sub m b) refs in
      if r.Identity.r_errors <> [] || L.mem None bases then "err" else begin
        let b = Buffer.create 256 in
        Buffer.add_string b "ok";
        L.iter (fun ((k, dc), vs) ->
          Buffer.add_char b ' '; Buffer.add_string b (hexk k); Buffer.add_char b '=';
          Buffer.add_string b (hexk dc); Buffer.add_char b '=';
          Buffer.add_string b (Str_.concat "," (L.map hexk vs))) (Identity.values_list r);
        Buffer.add_string b " |";
        L.iter (function Some k -> Buffer.add_char b ' '; Buffer.add_string b (hexk k) | None -> ()) bases;
        Buffer.contents b
      end
  with Bad_case | Failure _ -> "bad-case"

let () = register "idres" do_idres
