(* C04: the side condition of theorem C04_T1_choice_clause_side_condition (coq/Spec/C04.v final_applied; a theorem,
   C04_T1_reporting_pass_idle, for module sets with distinct names and orders that visit every module), on a schema in
   the encoding of cmd_schema.ml:   c04side <opts> <n_order> name* <n_modules> module*   ->  "applied=<n>" *)
open Drv
open Schema

let do_side ts =
  Cmd_schema.toks := ts;
  try
    let opts = Cmd_schema.next () in
    let order = Cmd_schema.p_list Cmd_schema.p_str in
    let sc = Cmd_schema.p_list Cmd_schema.p_module in
    let has c = Str_.contains opts c in
    let a = C04.final_applied sc (has 'c') order in
    Printf.sprintf "applied=%d" (int_of_nat a)
  with Cmd_schema.Bad m -> "bad-case:" ^ m

let () = register "c04side" do_side
