(* C04: side conditions of theorem C04_T1_choice_clause_partial (coq/Spec/C04.v), on a schema in the encoding of
   cmd_schema.ml:   c04side <opts> <n_order> name* <n_modules> module*   ->  "applied=<n> heights=ok|cut" *)
open Drv
open Schema

let do_side ts =
  Cmd_schema.toks := ts;
  try
    let opts = Cmd_schema.next () in
    let order = Cmd_schema.p_list Cmd_schema.p_str in
    let sc = Cmd_schema.p_list Cmd_schema.p_module in
    let has c = Str_.contains opts c in
    let a = C04.final_applied sc (has 'c') order in
    let h = C04.heights_okb sc (has 'c') order in
    Printf.sprintf "applied=%d heights=%s" (int_of_nat a) (if h then "ok" else "cut")
  with Cmd_schema.Bad m -> "bad-case:" ^ m

let () = register "c04side" do_side
