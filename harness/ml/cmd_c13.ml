open BinNums
open Datatypes
open Drv
(* ---- C13 ---- registry and file chooser (same case lines as harness/go/c13.go).
   Each command prints the model's observation, then " | " and what the proved specification says
   about the same case (consumed by check/props/c13.py, not compared with the implementation's line). *)

let c13_rev s = if s = "_" then [] else bytes_of_hex s
let split c s = Str_.split_on_char c s
let join sep l = if l = [] then "-" else Str_.concat sep l
let id_of = function None -> "-" | Some h -> string_of_int (int_of_n h.Registry.h_id)
let b01 b = if b then "1" else "0"

(* registry a:<m|s>:<name>:<revs> | f:<m|s>:<name>:<n|r<hex>> *)
let do_registry toks =
  let st = ref Registry.coq_NewModules in
  let prev = ref [] in                      (* headers handed to add so far, in order *)
  let vs = ref [] and fs = ref [] and sv = ref [] and sf = ref [] in
  let names_ok = ref true in
  L.iteri (fun i op ->
    if Str_.length op > 2 && Str_.sub op 0 2 = "t:" then begin
      let hs = L.mapi (fun j h ->
          match split ';' h with
          | [k; n; r] ->
            let name = bytes_of_hex n in
            if not (C13.at_free name) then names_ok := false;
            { Registry.h_id = n_of_int (1000 + 16 * i + j);
              h_kind = (if k = "m" then Registry.KMod else Registry.KSub); h_name = name;
              h_revs = (if r = "-" then [] else L.map c13_rev (split ',' r)) }
          | _ -> failwith "bad-case") (split '+' (Str_.sub op 2 (Str_.length op - 2))) in
      let (st', ok) = Registry.parse_text !st hs in
      st := st';
      vs := b01 ok :: !vs;
      let sok = C13.text_ok !prev hs in
      sv := b01 sok :: !sv;
      if sok then prev := !prev @ hs
    end else
    match split ':' op with
    | [o; k; n; r] ->
      let kind = if k = "m" then Registry.KMod else Registry.KSub in
      let name = bytes_of_hex n in
      if not (C13.at_free name) then names_ok := false;
      if o = "a" then begin
        let revs = if r = "-" then [] else L.map c13_rev (split ',' r) in
        let h = { Registry.h_id = n_of_int i; h_kind = kind; h_name = name; h_revs = revs } in
        let (st', ok) = Registry.add !st h in
        st := st';
        vs := b01 ok :: !vs;
        sv := b01 (C13.spec_ok !prev h) :: !sv;
        prev := !prev @ [h]
      end else begin
        let rev = if r = "n" then None else Some (c13_rev (Str_.sub r 1 (Str_.length r - 1))) in
        fs := id_of (Registry.find !st kind name rev) :: !fs;
        sf := id_of (C13.spec_find !prev kind name rev) :: !sf
      end
    | _ -> failwith "bad-case") toks;
  let dump m =
    let l = L.map (fun (k, h) -> (hex_of_bytes k, string_of_int (int_of_n h.Registry.h_id))) m in
    let l = L.sort compare l in
    join "," (L.map (fun (k, v) -> k ^ ":" ^ v) l) in
  Printf.sprintf "v=%s f=%s M=%s S=%s | names_ok=%s sv=%s sf=%s"
    (join "" (L.rev !vs)) (join "," (L.rev !fs))
    (dump !st.Registry.coq_Modules) (dump !st.Registry.coq_SubModules)
    (b01 !names_ok) (join "" (L.rev !sv)) (join "," (L.rev !sf))

(* tree: (<entry>,...)  entry = F<hex> | D<hex>(<entry>,...) *)
let parse_tree s =
  let i = ref 0 in
  let rec entries () =
    if s.[!i] <> '(' then failwith "tree";
    incr i;
    let acc = ref [] in
    while s.[!i] <> ')' do
      let k = s.[!i] in
      incr i;
      let j = !i in
      while !i < Str_.length s && not (Str_.contains "()," s.[!i]) do incr i done;
      let name = bytes_of_hex (Str_.sub s j (!i - j)) in
      (match k with
       | 'F' | 'L' -> acc := File.File name :: !acc   (* L: symbolic link to a regular file *)
       | 'D' -> let cs = entries () in acc := File.Dir (name, cs) :: !acc
       | _ -> failwith "tree");
      if s.[!i] = ',' then incr i
    done;
    incr i;
    L.rev !acc in
  entries ()

let comps s = if s = "." then [] else L.map bytes_of_hex (split '/' s)
let show_comps l = join "/" (L.map hex_of_bytes l)

(* a path element: comp/comp/... or ".", or r<spelling hex>:<comps> for an element spelled relative to the current
   directory (the components are those of the directory it denotes, below the root); a trailing "+" appends "/..." *)
let path_elem e =
  let n = Str_.length e in
  let dots = n > 0 && e.[n - 1] = '+' in
  let e = if dots then Str_.sub e 0 (n - 1) else e in
  if Str_.length e > 0 && e.[0] = 'r' then
    match split ':' (Str_.sub e 1 (Str_.length e - 1)) with
    | [_; c] -> (comps c, dots)
    | _ -> failwith "bad-case"
  else (comps e, dots)
let spelled_dot e = Str_.length e >= 4 && Str_.sub e 0 4 = "r2e:" && e.[Str_.length e - 1] <> '+'   (* spelled exactly "." *)
let parse_path p = if p = "-" then [] else L.map path_elem (split ';' p)

(* readseq <tree> <cwd> <path> <name>,<name>,... : Modules.Read of each name in turn on one Modules *)
let do_readseq toks =
  match toks with
  | [t; c; p; ns] ->
    let root = File.Dir ([], parse_tree t) in
    let cwd = comps c in
    let path = parse_path p in
    let dot0 = p <> "-" && L.exists spelled_dot (split ';' p) in
    let names = L.map bytes_of_hex (split ',' ns) in
    let st = { File.m_path = path; m_dot = dot0; m_opened = [] } in
    join "," (L.map (function
        | Outcome.Ok l -> if l = [] then "." else show_comps l
        | Outcome.Err -> "-"
        | Outcome.Panic -> "PANIC"
        | Outcome.Unmodelled -> "unmodelled") (File.coq_Read_all root cwd st names))
  | _ -> "bad-case"

let do_findfile toks =
  match toks with
  | [t; c; p; n] ->
    let root = File.Dir ([], parse_tree t) in
    let cwd = comps c in
    let path = parse_path p in
    let name = bytes_of_hex n in
    let where (f : File.found) =
      let i = int_of_nat f.File.f_loc in
      let base = if i = 0 then cwd else fst (L.nth path (i - 1)) in
      show_comps (base @ f.File.f_rel) in
    let m = match File.findFile_fs root cwd path name with
      | Outcome.Ok f -> where f
      | Outcome.Err -> "-"
      | Outcome.Panic -> "PANIC"
      | Outcome.Unmodelled -> "unmodelled" in
    let s = match C13.spec_findFile_fs root cwd path name with
      | Some f -> where f
      | None -> "-" in
    Printf.sprintf "%s | spec=%s nested=%s" m s (b01 (C13.dots_nested_fs root path name))
  | _ -> "bad-case"

(* findtwice <treeA> <treeB> <cwd> <path> <name>: lookup on A; if nothing was found, lookup on A with B's entries added *)
let rec merge_entries (a : File.entry list) (b : File.entry list) : File.entry list =
  L.fold_left (fun acc e ->
      match e with
      | File.Dir (n, cs) when L.exists (function File.Dir (n', _) -> n' = n | _ -> false) acc ->
        L.map (function File.Dir (n', cs') when n' = n -> File.Dir (n', merge_entries cs' cs) | x -> x) acc
      | _ -> acc @ [e]) a b

let do_findtwice toks =
  match toks with
  | [ta; tb; c; p; n] ->
    let a = parse_tree ta in
    let ab = merge_entries a (parse_tree tb) in
    let cwd = comps c in
    let path = parse_path p in
    let name = bytes_of_hex n in
    let look tree =
      match File.findFile_fs (File.Dir ([], tree)) cwd path name with
      | Outcome.Ok f ->
        let i = int_of_nat f.File.f_loc in
        let base = if i = 0 then cwd else fst (L.nth path (i - 1)) in
        show_comps (base @ f.File.f_rel)
      | Outcome.Err -> "-"
      | _ -> "unmodelled" in
    let first = look a in
    let second = if first = "-" then look ab else first in
    first ^ " " ^ second
  | _ -> "bad-case"

let () = register "readseq" do_readseq; register "findtwice" do_findtwice; register "registry" do_registry; register "findfile" do_findfile
