(* C02 / C16: the lexer/parser model on a text *)
open BinNums
open Datatypes
open Drv

(* UTF-8 decoding and encoding are the extracted Model/Utf8.v (the model of utf8.DecodeRuneInString as lexer.next
   uses it, and of utf8.EncodeRune): bytes in, runes out; theorems C02_decode_* are about these very functions *)
let bytes_of_string (s : string) = L.init (Str_.length s) (fun i -> n_of_int (Char.code s.[i]))
let decode_utf8 (s : string) : int list = L.map int_of_n (Utf8.decode (bytes_of_string s))
let encode_utf8 (rs : int list) : string =
  let bs = Utf8.encode (L.map n_of_int rs) in
  let b = Buffer.create 16 in
  L.iter (fun x -> Buffer.add_char b (Char.chr (int_of_n x))) bs;
  Buffer.contents b

let string_of_hex h = if h = "-" then "" else
  Str_.init (Str_.length h / 2) (fun i -> Char.chr (hexval h.[2*i] * 16 + hexval h.[2*i+1]))
let hex_of_string s = if s = "" then "-" else
  Str_.concat "" (L.init (Str_.length s) (fun i -> Printf.sprintf "%02x" (Char.code s.[i])))
let runes_of_hex h = L.map n_of_int (decode_utf8 (string_of_hex h))
let hex_of_runes rs = hex_of_string (encode_utf8 (L.map int_of_n rs))

let rec dump_stmt b (Parse.Stmt (kw, has, arg, ln, cl, _, subs)) =
  Buffer.add_string b (Printf.sprintf "(%s,%d,%s,%s,%s;" (hex_of_runes kw) (if has then 1 else 0) (hex_of_runes arg)
                         (string_of_z ln) (string_of_z cl));
  L.iter (dump_stmt b) subs;
  Buffer.add_char b ')'

let show_err (e : Lex.perr) =
  match e.Lex.e_pos, e.Lex.e_kind with
  | _, Lex.ETooMany -> "toomany"
  | None, _ -> "nopos"
  | Some (l, c), _ -> string_of_z l ^ ":" ^ string_of_z c

let do_parse toks =
  match toks with
  | [h] ->
    let ((ss, es), oof) = Parse.coq_Parse (runes_of_hex h) in
    if oof then "model-out-of-fuel"
    else if es <> [] then "err " ^ Str_.concat "," (L.map show_err es)
    else begin
      let b = Buffer.create 64 in
      Buffer.add_string b "ok ";
      if ss = [] then Buffer.add_char b '-';
      L.iter (dump_stmt b) ss;
      Buffer.contents b
    end
  | _ -> "bad-case"

(* C02: the reference reader (extracted from coq/Spec/C02.v) on a text *)
let rec dump_node b (C02.Node (kw, has, arg, subs)) =
  Buffer.add_string b (Printf.sprintf "(%s,%d,%s;" (hex_of_runes kw) (if has then 1 else 0) (hex_of_runes arg));
  L.iter (dump_node b) subs;
  Buffer.add_char b ')'

let do_specparse toks =
  match toks with
  | [h] ->
    (match C02.spec_parse (runes_of_hex h) with
     | C02.Reject -> "reject"
     | C02.Ambiguous -> "ambiguous"
     | C02.Accept f ->
       let b = Buffer.create 64 in
       Buffer.add_string b "accept ";
       if f = [] then Buffer.add_char b '-';
       L.iter (dump_node b) f;
       Buffer.contents b)
  | _ -> "bad-case"

(* the lexer's rune loop on the bytes of a file: rune:width:line:col:tcol per call of next() until eof *)
let do_lextrace toks =
  match toks with
  | [h] ->
    let bs = bytes_of_string (string_of_hex h) in
    let (tr, ws) = Utf8.lexer_trace bs in
    if L.length tr <> L.length ws then "model-trace-length-mismatch" else
    if tr = [] then "trace -" else
    "trace " ^ Str_.concat "," (L.map2 (fun (r, ((ln, cl), tc)) w ->
       Printf.sprintf "%d:%d:%s:%s:%s" (int_of_n r) (int_of_nat w) (string_of_z ln) (string_of_z cl) (string_of_z tc)) tr ws)
  | _ -> "bad-case"

let () = register "parse" do_parse
let () = register "lextrace" do_lextrace
let () = register "specparse" do_specparse
