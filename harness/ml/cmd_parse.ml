(* C02 / C16: the lexer/parser model on a text *)
open BinNums
open Datatypes
open Drv

(* UTF-8 decoding as Go's utf8.DecodeRuneInString does it (invalid byte => U+FFFD, width 1) *)
let decode_utf8 (s : string) : int list =
  let n = Str_.length s in
  let b i = Char.code s.[i] in
  let cont i = i < n && (b i) land 0xC0 = 0x80 in
  let rec go i acc =
    if i >= n then L.rev acc else
    let c = b i in
    if c < 0x80 then go (i + 1) (c :: acc)
    else if c >= 0xC2 && c <= 0xDF && cont (i + 1) then
      go (i + 2) ((((c land 0x1F) lsl 6) lor (b (i + 1) land 0x3F)) :: acc)
    else if c >= 0xE0 && c <= 0xEF && cont (i + 1) && cont (i + 2) then begin
      let r = ((c land 0x0F) lsl 12) lor ((b (i + 1) land 0x3F) lsl 6) lor (b (i + 2) land 0x3F) in
      if r < 0x800 || (r >= 0xD800 && r <= 0xDFFF) then go (i + 1) (0xFFFD :: acc) else go (i + 3) (r :: acc)
    end
    else if c >= 0xF0 && c <= 0xF4 && cont (i + 1) && cont (i + 2) && cont (i + 3) then begin
      let r = ((c land 0x07) lsl 18) lor ((b (i + 1) land 0x3F) lsl 12) lor ((b (i + 2) land 0x3F) lsl 6)
              lor (b (i + 3) land 0x3F) in
      if r < 0x10000 || r > 0x10FFFF then go (i + 1) (0xFFFD :: acc) else go (i + 4) (r :: acc)
    end
    else go (i + 1) (0xFFFD :: acc) in
  go 0 []

let encode_utf8 (rs : int list) : string =
  let b = Buffer.create 16 in
  L.iter (fun r ->
    if r < 0x80 then Buffer.add_char b (Char.chr r)
    else if r < 0x800 then begin
      Buffer.add_char b (Char.chr (0xC0 lor (r lsr 6))); Buffer.add_char b (Char.chr (0x80 lor (r land 0x3F))) end
    else if r < 0x10000 then begin
      Buffer.add_char b (Char.chr (0xE0 lor (r lsr 12)));
      Buffer.add_char b (Char.chr (0x80 lor ((r lsr 6) land 0x3F)));
      Buffer.add_char b (Char.chr (0x80 lor (r land 0x3F))) end
    else begin
      Buffer.add_char b (Char.chr (0xF0 lor (r lsr 18)));
      Buffer.add_char b (Char.chr (0x80 lor ((r lsr 12) land 0x3F)));
      Buffer.add_char b (Char.chr (0x80 lor ((r lsr 6) land 0x3F)));
      Buffer.add_char b (Char.chr (0x80 lor (r land 0x3F))) end) rs;
  Buffer.contents b

let string_of_hex h = if h = "-" then "" else
  Str_.init (Str_.length h / 2) (fun i -> Char.chr (hexval h.[2*i] * 16 + hexval h.[2*i+1]))
let hex_of_string s = if s = "" then "-" else
  Str_.concat "" (L.init (Str_.length s) (fun i -> Printf.sprintf "%02x" (Char.code s.[i])))
let runes_of_hex h = L.map n_of_int (decode_utf8 (string_of_hex h))
let hex_of_runes rs = hex_of_string (encode_utf8 (L.map int_of_n rs))

let rec dump_stmt b (Parse.Stmt (kw, has, arg, ln, cl, _, subs)) =
  Buffer.add_string b (Printf.sprintf "(%s,%d,%s,%s,%s;" (hex_of_runes kw) (if has then 1 else 0) (hex_of_runes arg)
                         (string_of_z ln) (string_of_z cl));
  L.iter (dump_stmt b) subs;
  Buffer.add_char b ')'

let show_err (e : Lex.perr) =
  match e.Lex.e_pos, e.Lex.e_kind with
  | _, Lex.ETooMany -> "toomany"
  | None, _ -> "nopos"
  | Some (l, c), _ -> string_of_z l ^ ":" ^ string_of_z c

let do_parse toks =
  match toks with
  | [h] ->
    let ((ss, es), oof) = Parse.coq_Parse (runes_of_hex h) in
    if oof then "model-out-of-fuel"
    else if es <> [] then "err " ^ Str_.concat "," (L.map show_err es)
    else begin
      let b = Buffer.create 64 in
      Buffer.add_string b "ok ";
      if ss = [] then Buffer.add_char b '-';
      L.iter (dump_stmt b) ss;
      Buffer.contents b
    end
  | _ -> "bad-case"

(* C02: the reference reader (extracted from coq/Spec/C02.v) on a text *)
let rec dump_node b (C02.Node (kw, has, arg, subs)) =
  Buffer.add_string b (Printf.sprintf "(%s,%d,%s;" (hex_of_runes kw) (if has then 1 else 0) (hex_of_runes arg));
  L.iter (dump_node b) subs;
  Buffer.add_char b ')'

let do_specparse toks =
  match toks with
  | [h] ->
    (match C02.spec_parse (runes_of_hex h) with
     | C02.Reject -> "reject"
     | C02.Ambiguous -> "ambiguous"
     | C02.Accept f ->
       let b = Buffer.create 64 in
       Buffer.add_string b "accept ";
       if f = [] then Buffer.add_char b '-';
       L.iter (dump_node b) f;
       Buffer.contents b)
  | _ -> "bad-case"

let () = register "parse" do_parse
let () = register "specparse" do_specparse
