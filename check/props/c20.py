"""C20 — indenting writer: chunk independence and byte accounting."""
import itertools
import random

import lib

PREFIXES = [b"", b">", b"> ", b"\n", b"-\n"]


def render(prefix, at_start, chunk):
    if not prefix:
        return chunk, at_start
    out = bytearray()
    for c in chunk:
        if at_start:
            out += prefix
        out.append(c)
        at_start = (c == 10)
    return bytes(out), at_start


def compositions(n):
    """all ways to cut a text of length n into non-empty chunks (as cut-point tuples)"""
    for mask in range(1 << max(n - 1, 0)):
        cuts = [0] + [i + 1 for i in range(n - 1) if mask >> i & 1] + [n]
        yield cuts


def histories(text, prefix, with_empty=False):
    n = len(text)
    for cuts in compositions(n):
        chunks = [text[a:b] for a, b in zip(cuts, cuts[1:])] if n else []
        yield chunks
    if with_empty and n:
        yield [b"", text, b""]


def case_line(prefix, calls):
    toks = ["indent", lib.hexs(prefix)]
    for chunk, acc in calls:
        toks += [lib.hexs(chunk), "ok" if acc is None else str(acc)]
    return " ".join(toks)


def expand(prefix, chunks, shorts=True):
    """the all-ok history, and every history that ends in one short write"""
    yield [(c, None) for c in chunks]
    if not shorts:
        return
    at_start = True
    for i, c in enumerate(chunks):
        joined, nxt = render(prefix, at_start, c)
        for n in range(len(joined) + 1):
            yield [(x, None) for x in chunks[:i]] + [(c, n)]
        at_start = nxt


def gen(tier, seed):
    rnd = random.Random(seed)
    maxlen = 5 if tier == "quick" else 8
    cases = []
    for n in range(maxlen + 1):
        for text in itertools.product(b"a\n", repeat=n):
            text = bytes(text)
            for p in PREFIXES:
                if n > 6 and p not in (b"> ",):
                    continue
                for chunks in histories(text, p, with_empty=(n <= 3)):
                    for calls in expand(p, chunks, shorts=(n <= 6)):
                        cases.append(case_line(p, calls))
    # random longer texts, richer alphabets
    for _ in range(2000 if tier == "quick" else 40000):
        n = rnd.randint(1, 40)
        text = bytes(rnd.choice(b"ab \n\n\r\t\x00\xff") for _ in range(n))
        p = rnd.choice(PREFIXES + [b"\t", b"    ", b"ab\nc"])
        cuts = sorted(set([0, n] + [rnd.randint(0, n) for _ in range(rnd.randint(0, 6))]))
        chunks = [text[a:b] for a, b in zip(cuts, cuts[1:])]
        if rnd.random() < 0.2:
            chunks.insert(rnd.randint(0, len(chunks)), b"")
        calls = [(c, None) for c in chunks]
        if rnd.random() < 0.6:
            i = rnd.randrange(len(chunks))
            at = True
            for c in chunks[:i]:
                _, at = render(p, at, c)
            joined, _ = render(p, at, chunks[i])
            calls = calls[:i] + [(chunks[i], rnd.randint(0, len(joined)))]
        cases.append(case_line(p, calls))
    # one-shot functions
    for n in range(0, 7):
        for text in itertools.product(b"a\n", repeat=n):
            for p in PREFIXES:
                cases.append("bytes %s %s" % (lib.hexs(p), lib.hexs(bytes(text))))
    return cases


def nontrivial(c):
    t = c.split()
    if t[0] != "indent" or t[1] == "-":
        return False
    calls = (len(t) - 2) // 2
    short = t[-1] != "ok"
    return ("0a" in "".join(t[2::2])) and (calls >= 2 or short)


def run(res, tier, seed, proof):
    cases = gen(tier, seed)
    go, ml, mism = lib.diff_cases(res, cases)
    nt = len({c for c in cases if nontrivial(c)})
    shorts = sum(1 for c in cases if c.startswith("indent") and c.split()[-1] != "ok")
    cov = dict(
        evaluations=len(cases), distinct_nontrivial=nt,
        rule="exhaustive: texts over {a,LF} up to length %d x 5 prefixes (incl. empty and LF-containing) x all chunkings x "
             "every stop point of every call; plus random longer histories; non-trivial = non-empty prefix, a line break in "
             "the text, and either >=2 Write calls or a short write" % (5 if tier == "quick" else 8),
        exhaustive=False, mismatches=mism,
        distribution=dict(histories_ending_in_short_write=shorts, all_ok_histories=len(cases) - shorts),
        samples=[cases[len(cases) // 3], cases[len(cases) // 2], cases[-300]],
        sample_observations=[go[len(cases) // 3], go[len(cases) // 2]],
    )
    assumptions = ["the underlying io.Writer reports 0 <= n <= len(p) on a short write (histories stop at the first failure)",
                   "bytes.SplitAfter / bytes.Join behave as modelled (split_after, join)"]
    return cov, assumptions


def replay(rep, res):
    c = rep["case"]
    go = lib.run_go([c])[0]
    ml = lib.run_ml([c])[0]
    print("case :", c)
    print("impl :", go)
    print("model:", ml)
    return 0 if go == ml else 1
