"""C20 — indenting writer: chunk independence and byte accounting."""
import itertools
import random

import lib

PREFIXES = [b"", b">", b"> ", b"\n", b"-\n"]
# prefixes that mean something to printf, regexp replacement templates, path or shell expansion
ODD_PREFIXES = [b"$$ ", b"$1", b"${0}", b"$HOME> ", b"%s ", b"%d%%", b"\\1", b"\\n", b"&", b"$", b"\x00", b"\r", b"\r\n", b"\xff\xfe"]


def render(prefix, at_start, chunk):
    if not prefix:
        return chunk, at_start
    out = bytearray()
    for c in chunk:
        if at_start:
            out += prefix
        out.append(c)
        at_start = (c == 10)
    return bytes(out), at_start


def compositions(n):
    """all ways to cut a text of length n into non-empty chunks (as cut-point tuples)"""
    for mask in range(1 << max(n - 1, 0)):
        cuts = [0] + [i + 1 for i in range(n - 1) if mask >> i & 1] + [n]
        yield cuts


def histories(text, prefix, with_empty=False):
    n = len(text)
    for cuts in compositions(n):
        chunks = [text[a:b] for a, b in zip(cuts, cuts[1:])] if n else []
        yield chunks
    if with_empty and n:
        yield [b"", text, b""]


def case_line(prefix, calls, modes=None):
    """modes: per call "" (Write), "S" (io.WriteString) or "R" (io.Copy from a reader without WriteTo; never for an
    empty chunk, for which io.Copy makes no call at all)"""
    toks = ["indent", lib.hexs(prefix)]
    for i, (chunk, acc) in enumerate(calls):
        m = modes[i] if modes else ""
        if m == "R" and not chunk:
            m = ""
        toks += [m + lib.hexs(chunk), "ok" if acc is None else str(acc)]
    return " ".join(toks)


def short_kinds(line):
    """the same history with its short write reported as io.ErrShortWrite ("s<n>")"""
    t = line.split()
    if len(t) < 4 or not t[-1].lstrip("-").isdigit():
        return None
    return " ".join(t[:-1] + ["s" + t[-1]])


def expand(prefix, chunks, shorts=True):
    """the all-ok history, and every history that ends in one short write"""
    yield [(c, None) for c in chunks]
    if not shorts:
        return
    at_start = True
    for i, c in enumerate(chunks):
        joined, nxt = render(prefix, at_start, c)
        for n in range(len(joined) + 1):
            yield [(x, None) for x in chunks[:i]] + [(c, n)]
        at_start = nxt


def gen(tier, seed):
    rnd = random.Random(seed)
    maxlen = 5 if tier == "quick" else 8
    cases = []
    for n in range(maxlen + 1):
        for text in itertools.product(b"a\n", repeat=n):
            text = bytes(text)
            for p in PREFIXES:
                if n > 6 and p not in (b"> ",):
                    continue
                for chunks in histories(text, p, with_empty=(n <= 3)):
                    for calls in expand(p, chunks, shorts=(n <= 6)):
                        cases.append(case_line(p, calls))
                        if n <= 4 and p in (b"> ", b"-\n"):
                            # the same history handed over with io.WriteString and with io.Copy
                            cases.append(case_line(p, calls, ["S"] * len(calls)))
                            cases.append(case_line(p, calls, ["R"] * len(calls)))
    # random longer texts, richer alphabets
    for _ in range(2000 if tier == "quick" else 40000):
        n = rnd.randint(1, 40)
        text = bytes(rnd.choice(b"ab \n\n\r\t\x00\xff") for _ in range(n))
        p = rnd.choice(PREFIXES + [b"\t", b"    ", b"ab\nc"])
        cuts = sorted(set([0, n] + [rnd.randint(0, n) for _ in range(rnd.randint(0, 6))]))
        chunks = [text[a:b] for a, b in zip(cuts, cuts[1:])]
        if rnd.random() < 0.2:
            chunks.insert(rnd.randint(0, len(chunks)), b"")
        calls = [(c, None) for c in chunks]
        if rnd.random() < 0.6:
            i = rnd.randrange(len(chunks))
            at = True
            for c in chunks[:i]:
                _, at = render(p, at, c)
            joined, _ = render(p, at, chunks[i])
            calls = calls[:i] + [(chunks[i], rnd.randint(0, len(joined)))]
        cases.append(case_line(p, calls, [rnd.choice(["", "", "S", "R"]) for _ in calls]))
    # long single writes (several KiB, many lines), all-ok and stopping short anywhere in the output
    for k in range(12 if tier == "quick" else 120):
        n = rnd.choice([4095, 4096, 4097, 8191, 8192, 8193, 9000, 12289]) if k < 8 else rnd.randint(3000, 14000)
        text = bytes(rnd.choice(b"abcdefgh \n") for _ in range(n))
        p = rnd.choice([b"> ", b"\t", b"    "])
        pre = bytes(rnd.choice(b"ab\n") for _ in range(rnd.randint(0, 3)))
        calls = [(pre, None)] if pre else []
        at = True
        for c, _ in calls:
            _, at = render(p, at, c)
        joined, _ = render(p, at, text)
        if k % 3 == 0:
            calls.append((text, None))
            calls.append((b"x\ny", None))
        else:
            calls.append((text, rnd.randint(0, len(joined)) if k % 3 == 1 else rnd.randint(min(4000, len(joined)), len(joined))))
        cases.append(case_line(p, calls))
    # very long lines (around 4096 bytes, the usual buffer size) handed over in every mode, from a line start and mid-line
    for linelen in (4095, 4096, 4097, 9000):
        for mode in ("", "S", "R"):
            for pre in (b"", b"ab"):
                text = b"x" * linelen + b"\n" + b"y" * 10 + b"\nz"
                calls = ([(pre, None)] if pre else []) + [(text, None), (b"t\n", None)]
                cases.append(case_line(b"--", calls, [mode] * len(calls)))
                joined, _ = render(b"--", not pre, text)
                for stop in (0, 1, 2, 3, linelen, linelen + 3, len(joined) - 1):
                    c2 = ([(pre, None)] if pre else []) + [(text, stop)]
                    cases.append(case_line(b"--", c2, [mode] * len(c2)))
    # one Write holding many lines (10-40), ending in a line break or not, as the last thing written or followed by more
    for nlines in list(range(10, 41)) if tier != "quick" else [10, 15, 16, 17, 18, 19, 31, 32, 33, 40]:
        for final_lf in (True, False):
            for p in (b"--", b"> "):
                text = b"".join(b"line %d\n" % i for i in range(nlines))
                if not final_lf:
                    text = text[:-1]
                for pre in (b"", b"part"):
                    for post in (None, b"x", b"\n", b"y\n"):
                        calls = ([(pre, None)] if pre else []) + [(text, None)] + ([(post, None)] if post is not None else [])
                        cases.append(case_line(p, calls))
                cases.append("bytes %s %s" % (lib.hexs(p), lib.hexs(text)))
    # two writers stacked (the library's printers nest one per level): head through the lower writer, a fresh upper
    # writer, every chunking of the text through it, a tail through the lower one
    def op(which, chunk, acc=None):
        return [which, lib.hexs(chunk), "ok" if acc is None else str(acc)]
    for head in (b"", b"h", b"h\n"):
        for n in range(0, 4 if tier == "quick" else 6):
            for text in itertools.product(b"a\n", repeat=n):
                text = bytes(text)
                for p1, p2 in ((b"A>", b"B>"), (b"A>", b""), (b"", b"B>"), (b"-\n", b"B>")):
                    if n > 3 and (p1, p2) != (b"A>", b"B>"):
                        continue
                    for chunks in histories(text, p2):
                        for tail in (b"", b" t\nu"):
                            toks = ["indent2", lib.hexs(p1), lib.hexs(p2)]
                            if head:
                                toks += op("L", head)
                            toks += ["N"]
                            for c in chunks:
                                toks += op("U", c)
                            if tail:
                                toks += op("L", tail)
                            cases.append(" ".join(toks))
    for _ in range(1500 if tier == "quick" else 30000):
        p1 = rnd.choice([b"A>", b"> ", b"", b"\n", b"  "])
        p2 = rnd.choice([b"B>", b"\t", b"", b"-\n"])
        toks = ["indent2", lib.hexs(p1), lib.hexs(p2)]
        k = rnd.randint(1, 7)
        at1 = at2 = True
        for i in range(k):
            r = rnd.random()
            if r < 0.15:
                toks += ["N"]
                at2 = True
                continue
            which = "U" if r < 0.65 else "L"
            chunk = bytes(rnd.choice(b"ab\n\n\xff") for _ in range(rnd.randint(0, 5)))
            down = chunk
            if which == "U":
                down, at2 = render(p2, at2, chunk)
            joined, nat1 = render(p1, at1, down)
            if i == k - 1 and rnd.random() < 0.5:
                toks += op(which, chunk, rnd.randint(0, len(joined)))
            else:
                toks += op(which, chunk)
            at1 = nat1
        cases.append(" ".join(toks))
    # one-shot functions: String and Bytes on arbitrary bytes (invalid UTF-8 included) and long texts
    for _ in range(600 if tier == "quick" else 6000):
        n = rnd.randint(1, 30) if rnd.random() < 0.9 else rnd.randint(200, 3000)
        text = bytes(rnd.choice(b"a\n\n\r\x80\xff\xc3\xa9\xe2\x82\xed\xa0\xf4\x90") for _ in range(n))
        p = rnd.choice(PREFIXES[1:] + [b"\xff", b"\xc3\xa9 "])
        cases.append("bytes %s %s" % (lib.hexs(p), lib.hexs(text)))
    # odd prefixes: one-shot functions and writer, every chunking of short texts
    for p in ODD_PREFIXES:
        for text in (b"x", b"x\n", b"a\nb", b"a\n\nb\n", b"$1\n$$\n", b"%s\n"):
            cases.append("bytes %s %s" % (lib.hexs(p), lib.hexs(text)))
            for chunks in histories(text, p):
                cases.append(case_line(p, [(c, None) for c in chunks]))
            joined, _ = render(p, True, text)
            for n in range(len(joined) + 1):
                cases.append(case_line(p, [(text, n)]))
    # one-shot functions
    for n in range(0, 7):
        for text in itertools.product(b"a\n", repeat=n):
            for p in PREFIXES:
                cases.append("bytes %s %s" % (lib.hexs(p), lib.hexs(bytes(text))))
    return cases


def nontrivial(c):
    t = c.split()
    if t[0] == "indent2":
        return t[1] != "-" and t[2] != "-" and "U" in t and "0a" in c
    if t[0] != "indent" or t[1] == "-":
        return False
    calls = (len(t) - 2) // 2
    short = t[-1] != "ok"
    return ("0a" in "".join(t[2::2])) and (calls >= 2 or short)


def run(res, tier, seed, proof):
    cases = gen(tier, seed)
    # every third history that ends in a short write also with the failure reported as io.ErrShortWrite
    extra = [short_kinds(c) for i, c in enumerate(cases) if i % 3 == 0 and c.startswith("indent")]
    cases += [c for c in extra if c]
    go, ml, mism = lib.diff_cases(res, cases)
    nt = len({c for c in cases if nontrivial(c)})
    shorts = sum(1 for c in cases if c.startswith("indent") and c.split()[-1] not in ("ok", "N"))
    cov = dict(
        evaluations=len(cases), distinct_nontrivial=nt,
        rule="exhaustive: texts over {a,LF} up to length %d x 5 prefixes (incl. empty and LF-containing) x all chunkings x "
             "every stop point of every call; plus random longer histories, single writes of 3-14 KiB, two stacked writers "
             "(head / fresh upper writer / every chunking / tail, and random interleavings ending in a short write), chunks "
             "handed over with Write, io.WriteString and io.Copy, lines of about 4096 bytes, odd prefixes, and "
             "String/Bytes on arbitrary bytes incl. invalid UTF-8; non-trivial = non-empty prefix, a line break in "
             "the text, and either >=2 Write calls or a short write" % (5 if tier == "quick" else 8),
        exhaustive=False, mismatches=mism,
        distribution=dict(histories_ending_in_short_write=shorts, all_ok_histories=len(cases) - shorts,
                          stacked_writer_histories=sum(1 for c in cases if c.startswith("indent2")),
                          one_shot_cases=sum(1 for c in cases if c.startswith("bytes")),
                          writes_longer_than_4KiB=sum(1 for c in cases if c.startswith("indent ") and len(c) > 8300)),
        samples=[cases[len(cases) // 3], cases[len(cases) // 2], cases[-300]],
        sample_observations=[go[len(cases) // 3], go[len(cases) // 2]],
    )
    assumptions = ["the underlying io.Writer reports 0 <= n <= len(p) on a short write (histories stop at the first failure)",
                   "bytes.SplitAfter / bytes.Join behave as modelled (split_after, join)"]
    return cov, assumptions


def replay(rep, res):
    c = rep["case"]
    go = lib.run_go([c])[0]
    ml = lib.run_ml([c])[0]
    print("case :", c)
    print("impl :", go)
    print("model:", ml)
    return 0 if go == ml else 1
