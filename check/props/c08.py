"""C08 — deviations change exactly what they name, in written order, or are reported.

Three checks per generated module set (base modules + deviating modules):
 (i)   correspondence: Process of the implementation (harness/go `process`, canonical dump) against the extracted
       model (Schema.Process, OCaml `resolve`): same verdict, same forest;
 (ii)  frame, on the implementation alone: the same base modules are processed without the deviating modules (or, for
       random schemas, with the deviation statements left out); every node that is not a deviation target and not
       below a target declared not-supported must be identical in both dumps (all dumped attributes; for nodes below
       a target that stays: all but the inherited read-only flag); nodes only the deviated run has must be rpc
       input/output nodes that a deviation path names (Find creates those on demand);
 (iii) reference, on the implementation: the extracted Coq reference (Spec/C08.v spec_deviate folded in written order,
       OCaml `c08spec`) is applied to the target nodes of the UNDEVIATED dump, deviation by deviation; it must
       predict the verdict (reported / clean) of the deviated run and every named property of every target in the
       deviated dump (or its absence).  Excluded exactly as in the theorems: delete of units/type (outside the
       claim) and delete of a leaf-list default (the library refuses with an error: accepted as "reported").
       Deleting a min-/max-elements statement that is absent (D45, repaired) must be REPORTED by reference, model
       and implementation alike: the generator keeps producing it.
 A text-level family (gen_type_cases; no model run: the model's types are opaque names) has replacement types that are
 whole type statements; checks (ii) and (iii) apply with the reference's parameter [resolvable] instantiated by the
 generator's classification of each statement (OCaml `c08specr`), the target's full dumped type is compared with the
 same statement on an ordinary leaf, and every such module set is also processed twice (check_type_repeat).
"""
import itertools
import json
import random

import lib
from props import schema_gen as sg

MAXU64 = sg.MAXU64


# ------------------------------------------------------------------ base schemas with known targets
def mod(name, prefix, imports=(), body=(), augments=(), deviations=()):
    return dict(name=name, prefix=prefix, ns="urn:" + name, belongs=None, imports=list(imports), includes=[],
                body=list(body), augments=list(augments), deviations=list(deviations))


def base_schema(rnd, mode):
    """module b (tree with every kind of target, a grouping used twice, rpcs) + module a (augments b).
    mode 0: no optional property written, 1: all written, 2: random.  Returns (modules, targets);
    target = dict(steps, pfx (prefix per step), kind, src (source node or None))"""
    def opt(vals):
        if mode == 0:
            return None
        if mode == 1:
            return vals[0]
        return rnd.choice([None] + list(vals))

    def leaf(n):
        return ("leaf", n, rnd.choice(["string", "uint16"]), opt([True, False]), opt([False, True]), opt(["d1", "d2", ""]), opt(["u0", ""]))

    def lst(n):
        return ("list", n, "k", opt([False, True]), opt([2, 0, 1]), opt([5, MAXU64, 9]),
                [("leaf", "k", "string", None, None, None, None), leaf("v")])

    def ll(n):
        nd = 0 if mode == 0 else (2 if mode == 1 else rnd.choice([0, 1, 2]))
        dl = ["d1", "d2"] if mode != 2 else rnd.choice([["d1", "d2"], ["", "d2"], ["d1", ""]])
        return ("leaflist", n, "string", opt([True, False]), dl[:nd], opt([2, 0, 1]), opt([5, MAXU64, 9]))

    def choice(n, sh, cs, cl):
        return ("choice", n, opt([True, False]), opt([False, True]) if mode != 1 else None, opt([cs]),
                [leaf(sh), ("case", cs, [leaf(cl)])])
    g = ("grouping", 1, "g", [leaf("gx"), lst("gl"), ll("gll"), choice("gch", "gs", "gcs", "gz"),
                              ("container", "gc", opt([False, True]), [leaf("gy")])])
    top = ("container", "top", opt([True, False]),
           [leaf("x"), lst("l"), ll("ll"), ("container", "in", opt([False, True]), [leaf("y"), ll("yl")]),
            choice("ch", "a", "cb", "b"), ("any", False, "ad", opt([True, False]), opt([False, True])),
            ("rpc", True, "ping", [leaf("count")], None)])
    b = mod("b", "b", body=[g, top, ("container", "c1", None, [("uses", "g")]), ("container", "c2", None, [("uses", "g")]),
                            ("rpc", False, "r", [leaf("ri"), lst("rl")], [leaf("ro")]), ("rpc", False, "r2", None, None),
                            ("notification", "nt", [leaf("nx")])])
    aug_body = [leaf("ax"), lst("al"), ("container", "ac", opt([True, False]), [leaf("ay")])]
    a = mod("a", "a", imports=[("b", "b")], augments=[("/b:top", aug_body)])
    # ordered-by on the lists and leaf-lists (the model does not have it: it is compared between the implementation's
    # runs with and without the deviating modules)
    for m_, names in ((b, ["l", "ll", "gl", "gll", "rl", "yl"]), (a, ["al"])):
        ob = {}
        for nm in names:
            v = None if mode == 0 else ("user" if mode == 1 else rnd.choice([None, "user", "user", "system"]))
            if v:
                ob[nm] = v
        m_["ordered_by"] = ob
    T = []

    def t(steps, kind, src, pfx=None):
        T.append(dict(steps=steps, kind=kind, src=src, pfx=pfx or ["b"] * len(steps)))
    tb = top[3]
    t(["top"], "container", top)
    t(["top", "x"], "leaf", tb[0])
    t(["top", "l"], "list", tb[1])
    t(["top", "l", "v"], "leaf", tb[1][6][1])
    t(["top", "ll"], "leaflist", tb[2])
    t(["top", "in"], "container", tb[3])
    t(["top", "in", "y"], "leaf", tb[3][3][0])
    t(["top", "in", "yl"], "leaflist", tb[3][3][1])
    t(["top", "ch"], "choice", tb[4])
    t(["top", "ch", "a"], "case", None)                       # implicit case
    t(["top", "ch", "a", "a"], "leaf", tb[4][5][0])           # leaf inside the implicit case
    t(["top", "ch", "cb"], "case", tb[4][5][1])
    t(["top", "ch", "cb", "b"], "leaf", tb[4][5][1][2][0])
    t(["top", "ad"], "any", tb[5])
    t(["r"], "rpc", None)
    t(["r", "input"], "input", None)
    t(["r", "output"], "output", None)
    t(["r", "input", "ri"], "leaf", b["body"][4][3][0])
    t(["r", "input", "rl"], "list", b["body"][4][3][1])
    t(["r", "output", "ro"], "leaf", b["body"][4][4][0])
    t(["r2", "input"], "input", None)                         # implicit: created on demand by the lookup
    t(["r2", "output"], "output", None)
    t(["nt", "nx"], "leaf", b["body"][6][2][0])
    t(["top", "ping"], "rpc", None)                           # an action
    t(["top", "ping", "input"], "input", None)
    t(["top", "ping", "input", "count"], "leaf", tb[6][3][0])
    t(["top", "ping", "output"], "output", None)              # implicit
    # below an rpc or action there are input and output only: a path that leaves the step out, or puts something else
    # there, names nothing
    # a path that leaves out a choice and/or case step in front of an existing node names nothing either
    t(["top", "b"], "missing", None)              # for top/ch/cb/b
    t(["top", "ch", "b"], "missing", None)
    t(["top", "cb", "b"], "missing", None)
    t(["top", "a"], "missing", None)              # shorthand member without choice and implied case
    t(["top", "ch", "a", "b"], "missing", None)
    t(["c1", "gs"], "missing", None)              # for c1/gch/gs/gs
    t(["c1", "gz"], "missing", None)              # for c1/gch/gcs/gz
    t(["c2", "gch", "gz"], "missing", None)
    t(["r", "ri"], "missing", None)
    t(["r", "rl", "v"], "missing", None)
    t(["r", "params", "input", "ri"], "missing", None)
    t(["r", "input", "input", "ri"], "missing", None)
    t(["r2", "zz"], "missing", None)
    t(["top", "ping", "count"], "missing", None)
    t(["top", "ping", "x", "output"], "missing", None)
    gb = g[3]
    for inst in ("c1", "c2"):
        t([inst, "gx"], "leaf", gb[0])
        t([inst, "gl"], "list", gb[1])
        t([inst, "gll"], "leaflist", gb[2])
        t([inst, "gch"], "choice", gb[3])
        t([inst, "gch", "gs", "gs"], "leaf", gb[3][5][0])
        t([inst, "gc"], "container", gb[4])
        t([inst, "gc", "gy"], "leaf", gb[4][3][0])
    t(["top", "ax"], "leaf", aug_body[0], ["b", "a"])
    t(["top", "al"], "list", aug_body[1], ["b", "a"])
    t(["top", "ac"], "container", aug_body[2], ["b", "a"])
    t(["top", "ac", "ay"], "leaf", aug_body[2][3][0], ["b", "a", "a"])
    t(["nope"], "missing", None)
    t(["top", "x", "deep"], "missing", None)
    # a first prefix the deviating module does not know (typo; the module NAME where the import binds another prefix):
    # no target; a later step with such a prefix is looked up by name alone
    t(["top", "x"], "missing", None, ["zz", "b"])
    t(["top"], "missing", None, ["base"])
    t(["c1", "gx"], "missing", None, ["bb", "bb"])
    t(["top", "x"], "leaf", tb[0], ["b", "zz"])
    t(["top", "l"], "list", tb[1], ["b", "nosuch"])
    return [b, a], T


def tpath(t):
    return "/" + "/".join("%s:%s" % (p, s) for p, s in zip(t["pfx"], t["steps"]))


def written(t):
    """(min-elements written, max-elements written) on the source node of a target"""
    s = t["src"]
    if s is None:
        return (False, False)
    if s[0] == "list":
        return (s[4] is not None, s[5] is not None)
    if s[0] == "leaflist":
        return (s[5] is not None, s[6] is not None)
    return (False, False)


PROPS = ["cfg", "mand", "default", "min", "max", "units", "type"]


def cur_value(t, prop):
    s = t["src"]
    if s is None:
        return None
    k = s[0]
    if prop == "cfg":
        i = {"leaf": 3, "leaflist": 3, "container": 2, "list": 3, "choice": 2, "any": 3}.get(k)
        return s[i] if i is not None else None
    if prop == "mand":
        return s[4] if k in ("leaf", "any") else (s[3] if k == "choice" else None)
    if prop == "default":
        if k == "leaf":
            return s[5]
        if k == "leaflist":
            return s[4][0] if s[4] else None
        if k == "choice":
            return s[4]
        return None
    if prop == "min":
        return s[4] if k == "list" else (s[5] if k == "leaflist" else None)
    if prop == "max":
        return s[5] if k == "list" else (s[6] if k == "leaflist" else None)
    if prop == "type":
        return s[2] if k in ("leaf", "leaflist") else None
    return None


def value_for(t, prop, rel, rnd):
    """a value for the property that is equal to / different from the current one (or what an absent one stands for)"""
    c = cur_value(t, prop)
    if prop in ("cfg", "mand"):
        base = c if c is not None else True
        return base if rel == "equal" else (not base)
    if prop == "default":
        if rel == "equal":
            return c if c is not None else rnd.choice(["d1", "d1", ""])
        return rnd.choice(["zz", "zz", ""]) if c != "" else "zz"
    if prop == "min":
        return (c if c is not None else 0) if rel == "equal" else ((c or 0) + 1)
    if prop == "max":
        return (c if c is not None else MAXU64) if rel == "equal" else (7 if c != 7 else 8)
    if prop == "units":
        return "u0" if rel == "equal" else rnd.choice(["u9", "u9", ""])
    if prop == "type":
        if rel == "equal":
            return c or "string"
        return rnd.choice(["uint8", "boolean", "int32"])
    raise ValueError(prop)


def deviate(kind, **kw):
    d = dict(kind=kind)
    d.update(kw)
    return d


def random_deviate(t, rnd, p_ns=0.15, p_bad=0.04):
    r = rnd.random()
    if r < p_ns:
        return deviate("not-supported")
    kind = rnd.choice(["add", "replace", "delete", "delete", "add"])
    if rnd.random() < p_bad:
        kind = rnd.choice(["bogus", "remove"])
    d = deviate(kind)
    for prop in rnd.sample(PROPS, rnd.choice([1, 1, 2])):
        if prop in ("units", "type") and kind == "delete" and rnd.random() < 0.8:
            prop = rnd.choice(["cfg", "default", "min", "max"])
        d[prop] = value_for(t, prop, rnd.choice(["equal", "different"]), rnd)
    if "type" in d and rnd.random() < 0.1:
        d["type"] = "nope"
    if "max" in d and rnd.random() < 0.03:
        d["max"] = 0
    return d


# ------------------------------------------------------------------ typedef defaults (YANG text)
TYPEDEF_BASE = """module t {
  namespace "urn:t";
  prefix t;
  typedef td1 { type string; default "tdef"; units "tu"; }
  typedef td2 { type td1; }
  typedef td3 { type uint8; }
  typedef td4 { type td3; default "7"; }
  typedef td5 { type string; default ""; }
  container c {
    leaf a { type td1; }
    leaf b { type td2; default "own"; }
    leaf c3 { type td3; }
    leaf d { type td4; }
    leaf e { type string; default ""; }
    leaf g { type td1; default ""; }
    leaf h { type td5; }
    leaf i { type td2; units "ou"; }
    leaf-list f { type td1; }
    leaf-list k { type td4; default "1"; default "2"; }
  }
}
"""
# (name, own default, default of the type chain, leaf-list)
TYPEDEF_LEAVES = [("a", None, "tdef", False), ("b", "own", "tdef", False), ("c3", None, None, False), ("d", None, "7", False),
                  ("e", "", None, False), ("g", "", "tdef", False), ("h", None, "", False), ("i", None, "tdef", False),
                  ("f", None, "tdef", True), ("k", "1", "7", True)]


# ------------------------------------------------------------------ revisions of the deviating module
def gen_revision_cases(tier, seed):
    """base + one deviating module in 2-3 revisions with different deviation sets, all loaded, every load order.
    Expectation by construction: the result is what base + the most recent revision alone yield."""
    rnd = random.Random(seed * 104729 + 3)
    out = []
    n = 25 if tier == "quick" else 300
    for i in range(n):
        base, T = base_schema(rnd, rnd.choice([0, 1, 2, 2]))
        real = [x for x in T if x["kind"] != "missing"]
        nrev = rnd.choice([2, 2, 3])
        dates = rnd.sample(["2017-03-01", "2018-12-31", "2019-01-01", "2020-06-15", "2021-02-28"], nrev)
        shared = rnd.choice(real)
        revs = []
        for k, date in enumerate(dates):
            devs = []
            for _ in range(rnd.choice([1, 2])):
                t = rnd.choice(real)
                if rnd.random() < 0.8:
                    # always applicable, and visible in the tree
                    prop = rnd.choice(["cfg", "mand", "default", "units"])
                    dvs = [deviate("replace", **{prop: {"cfg": rnd.random() < 0.5, "mand": rnd.random() < 0.5,
                                                        "default": "r%d" % k, "units": "ru%d" % k}[prop]})]
                else:
                    # readable statements only: an unreadable one is reported when its text is converted, superseded or not
                    dvs = []
                    while len(dvs) < rnd.choice([1, 2]):
                        d = random_deviate(t, rnd)
                        if d["kind"] in ("add", "replace", "delete", "not-supported") and d.get("type") != "nope" and d.get("max") != 0:
                            dvs.append(d)
                devs.append((tpath(t), dvs))
            if rnd.random() < 0.5:
                # the same statement in every revision: applying it twice is an error (add default) or removes twice
                devs.append((tpath(shared), [rnd.choice([deviate("not-supported"), deviate("add", default="sd"),
                                                         deviate("add", units="su")])]))
            m = devmod("dv", devs)
            m["revision"] = date
            m["file"] = "dv@%s.yang" % date
            revs.append(m)
        newest = max(revs, key=lambda m: m["revision"])
        orders = list(itertools.permutations(range(len(base) + nrev)))
        if len(orders) > 8:
            orders = rnd.sample(orders, 8)
        for order in orders:
            out.append(dict(base=base, revs=revs, newest=revs.index(newest), order=list(order), opts="-",
                            info=dict(g="revisions")))
    return out


def check_revision_cases(res, rcases, report=3):
    stats = dict(revision_runs=0, revision_ok=0, revision_err=0)
    lines, exp_lines, exp_idx = [], [], {}
    for c in rcases:
        mods = c["base"] + c["revs"]
        lines.append(go_line([mods[i] for i in c["order"]], c["opts"]))
        e = go_line(c["base"] + [c["revs"][c["newest"]]], c["opts"])
        if e not in exp_idx:
            exp_idx[e] = len(exp_lines)
            exp_lines.append(e)
        c["_exp"] = e
    got = lib.run_go(lines)
    exp = lib.run_go(exp_lines)
    nviol = 0
    for c, g in zip(rcases, got):
        stats["revision_runs"] += 1
        st, _, dump = sg.canon_go(g)
        est, _, edump = sg.canon_go(exp[exp_idx[c["_exp"]]])
        stats["revision_ok" if st == "ok" else "revision_err"] += 1
        what = None
        if st not in ("ok", "err") or est not in ("ok", "err"):
            what = "revisions: implementation neither processed nor reported: %s / %s" % (g[:200], exp[exp_idx[c["_exp"]]][:200])
        elif st != est:
            what = "revisions of a deviating module: all revisions loaded => %s, base + most recent revision alone => %s" % (st, est)
        elif st == "ok":
            names = {m["name"] for m in c["base"]}
            a = {m["name"]: sg.canon_go_node(m["tree"]) for m in dump["runs"][-1]["modules"] if m["name"] in names and not m["sub"]}
            b = {m["name"]: sg.canon_go_node(m["tree"]) for m in edump["runs"][-1]["modules"] if m["name"] in names and not m["sub"]}
            if a != b:
                mn = [k for k in a if a.get(k) != b.get(k)][0]
                what = "revisions of a deviating module: tree of %s differs from what the most recent revision alone yields: %s vs %s" % (
                    mn, a[mn][:300], b.get(mn, "")[:300])
        if what:
            nviol += 1
            if nviol <= report:
                res.violation(what, dict(kind="c08-rev", what=what,
                                         case=dict(base=c["base"], revs=c["revs"], newest=c["newest"], order=c["order"], opts=c["opts"],
                                                   info=c["info"])))
    return stats, nviol


# ------------------------------------------------------------------ modules found through the search path
def gen_path_cases(tier, seed):
    """the deviations stand in a (sub)module that is not read explicitly but found by Process through an include or
    import and the search path; expectation by construction: the result of reading everything explicitly"""
    rnd = random.Random(seed * 7001 + 11)
    out = []
    for i in range(40 if tier == "quick" else 500):
        base, T = base_schema(rnd, rnd.choice([0, 1, 2, 2]))
        real = [x for x in T if x["kind"] != "missing"]
        devs = []
        for _ in range(rnd.choice([1, 2, 3])):
            t = rnd.choice(real)
            if rnd.random() < 0.7:
                prop = rnd.choice(["cfg", "mand", "default", "units"])
                dvs = [deviate("replace", **{prop: {"cfg": rnd.random() < 0.5, "mand": rnd.random() < 0.5,
                                                    "default": "pd", "units": "pu"}[prop]})]
            else:
                dvs = [random_deviate(t, rnd)]
            devs.append((tpath(t), dvs))
        if rnd.random() < 0.5:
            devs.append((tpath(next(x for x in real if x["steps"] == ["top", "ch", "a", "a"])), [deviate("replace", default="ic")]))
        variant = rnd.choice(["sub", "sub", "imported", "base-by-path"])
        imports = [("b", "b"), ("a", "a")]
        if variant == "sub":
            d1 = mod("d1", "d1", imports=imports)
            d1["includes"] = ["d1s"]
            sub = dict(mod("d1s", "d1", imports=imports, deviations=devs), ns="", belongs="d1")
            mods, ops = base + [d1, sub], ["L", "L", "L", "D"]
            if rnd.random() < 0.3:
                ops = ["D", "D", "L", "D"]
        elif variant == "imported":
            d1 = mod("d1", "d1", imports=imports, deviations=devs)
            x = mod("x", "x", imports=[("d1", "d1")], body=[("leaf", "xl", "string", None, None, None, None)])
            mods, ops = base + [d1, x], rnd.choice([["D", "D", "D", "L"], ["L", "L", "D", "L"]])
        else:
            d1 = mod("d1", "d1", imports=imports, deviations=devs)
            mods, ops = base + [d1], rnd.choice([["D", "D", "L"], ["D", "L", "L"]])
        out.append(dict(mods=mods, ops=ops, opts="-", info=dict(g="search-path", variant=variant)))
    return out


def check_path_cases(res, pcases, report=3):
    stats = dict(path_runs=0, path_ok=0)
    a = lib.run_go([go_line(c["mods"], c["opts"], ops=c["ops"]) for c in pcases])
    b = lib.run_go([go_line(c["mods"], c["opts"]) for c in pcases])
    nviol = 0
    for c, g, e in zip(pcases, a, b):
        stats["path_runs"] += 1
        st, _, dump = sg.canon_go(g)
        est, _, edump = sg.canon_go(e)
        what = None
        if st not in ("ok", "err") or est not in ("ok", "err"):
            what = "search path: implementation neither processed nor reported: %s / %s" % (g[:200], e[:200])
        elif st != est:
            what = "modules found through the search path (%s, %s): %s; all read explicitly: %s" % (c["info"]["variant"], c["ops"], st, est)
        elif st == "ok":
            stats["path_ok"] += 1
            ta = {m["name"]: sg.canon_go_node(m["tree"]) for m in dump["runs"][-1]["modules"] if m["name"] in ("a", "b")}
            tb = {m["name"]: sg.canon_go_node(m["tree"]) for m in edump["runs"][-1]["modules"] if m["name"] in ("a", "b")}
            if ta != tb:
                mn = [k for k in tb if ta.get(k) != tb.get(k)][0]
                what = "modules found through the search path (%s, %s): tree of %s differs from the one with all modules read explicitly: %s vs %s" % (
                    c["info"]["variant"], c["ops"], mn, ta.get(mn, "")[:300], tb[mn][:300])
        if what:
            nviol += 1
            if nviol <= report:
                res.violation(what, dict(kind="c08-path", what=what, case=dict(mods=c["mods"], ops=c["ops"], opts=c["opts"], info=c["info"])))
    return stats, nviol


# ------------------------------------------------------------------ revisions of the DEVIATED module
def pin_import(text, name, date):
    return text.replace("import %s { prefix %s; }" % (name, name), "import %s { prefix %s; revision-date %s; }" % (name, name, date))


def gen_base_revision_cases(tier, seed):
    """two revisions of the deviated module b are loaded; the deviating module imports b with a revision-date (either
    one) or without (the most recent).  Expectation by construction: the revision the import denotes looks as in a run
    with that revision alone, the other revision as in the run without the deviating module."""
    rnd = random.Random(seed * 9176 + 17)
    old_d, new_d = "2019-01-01", "2020-01-01"
    out = []
    for i in range(30 if tier == "quick" else 400):
        base, T = base_schema(rnd, rnd.choice([0, 1, 2, 2]))
        b = dict(base[0], revision=old_d, file="b@%s.yang" % old_d)
        # the newer revision: the container `in` is gone, the leaf x has another default, a new leaf
        top = b["body"][1]
        tb = list(top[3])
        x = tb[0]
        tb[0] = x[:5] + ("newer",) + x[6:]
        del tb[3]
        tb.append(("leaf", "nw", "string", None, None, None, None))
        b2 = dict(b, body=[b["body"][0], top[:3] + (tb,)] + b["body"][2:], revision=new_d, file="b@%s.yang" % new_d)
        real = [t for t in T if t["kind"] != "missing" and all(p_ == "b" for p_ in t["pfx"]) and
                not (t["steps"][0] == "top" and len(t["steps"]) > 1 and t["steps"][1] in ("ax", "al", "ac"))]
        devs = []
        for _ in range(rnd.choice([1, 2, 3])):
            t = rnd.choice(real)
            if rnd.random() < 0.75:
                prop = rnd.choice(["cfg", "mand", "default", "units"])
                dvs = [deviate("replace", **{prop: {"cfg": rnd.random() < 0.5, "mand": rnd.random() < 0.5,
                                                    "default": "rv", "units": "ru"}[prop]})]
            else:
                dvs = [random_deviate(t, rnd)]
            devs.append((tpath(t), dvs))
        if rnd.random() < 0.5:
            devs.append(("/b:top/b:in/b:y", [deviate("replace", default="only-old")]))     # exists in the old revision only
        if rnd.random() < 0.3:
            devs.append(("/b:top/b:nw", [deviate("replace", default="only-new")]))          # ... in the new one only
        dv = mod("dv", "dv", imports=[("b", "b")], deviations=devs)
        for pin in (old_d, new_d, None):
            out.append(dict(b_old=b, b_new=b2, dv=dv, pin=pin, opts="-", info=dict(g="base-revisions")))
    return out


def check_base_revision_cases(res, cases, report=3):
    stats = dict(baserev_runs=0, baserev_ok=0)

    def line(mods, pin, order=None):
        ms = []
        for m in mods:
            if m["name"] == "dv":
                text = render_module_layout(m, None)
                m = dict(m, text=pin_import(text, "b", pin) if pin else text)
            ms.append(m)
        return go_line(ms, "-")
    W, S, O = [], [], []
    for c in cases:
        denoted = c["b_old"] if c["pin"] == c["b_old"]["revision"] else c["b_new"]
        c["_den"] = denoted["revision"]
        mods = [c["b_old"], c["b_new"], c["dv"]]
        if hash(json.dumps(c["dv"]["deviations"], sort_keys=True)) % 2:
            mods = [c["dv"], c["b_new"], c["b_old"]]
        W.append(line(mods, c["pin"]))
        S.append(line([denoted, c["dv"]], c["pin"]))
        O.append(line([c["b_old"], c["b_new"]], None))
    w, sgl, o = lib.run_go(W), lib.run_go(S), lib.run_go(sorted(set(O)))
    omap = dict(zip(sorted(set(O)), o))
    nviol = 0

    def trees(dump):
        # per revision: every node's dumped fields by path; instmod is left out: with two revisions loaded their common
        # namespace names two modules, with one revision one
        out = {}
        for m in dump["runs"][-1]["modules"]:
            if m["name"] == "b":
                out[m.get("rev", "")] = json.dumps(sorted(("/".join(pth), sorted((k, json.dumps(v, sort_keys=True)) for k, v in own(n).items() if k != "instmod"))
                                                          for pth, n in walk(m["tree"]).items()))
        return out
    for c, gw, gs, ol in zip(cases, w, sgl, O):
        stats["baserev_runs"] += 1
        st, _, dw = sg.canon_go(gw)
        sst, _, ds = sg.canon_go(gs)
        ost, _, do = sg.canon_go(omap[ol])
        what = None
        if st not in ("ok", "err") or sst not in ("ok", "err") or ost != "ok":
            what = "revisions of the deviated module: unexpected harness result %s / %s / %s" % (gw[:150], gs[:150], omap[ol][:150])
        elif st != sst:
            what = ("two revisions of the deviated module, import %s: %s; with the denoted revision %s alone: %s" %
                    ("pinned to " + c["pin"] if c["pin"] else "without revision-date", st, c["_den"], sst))
        elif st == "ok":
            stats["baserev_ok"] += 1
            tw, ts, to = trees(dw), trees(ds), trees(do)
            other = [r for r in tw if r != c["_den"]]
            if tw.get(c["_den"]) != ts.get(c["_den"]):
                what = ("the revision %s that the import denotes (%s) does not look as with that revision alone: %s vs %s" %
                        (c["_den"], "pinned" if c["pin"] else "most recent", (tw.get(c["_den"]) or "")[:300], (ts.get(c["_den"]) or "")[:300]))
            elif any(tw[r] != to.get(r) for r in other):
                r = [r for r in other if tw[r] != to.get(r)][0]
                what = ("the revision %s that no deviation names differs from the run without the deviating module: %s vs %s" %
                        (r, tw[r][:300], (to.get(r) or "")[:300]))
        if what:
            nviol += 1
            if nviol <= report:
                res.violation("base revisions: " + what, dict(kind="c08-baserev", what=what,
                              case=dict(b_old=c["b_old"], b_new=c["b_new"], dv=c["dv"], pin=c["pin"], opts=c["opts"], info=c["info"])))
    return stats, nviol


# ------------------------------------------------------------------ the option is read by every Process
def check_flip_cases(res, cases, seed, n_max, report=3):
    """one Modules value, Process under one setting of IgnoreDeviateNotSupported, option flipped, Process again: each run
    must give what a fresh module set gives under the options then in force"""
    rnd = random.Random(seed * 31 + 5)
    cand = [c for c in cases if c.get("schema") is None and not c["info"].get("nomodel") and
            any(d["kind"] == "not-supported" for m in c["dev"] for _, dvs in m["deviations"] for d in dvs)]
    rnd.shuffle(cand)
    cand = cand[:n_max]
    stats = dict(flip_runs=0, flip_first_ok=0)
    lines, meta, fresh, fidx = [], [], [], {}

    def fresh_line(c, o):
        l = go_line(full_schema(c), o, c["info"].get("layout"))
        if l not in fidx:
            fidx[l] = len(fresh)
            fresh.append(l)
        return l
    for c in cand:
        for seq in (("n", "-"), ("-", "n"), ("n", "-", "n")):
            toks = go_line(full_schema(c), "-", c["info"].get("layout")).split(" ")
            lines.append(" ".join(["c08flip", ",".join(seq)] + toks[3:]))
            meta.append((c, seq, [fresh_line(c, o) for o in seq]))
    got = lib.run_go(lines)
    fr = lib.run_go(fresh)
    nviol = 0
    for (c, seq, fl), g in zip(meta, got):
        stats["flip_runs"] += 1
        if not g.startswith("{"):
            what = "flipped option: harness: " + g[:200]
        else:
            what = None
            j = json.loads(g)
            for k, o in enumerate(seq):
                st, canon, _ = sg.canon_go(json.dumps(dict(loads=j["loads"], runs=[j["runs"][k]])))
                est, ecanon, _ = sg.canon_go(fr[fidx[fl[k]]])
                if k == 0 and st == "ok":
                    stats["flip_first_ok"] += 1
                if (st, canon) != (est, ecanon):
                    what = ("Process number %d on one module set, options %r after %r: %s %s; a fresh set under %r: %s %s" %
                            (k + 1, o, ",".join(seq[:k]), st, (canon or "")[:200], o, est, (ecanon or "")[:200]))
                    break
        if what:
            nviol += 1
            if nviol <= report:
                res.violation("flipped option: " + what, dict(kind="c08-flip", what=what, seq=list(seq), case=strip(c)))
    return stats, nviol


# ------------------------------------------------------------------ replacement types that are whole type statements
# The model (and Spec/C08.v) treat a type as an opaque name and take "does it resolve" as a parameter ([resolvable]).
# Here the replacement type of `deviate add|replace { type ...; }` is a generated type STATEMENT -- a builtin or typedef
# name with restrictions, a union of such (nested, 1-4 members) -- of which the generator knows by construction whether
# it resolves (RFC 7950 9.x): every part resolves / exactly the named part does not.  The reference is evaluated with
# [resolvable] := that classification (OCaml c08specr); for a statement that resolves, the very same statement stands on
# an ordinary leaf of the deviating module (container pr, leaf p<label>) and the target's dumped type must equal it.
TYPE_MOD_TT = """module tt {
  namespace "urn:tt";
  prefix tt;
  typedef cnt { type uint32 { range "0..1000"; } }
  typedef name { type string { length "1..20"; pattern "[a-z]+"; } }
  identity tt-id;
}
"""
TYPE_DEFS = """  typedef percent { type uint8 { range "0..100"; } }
  typedef dec2 { type decimal64 { fraction-digits 2; } }
  typedef short { type string { length "1..10"; } }
  typedef color { type enumeration { enum red; enum green; } }
  typedef un { type union { type percent; type string; } }
  typedef idr { type identityref { base d-id; } }
  identity d-id;
"""
INT_BOUNDS = dict(int8=(-128, 127), int16=(-32768, 32767), int32=(-2 ** 31, 2 ** 31 - 1), int64=(-2 ** 63, 2 ** 63 - 1),
                  uint8=(0, 255), uint16=(0, 65535), uint32=(0, 2 ** 32 - 1), uint64=(0, 2 ** 64 - 1))


def good_type_atoms(rnd):
    """type statements every part of which resolves (in the deviating module d1: typedefs TYPE_DEFS, import tt)"""
    it = rnd.choice(sorted(INT_BOUNDS))
    lo, hi = INT_BOUNDS[it]
    a, b = sorted(rnd.sample(range(1, 10), 2))
    return ["string", "boolean", "uint8", "int64", "empty", "binary", "percent", "short", "color", "un", "idr", "dec2", "tt:cnt", "tt:name",
            "d1:percent",
            'percent { range "%d..%d"; }' % (rnd.choice([0, 1, 10]), rnd.choice([50, 99, 100])),
            'percent { range "0..10 | 90..100"; }',
            '%s { range "%d..%d"; }' % (it, lo, hi),                       # exactly the base type's bounds
            '%s { range "min..max"; }' % it,
            '%s { range "%d..%d"; }' % (it, lo + 1, hi - 1),
            'tt:cnt { range "10..1000"; }',
            'string { length "%d..%d"; }' % (a, b),
            'string { length "0..max"; pattern "a.*"; }',
            'short { length "%d..%d"; }' % (rnd.choice([1, 2]), rnd.choice([9, 10])),
            'tt:name { length "1..20"; }',
            'decimal64 { fraction-digits %d; }' % rnd.choice([1, 2, 17, 18]),
            'dec2 { range "1.5..2.5"; }',
            'enumeration { enum a; enum b { value 7; } enum c; }',
            'enumeration { enum a { value -1; } enum b { value 1; } }',
            'bits { bit x; bit y { position 4; } }',
            'identityref { base d-id; }', 'identityref { base d1:d-id; }', 'identityref { base tt:tt-id; }',
            'leafref { path "/b:top/b:x"; }',
            'binary { length "4"; }']


def bad_type_atoms(rnd):
    """type statements with exactly one part that does not resolve; (text, the named type itself is unknown)"""
    it = rnd.choice(sorted(INT_BOUNDS))
    lo, hi = INT_BOUNDS[it]
    out = [(t, True) for t in ["nope", "d1:nope", "zz:cnt", "tt:nope", "b:nope", "cnt", "tt:percent"]]
    out += [(t, False) for t in [
        'percent { range "50..300"; }', 'percent { range "0..101"; }', 'percent { range "min..max | 200"; }',
        '%s { range "%d..%d"; }' % (it, lo, hi + 1),                      # one past the base type, above
        '%s { range "%d..%d"; }' % (it, lo - 1, hi),                      # ... below
        '%s { range "%d"; }' % (it, hi + 1),
        'tt:cnt { range "0..1001"; }',
        'short { length "0..10"; }', 'short { length "1..11"; }', 'short { length "5..max | 20"; }', 'tt:name { length "1..21"; }',
        'string { fraction-digits 2; }', 'uint8 { fraction-digits 1; }', 'percent { fraction-digits 1; }',
        'dec2 { fraction-digits 2; }', 'dec2 { fraction-digits 3; }',
        'decimal64', 'decimal64 { fraction-digits 0; }', 'decimal64 { fraction-digits 19; }',
        'dec2 { range "1.5..9999999999999999999"; }',
        'enumeration { enum a { value 1; } enum b { value 1; } }', 'enumeration { enum a; enum b; enum a; }',
        'enumeration { enum a { value 2147483647; } enum b; }',
        'bits { bit x; bit x; }', 'bits { bit x { position 4294967296; } }',
        'identityref', 'identityref { base nosuch; }', 'identityref { base zz:tt-id; }', 'identityref { base tt:d-id; }']]
    return out


def gen_union(rnd, bad_at, k, depth=0):
    """union of k members; member number bad_at (None: none) has a part that does not resolve.  Members are atoms or,
    one level down, unions again"""
    ms = []
    for i in range(k):
        if i == bad_at:
            if depth < 2 and rnd.random() < 0.3:
                k2 = rnd.choice([1, 2, 3])
                ms.append(gen_union(rnd, rnd.randrange(k2), k2, depth + 1))
            else:
                ms.append(rnd.choice(bad_type_atoms(rnd))[0])
        else:
            if depth < 2 and rnd.random() < 0.2:
                ms.append(gen_union(rnd, None, rnd.choice([1, 2]), depth + 1))
            else:
                ms.append(rnd.choice(good_type_atoms(rnd)))
    return "union { %s }" % " ".join("type %s%s" % (m, "" if m.endswith("}") else ";") for m in ms)


def type_devmod(devs, types):
    """the deviating module d1: imports b, a, tt; typedefs; one ordinary leaf per type statement that resolves; the
    deviations, whose `type` values are labels standing for the statements in [types] (label -> (text, resolves))"""
    m = mod("d1", "d1", imports=[("b", "b"), ("a", "a"), ("tt", "tt")], deviations=devs)
    text = sg.render_module(m)
    for lab, (ty, ok) in types.items():
        text = text.replace("type %s; " % lab, "type %s%s " % (ty, "" if ty.endswith("}") else ";"))
    probes = "".join("    leaf p%s { type %s%s }\n" % (lab, ty, "" if ty.endswith("}") else ";") for lab, (ty, ok) in sorted(types.items()) if ok)
    extra = TYPE_DEFS + ("  container pr {\n%s  }\n" % probes if probes else "")
    i = text.index("  deviation ")
    m["text"] = text[:i] + extra + text[i:]
    return m


def gen_type_cases(tier, seed):
    rnd = random.Random(seed * 6007 + 29)
    thorough = tier != "quick"
    out = []
    tt = dict(mod("tt", "tt"), text=TYPE_MOD_TT)
    nlab = [0]

    def label():
        nlab[0] += 1
        return "TYL%d" % nlab[0]

    with_tt = {}

    def mk(base, devs, types, g):
        out.append(case(with_tt.setdefault(id(base), base + [tt]), [type_devmod(devs, types)],
                        info=dict(g=g, nomodel=True, types={k: list(v) for k, v in types.items()})))
    bases = [base_schema(rnd, m_) for m_ in (0, 1, 2)]

    def pick(kinds=("leaf", "leaflist")):
        base, T = rnd.choice(bases)
        return base, rnd.choice([t for t in T if t["kind"] in kinds])
    reps = 1 if not thorough else 8
    for _ in range(reps):
        # every atom, under replace and add, alone and next to another property
        for ty, ok in [(t, True) for t in good_type_atoms(rnd)] + [(t, False) for t, _ in bad_type_atoms(rnd)]:
            for kind in ("replace", "add"):
                base, t = pick()
                l = label()
                d = deviate(kind, type=l)
                if rnd.random() < 0.3:
                    prop = rnd.choice(["cfg", "mand", "units"])
                    d[prop] = value_for(t, prop, "different", rnd)
                mk(base, [(tpath(t), [d])], {l: (ty, ok)}, "type-atom")
        # unions: 1-4 members, the member that does not resolve at every position (or nowhere)
        for k in (1, 2, 3, 4):
            for bad_at in [None] + list(range(k)):
                for kind in ("replace", "add"):
                    base, t = pick()
                    l = label()
                    mk(base, [(tpath(t), [deviate(kind, type=l)])], {l: (gen_union(rnd, bad_at, k), bad_at is None)}, "type-union")
    # several deviates / deviations, each with a type statement of its own: the last one written decides the type, one
    # that does not resolve is reported wherever it stands (also when a later one would overwrite it)
    for i in range(60 if not thorough else 1200):
        base, t = pick()
        k = rnd.choice([2, 2, 3])
        nbad = rnd.choice([0, 1, 1, 1, 2])
        bad_ix = set(rnd.sample(range(k), min(nbad, k)))
        types, dvs = {}, []
        for j in range(k):
            l = label()
            if j in bad_ix:
                ty = gen_union(rnd, rnd.randrange(2), 2) if rnd.random() < 0.5 else rnd.choice([x for x, unk in bad_type_atoms(rnd) if not unk])
                types[l] = (ty, False)
            else:
                types[l] = (gen_union(rnd, None, rnd.choice([1, 2, 3])) if rnd.random() < 0.4 else rnd.choice(good_type_atoms(rnd)), True)
            d = deviate(rnd.choice(["replace", "add"]), type=l)
            if rnd.random() < 0.25:
                d["units"] = rnd.choice(["u9", ""])
            dvs.append(d)
        shape = i % 3
        if shape == 0:
            devs = [(tpath(t), dvs)]                                   # one deviation, deviates in written order
        elif shape == 1:
            devs = [(tpath(t), [d]) for d in dvs]                      # one deviation statement each, same target
        else:
            _, T = next(bt for bt in bases if bt[0] is base)
            others = [x for x in T if x["kind"] in ("leaf", "leaflist")]
            devs = [(tpath(rnd.choice(others)), [d]) for d in dvs]     # different (or by chance equal) targets
        mk(base, devs, types, "type-multi")
    # targets that are not leaves (the reference sets the type whatever the node is; a statement that does not resolve is
    # reported whatever the target)
    for i in range(16 if not thorough else 200):
        base, t = pick(("container", "list", "choice", "any", "case"))
        l = label()
        ok = i % 2 == 0
        ty = rnd.choice(good_type_atoms(rnd)) if ok else rnd.choice([x for x, unk in bad_type_atoms(rnd) if not unk])
        mk(base, [(tpath(t), [deviate("replace", type=l)])], {l: (ty, ok)}, "type-nonleaf")
    return out


def find_probe(dump, lab):
    for m in dump["runs"][-1]["modules"]:
        if m["name"] == "d1" and not m["sub"]:
            for ch in m["tree"].get("children") or []:
                if ch["name"] == "pr":
                    for p_ in ch.get("children") or []:
                        if p_["name"] == "p" + lab:
                            return p_
    return None


def check_type_repeat(res, cases, report=3):
    """the module sets of the type-statement family processed twice (one Modules value): the second Process must give
    the verdict of the first (a type statement is resolved once and its errors are remembered)"""
    tc = [c for c in cases if c["info"].get("types") and c.get("_st") in ("ok", "err")]
    lines = []
    for c in tc:
        toks = go_case_c(c).split(" ")
        lines.append(" ".join(["c08flip", "-,-"] + toks[3:]))
    got = lib.run_go(lines)
    nviol = 0
    stats = dict(type_repeat_runs=len(tc))
    for c, g in zip(tc, got):
        what = None
        if not g.startswith("{"):
            what = "harness: " + g[:200]
        else:
            j = json.loads(g)
            for k in (0, 1):
                st, canon, _ = sg.canon_go(json.dumps(dict(loads=j["loads"], runs=[j["runs"][k]])))
                if st != c["_st"]:
                    what = "Process number %d on one module set: %s; a fresh set: %s" % (k + 1, st, c["_st"])
                    break
        if what:
            nviol += 1
            if nviol <= report:
                res.violation("replacement type statements, repeated Process: " + what, dict(kind="c08", what=what, case=strip(c)))
    return stats, nviol


# ------------------------------------------------------------------ cases
def case(base, devmods, opts="-", info=None):
    return dict(base=base, dev=devmods, opts=opts, info=info or {})


def devmod(name, devs):
    return mod(name, name, imports=[("b", "b"), ("a", "a")], deviations=devs)


def gen_cases(tier, seed):
    rnd = random.Random(seed * 7919 + 8)
    cases = []
    hist = dict(sweep=0, not_supported=0, multi=0, two_deviations=0, two_modules=0, option=0, random_schema=0)
    thorough = tier != "quick"
    # --- systematic sweep: every target x kind x property x relation, one deviate
    for mode in (0, 1, 2):
        base, T = base_schema(rnd, mode)
        for t in T:
            for kind in ("add", "replace", "delete"):
                for prop in PROPS:
                    for rel in ("equal", "different"):
                        if not thorough and rnd.random() < 0.55 and t["steps"][0] in ("c2", "nt"):
                            continue
                        d = deviate(kind, **{prop: value_for(t, prop, rel, rnd)})
                        cases.append(case(base, [devmod("d1", [(tpath(t), [d])])], info=dict(g="sweep")))
                        hist["sweep"] += 1
            cases.append(case(base, [devmod("d1", [(tpath(t), [deviate("not-supported")])])], info=dict(g="ns")))
            cases.append(case(base, [devmod("d1", [(tpath(t), [deviate("not-supported")])])], opts="n", info=dict(g="ns-opt")))
            cases.append(case(base, [devmod("d1", [(tpath(t), [deviate("bogus", cfg=True)])])], info=dict(g="unknown-kind")))
            cases.append(case(base, [devmod("d1", [(tpath(t), [deviate("replace", type="nope")])])], info=dict(g="bad-type")))
            hist["not_supported"] += 2
    # --- corpus: D67 (fixed): an empty units argument in a deviate was taken for "no units statement"
    base, T = base_schema(rnd, 1)
    for tgt in ("/b:c1/b:gch", "/b:top/b:x", "/b:top/b:l"):
        cases.append(case(base, [devmod("d1", [(tgt, [deviate("replace", units="u0"), deviate("add", units="")])])],
                          info=dict(g="corpus-D67")))
        cases.append(case(base, [devmod("d1", [(tgt, [deviate("add", units="u0")]), (tgt, [deviate("replace", units="")])])],
                          info=dict(g="corpus-D67")))
    # --- 2-3 deviates on one target, every order
    n_multi = 160 if not thorough else 4000
    for i in range(n_multi):
        base, T = base_schema(rnd, rnd.choice([0, 1, 2, 2]))
        t = rnd.choice([x for x in T if x["kind"] != "missing"] if rnd.random() < 0.95 else T)
        k = rnd.choice([2, 2, 3])
        dvs = [random_deviate(t, rnd) for _ in range(k)]
        if rnd.random() < 0.35:
            # the order-sensitive classic: delete the default, add another one
            c = cur_value(t, "default")
            c = c if c is not None else "d1"
            dvs = [deviate("delete", default=c), deviate("add", default="n1")] + dvs[2:]
        opts = "n" if rnd.random() < 0.15 else "-"
        for perm in itertools.permutations(range(len(dvs))):
            cases.append(case(base, [devmod("d1", [(tpath(t), [dvs[j] for j in perm])])], opts=opts, info=dict(g="multi")))
            hist["multi"] += 1
            if opts == "n":
                hist["option"] += 1
    # --- several deviation statements in one module (also on the same target, on ancestors and descendants)
    n_two = 200 if not thorough else 6000
    for i in range(n_two):
        base, T = base_schema(rnd, rnd.choice([0, 1, 2, 2]))
        real = [x for x in T if x["kind"] != "missing"]
        t1 = rnd.choice(real)
        r = rnd.random()
        if r < 0.3:
            t2 = t1
        elif r < 0.6:
            rel = [x for x in real if x is not t1 and (x["steps"][:len(t1["steps"])] == t1["steps"] or
                                                       t1["steps"][:len(x["steps"])] == x["steps"])]
            t2 = rnd.choice(rel) if rel else rnd.choice(real)
        else:
            t2 = rnd.choice(T)
        devs = [(tpath(t1), [random_deviate(t1, rnd) for _ in range(rnd.choice([1, 1, 2]))]),
                (tpath(t2), [random_deviate(t2, rnd) for _ in range(rnd.choice([1, 1, 2]))])]
        if rnd.random() < 0.3:
            t3 = rnd.choice(real)
            devs.append((tpath(t3), [random_deviate(t3, rnd)]))
        opts = "n" if rnd.random() < 0.15 else "-"
        cases.append(case(base, [devmod("d1", devs)], opts=opts, info=dict(g="two-deviations")))
        hist["two_deviations"] += 1
        if opts == "n":
            hist["option"] += 1
    # --- two deviating modules (visited in sorted name order: d1 then d2), also on one target and on related targets
    n_mod = 160 if not thorough else 4000
    for i in range(n_mod):
        base, T = base_schema(rnd, rnd.choice([0, 1, 2, 2]))
        real = [x for x in T if x["kind"] != "missing"]
        t1 = rnd.choice(real)
        r = rnd.random()
        if r < 0.35:
            t2 = t1
        elif r < 0.6:
            rel = [x for x in real if x is not t1 and (x["steps"][:len(t1["steps"])] == t1["steps"] or
                                                       t1["steps"][:len(x["steps"])] == x["steps"])]
            t2 = rnd.choice(rel) if rel else rnd.choice(real)
        else:
            t2 = rnd.choice(real)
        d1 = [random_deviate(t1, rnd) for _ in range(rnd.choice([1, 2]))]
        d2 = [random_deviate(t2, rnd) for _ in range(rnd.choice([1, 2]))]
        if t2 is t1 and rnd.random() < 0.5:
            c = cur_value(t1, "default")
            c = c if c is not None else "d1"
            d1, d2 = [deviate("delete", default=c)], [deviate("add", default="n1")]
            if rnd.random() < 0.5:
                d1, d2 = d2, d1
        mods = [devmod("d1", [(tpath(t1), d1)]), devmod("d2", [(tpath(t2), d2)])]
        if rnd.random() < 0.5:
            mods.reverse()          # load order differs from the order of application
        cases.append(case(base, mods, info=dict(g="two-modules")))
        hist["two_modules"] += 1
    # --- the shared random schemas, every module deviating
    n_rnd = 120 if not thorough else 4000
    for i in range(n_rnd):
        sc = sg.random_schema(rnd, p_dev=1.0)
        if not any(m["deviations"] for m in sc):
            continue
        opts = "n" if rnd.random() < 0.2 else "-"
        cases.append(dict(base=None, dev=None, schema=sc, opts=opts, info=dict(g="random-schema")))
        hist["random_schema"] += 1
    # --- leaf-list defaults in the instances of a grouping: 0-8 defaults, 2-3 uses in the defining module and one in
    #     another module, add/replace default on one, two or all instances, in one deviation module or two
    n_ll = 150 if not thorough else 2500
    hist["grouping_leaflist_defaults"] = 0
    for i in range(n_ll):
        nd = i % 9
        nuse = rnd.choice([2, 3])
        g = ("grouping", 1, "g", [("leaflist", "gll", "string", None, ["v%d" % j for j in range(nd)], None, None),
                                  ("leaflist", "gl2", "string", None, ["w%d" % j for j in range(rnd.choice([0, 1, 3]))], None, None),
                                  ("leaf", "gx", "string", None, None, rnd.choice([None, "d1"]), None)])
        insts = ["c%d" % (j + 1) for j in range(nuse)]
        b = mod("b", "b", body=[g] + [("container", n, None, [("uses", "g")]) for n in insts])
        a = mod("a", "a", imports=[("b", "b")], body=[("container", "ca", None, [("uses", "b:g")])])
        sites = [("b", n) for n in insts] + [("a", "ca")]
        hit = rnd.sample(sites, rnd.choice([1, 2, 2, len(sites)]))
        devs = []
        for k, (pm, cn) in enumerate(hit):
            leafl = rnd.choice(["gll", "gll", "gll", "gl2"])
            dvs = [deviate(rnd.choice(["add", "add", "add", "replace"]), default="x%d" % k)]
            if rnd.random() < 0.3:
                dvs.append(deviate("add", default="y%d" % k))
            devs.append(("/%s:%s/%s:%s" % (pm, cn, pm, leafl), dvs))
        if rnd.random() < 0.6 or len(devs) < 2:
            dm = [devmod("d1", devs)]
        else:
            cut = rnd.randint(1, len(devs) - 1)
            dm = [devmod("d1", devs[:cut]), devmod("d2", devs[cut:])]
        cases.append(case([b, a], dm, info=dict(g="grouping-leaflist-defaults")))
        hist["grouping_leaflist_defaults"] += 1
    # --- deviations written in an INCLUDED SUBMODULE whose prefix table differs from that of the module including it:
    #     the path is read with the submodule's own imports and belongs-to prefix
    n_sub = 90 if not thorough else 1200
    hist["submodule_prefixes"] = 0
    for i in range(n_sub):
        base, T = base_schema(rnd, rnd.choice([0, 1, 2, 2]))
        real = [x for x in T if x["kind"] != "missing"]
        variant = ["own-imports", "other-prefix", "clash", "belongs-prefix"][i % 4]
        devs = []
        for _ in range(rnd.choice([1, 2, 3])):
            t = rnd.choice(real if rnd.random() < 0.9 else T)
            if rnd.random() < 0.7:
                prop = rnd.choice(["cfg", "mand", "default", "units"])
                dvs = [deviate("replace", **{prop: {"cfg": rnd.random() < 0.5, "mand": rnd.random() < 0.5,
                                                    "default": "sv", "units": "su"}[prop]})]
            else:
                dvs = [random_deviate(t, rnd) for _ in range(rnd.choice([1, 2]))]
            devs.append((tpath(t), dvs))
        sub = dict(mod("d1s", "d1", imports=[("b", "b"), ("a", "a")], deviations=devs), ns="", belongs="d1")
        extra = []
        if variant == "own-imports":
            d1 = mod("d1", "d1")
        elif variant == "other-prefix":
            d1 = mod("d1", "d1", imports=[("bx", "b"), ("b2", "a")])
        elif variant == "clash":
            bb = dict(base[0], name="bb", prefix="bb", ns="urn:bb")
            extra = [bb]
            d1 = mod("d1", "d1", imports=[("b", "bb"), ("a", "a")])
        else:
            d1 = mod("d1", "d1", imports=[("b", "b")],
                     body=[("container", "own", None, [("leaf", "ol", "string", None, None, "od", None),
                                                      ("leaflist", "oll", "string", None, ["o1"], 1, None)])])
            sub["prefix"] = "dd"
            sub["deviations"] = devs + [("/dd:own/dd:ol", [rnd.choice([deviate("replace", default="nd"), deviate("delete", default="od"),
                                                                          deviate("add", default="x")])]),
                                        ("/dd:own/dd:oll", [rnd.choice([deviate("add", default="o2"), deviate("delete", min=1),
                                                                           deviate("delete", max=MAXU64)])])]
        d1["includes"] = ["d1s"]
        sc = base + extra + [d1, sub]
        if rnd.random() < 0.5:
            sc = [sub, d1] + extra + base
        cases.append(dict(base=None, dev=None, schema=sc, opts="n" if rnd.random() < 0.1 else "-",
                          info=dict(g="submodule-prefixes", variant=variant)))
        hist["submodule_prefixes"] += 1
    # --- typedef defaults (text level; the model has no typedefs): the node's OWN default statement decides, never the
    #     default its type chain carries
    hist["typedef_defaults"] = 0
    tbase = dict(mod("t", "t"), text=TYPEDEF_BASE)
    for leaf, own, tdflt, is_ll in TYPEDEF_LEAVES:
        vals = sorted({v for v in (own, tdflt, "zz", "") if v is not None})
        for kind in ("add", "replace", "delete"):
            for v in vals:
                dvss = [[deviate(kind, default=v)]]
                if kind == "delete":
                    dvss.append([deviate("delete", default=v), deviate("add", default="n1")])
                    dvss.append([deviate("delete", default=v), deviate("add", default=tdflt if tdflt is not None else "n2")])
                if kind == "add":
                    dvss.append([deviate("add", default=v), deviate("add", default="n3")])
                    dvss.append([deviate("add", default=v), deviate("add", units="")])
                for dvs in dvss:
                    dm = mod("d1", "d1", imports=[("t", "t")], deviations=[("/t:c/t:%s" % leaf, dvs)])
                    cases.append(case([tbase], [dm], info=dict(g="typedef-defaults", nomodel=True)))
                    hist["typedef_defaults"] += 1
    # --- replacement types that are whole type statements (text level, reference with [resolvable] by construction)
    tcs = gen_type_cases(tier, seed)
    hist["type_statements"] = len(tcs)
    hist["type_statements_unresolvable"] = sum(1 for c in tcs if any(not ok for _, ok in c["info"]["types"].values()))
    cases += tcs
    # --- the text layout of every case that has two or more deviate statements in one deviation is varied
    hist["layout_varied"] = 0
    for c in cases:
        if any(len(dvs) >= 2 for m in full_schema(c) for _, dvs in m["deviations"]):
            c["info"]["layout"] = rnd.randrange(1 << 30)
            hist["layout_varied"] += 1
    return cases, hist


# ------------------------------------------------------------------ text layout of deviation statements
def render_module_layout(m, rnd):
    """sg.render_module, but deviations with two or more deviate statements are laid out raggedly: random (also
    decreasing) indentation per deviate, several deviates on one line, a deviate on the line of the `deviation`
    keyword, substatements on lines of their own.  The written order is the order of the text either way."""
    if rnd is None or not any(len(dvs) >= 2 for _, dvs in m["deviations"]):
        return sg.render_module(m)
    text = sg.render_module(dict(m, deviations=[]))
    assert text.endswith("}\n")
    out = text[:-2]
    for path, dvs in m["deviations"]:
        if len(dvs) < 2:
            out += "  deviation %s {\n%s  }\n" % (sg.q(path), "".join(sg.render_deviate(d) for d in dvs))
            continue
        out += " " * rnd.choice([0, 2, 6]) + "deviation %s {" % sg.q(path)
        style = rnd.choice(["ragged", "ragged", "decreasing", "oneline"])
        indents = sorted([rnd.choice([1, 2, 4, 8, 12, 16]) for _ in dvs], reverse=True) if style == "decreasing" else \
            [rnd.choice([0, 1, 2, 4, 8, 12]) for _ in dvs]
        for i, d in enumerate(dvs):
            t = sg.render_deviate(d).strip()
            if rnd.random() < 0.3:
                t = t.replace("; ", ";\n" + " " * rnd.choice([0, 3, 10]))
            if style == "oneline" or (i == 0 and rnd.random() < 0.25) or (i > 0 and rnd.random() < 0.25):
                out += " " + t
            else:
                out += "\n" + " " * indents[i] + t
        out += "\n  }\n"
    return out + "}\n"


def add_revision(text, rev):
    """insert a revision statement after the header (before the first body statement)"""
    lines = text.split("\n")
    i = 0
    while i < len(lines) and (i == 0 or lines[i].lstrip().startswith(("namespace", "prefix", "import", "include", "belongs-to"))):
        i += 1
    return "\n".join(lines[:i] + ["  revision %s;" % rev] + lines[i:])


def add_ordered_by(text, ob):
    """ordered-by statements for the lists and leaf-lists named in [ob] (name -> user|system); schema_gen's node
    tuples have no such field, so the rendered text is post-processed"""
    import re
    for name, val in ob.items():
        text = re.sub(r"(?m)^(\s*)list %s \{\n" % re.escape(name), lambda m: "%slist %s {\n%s  ordered-by %s;\n" % (m.group(1), name, m.group(1), val), text)
        text = re.sub(r"leaf-list %s \{ " % re.escape(name), "leaf-list %s { ordered-by %s; " % (name, val), text)
    return text


def go_line(mods, opts, lay=None, ops=None):
    """process line for the implementation.  A module dict may carry its YANG text ("text"), a revision date
    ("revision") and a file name ("file"); the texts of modules with deviations get the layout [lay].
    ops: per module "L" (parsed explicitly, default) or "D" (only put into the search path)"""
    ops = ops or ["L"] * len(mods)
    toks = ["process", opts, ",".join(["%s%d" % (o, i) for i, o in enumerate(ops) if o == "D"] +
                                      ["%s%d" % (o, i) for i, o in enumerate(ops) if o == "L"] + ["P"]), str(len(mods))]
    for i, m in enumerate(mods):
        text = m["text"] if "text" in m else render_module_layout(m, random.Random(lay * 1009 + i) if lay is not None else None)
        if m.get("revision"):
            text = add_revision(text, m["revision"])
        if m.get("ordered_by"):
            text = add_ordered_by(text, m["ordered_by"])
        toks += [sg.hx(m.get("file", m["name"] + ".yang")), sg.hx(text)]
    return " ".join(toks)


def go_case_c(c):
    return go_line(full_schema(c), c["opts"], c["info"].get("layout"))


# ------------------------------------------------------------------ running
def full_schema(c):
    return c["schema"] if c.get("schema") is not None else c["base"] + c["dev"]


def base_only(c):
    if c.get("schema") is not None:
        return [dict(m, deviations=[]) for m in c["schema"]]
    return c["base"]


def dev_modules(c):
    """the deviating modules in the order Process applies them: sorted module names, then sorted submodule names"""
    ms = [m for m in c["schema"] if m["deviations"]] if c.get("schema") is not None else c["dev"]
    return sorted(ms, key=lambda m: (m["belongs"] is not None, m["name"].encode()))


def walk(tree):
    """path (tuple of steps) -> node"""
    out = {}

    def go(n, path):
        out[path] = n
        for ch in n.get("children") or []:
            go(ch, path + (ch["name"],))
        if n.get("input"):
            go(n["input"], path + ("input",))
        if n.get("output"):
            go(n["output"], path + ("output",))
    go(tree, ())
    return out


SKIP_KEYS = ("id", "children", "input", "output", "nerr", "naugments")


def own(n, derived=True):
    d = {k: v for k, v in n.items() if k not in SKIP_KEYS}
    if not derived:
        d.pop("ro", None)
    return d


def resolve_target(schema, src, path):
    """(module name, steps) a deviation path written in module src names: prefixes are looked up as the library does
    (first step decides the module, the others are ignored)"""
    parts = [p for p in path.split("/")[1:]]
    if not parts or parts == [""]:
        return src["name"], ()
    pfx = parts[0].split(":")[0] if ":" in parts[0] else ""
    mn = src["name"]
    if pfx and pfx != src["prefix"]:
        mn = None
        for p, m in src["imports"]:
            if p == pfx:
                mn = m
                break
    byname = {m["name"]: m for m in schema}
    if mn in byname and byname[mn]["belongs"]:
        mn = byname[mn]["belongs"]
    return mn, tuple(p.split(":")[-1] for p in parts)


def node_tokens(n):
    """attributes of a dumped node as c08spec wants them"""
    t = {"unset": "u", "true": "t", "false": "f"}
    dfl = n.get("default") or []
    la = "~"
    if n.get("list"):
        a = n["list"].split(":")
        la = a[0] + ":" + a[1]
    return [n["kind"], "1" if n["hasdir"] else "0", t[n["config"]], t[n["mandatory"]], str(len(dfl))] + \
        [sg.hx(d) for d in dfl] + [sg.hx(n.get("units", "")), ("s" + n["type"]["name"].encode().hex()) if n.get("type") else "~", la]


def node_expect(n):
    """the observable the reference predicts, from a dumped node"""
    la = "-"
    if n.get("list"):
        a = n["list"].split(":")
        la = a[0] + ":" + a[1]
    return " ".join([n["config"], n["mandatory"], "[" + ",".join('"%s"' % d for d in (n.get("default") or [])) + "]",
                     '"%s"' % n.get("units", ""), ('"%s"' % n["type"]["name"]) if n.get("type") else "-", la])


EMPTY_IO = lambda name: dict(name=name, kind="Input" if name == "input" else "Output", config="unset", mandatory="unset",
                             hasdir=True, _synthetic=True)


class Oracle:
    """threads the reference through the deviations of one case; spec evaluations are batched per round"""

    def __init__(self, c, base_dump, written_of):
        self.c = c
        self.opts = c["opts"]
        self.trees = {m["name"]: walk(m["tree"]) for m in base_dump["runs"][-1]["modules"] if not m["sub"]}
        self.state = {}      # (mod, steps) -> dict(tokens, hmin, hmax, expect)
        self.removed = set()
        self.written_of = written_of
        self.jobs = []
        schema = full_schema(c)
        for m in dev_modules(c):
            for path, dvs in m["deviations"]:
                mn, steps = resolve_target(schema, m, path)
                self.jobs.append((mn, steps, dvs))
        self.i = 0
        self.verdict = None      # "err" once the reference says: must be reported
        self.flags = dict(k=False, r=False, s=False)
        self.skip = None

    def pending(self):
        """next spec line to evaluate, or None when done"""
        while self.i < len(self.jobs) and self.verdict is None and self.skip is None:
            mn, steps, dvs = self.jobs[self.i]
            key = (mn, steps)
            if any((mn, steps[:j]) in self.removed for j in range(len(steps) + 1)):
                self.verdict = "err"       # missing target
                return None
            if key not in self.state:
                tree = self.trees.get(mn)
                node = tree.get(steps) if tree is not None else None
                if node is None and tree is not None and steps and steps[-1] in ("input", "output"):
                    par = tree.get(steps[:-1])
                    if par is not None and par.get("hasrpc"):
                        node = EMPTY_IO(steps[-1])
                if node is None:
                    self.verdict = "err"   # missing target
                    return None
                hmin, hmax = self.written_of(mn, steps)
                self.state[key] = dict(tokens=node_tokens(node), hmin=hmin, hmax=hmax, expect=node_expect(node), node=node)
            st = self.state[key]
            if not steps:
                self.skip = "module root as target"
                return None
            par = self.trees[mn].get(steps[:-1])
            removable = not (steps[-1] in ("input", "output") and par is not None and par.get("hasrpc"))
            types = self.c["info"].get("types")
            head = ["c08spec"] if types is None else \
                ["c08specr"] + sg.enc_list(sorted(l for l, (_, ok) in types.items() if ok), lambda l: [sg.hx(l)])
            toks = head + ["1" if "n" in self.opts else "0", "1" if removable else "0",
                           "1" if st["hmin"] else "0", "1" if st["hmax"] else "0"] + st["tokens"] + sg.enc_list(dvs, sg.enc_deviate)
            return " ".join(toks)
        return None

    def feed(self, out):
        mn, steps, dvs = self.jobs[self.i]
        key = (mn, steps)
        parts = out.split(" ")
        fl = parts[0]
        if not fl.startswith("k"):
            self.skip = "spec driver: " + out[:100]
            return
        for name, pos in (("k", 1), ("r", 3), ("s", 5)):
            if fl[pos] == "1":
                self.flags[name] = True
        if parts[1] == "none":
            self.verdict = "err"
            return
        removed = parts[2] == "1"
        cfg, mand, dfl, units, ty, la, hmin, hmax = parts[3], parts[4], parts[5], parts[6], parts[7], parts[8], parts[9], parts[10]
        if removed:
            self.removed.add(key)
            self.state.pop(key, None)
        else:
            st = self.state[key]
            st["expect"] = " ".join([cfg, mand, dfl, units, ty, la])
            t = {"unset": "u", "true": "t", "false": "f"}
            dl = json.loads(dfl)
            st["tokens"] = [st["tokens"][0], st["tokens"][1], t[cfg], t[mand], str(len(dl))] + [sg.hx(d) for d in dl] + \
                [sg.hx(json.loads(units)), "~" if ty == "-" else "s" + json.loads(ty).encode().hex(), "~" if la == "-" else la]
            st["hmin"], st["hmax"] = hmin == "1", hmax == "1"
        self.i += 1


def written_lookup(c):
    """(module, steps) -> (min written, max written) from the SOURCE of the case"""
    table = {}
    sc = base_only(c)
    for m in sc:
        if m["belongs"] is not None:
            continue
        for steps, kind, node in sg.expand_paths(sc, m, None):
            if kind == "list":
                table[(m["name"], tuple(steps))] = (node[4] is not None, node[5] is not None)
            elif kind == "leaflist":
                table[(m["name"], tuple(steps))] = (node[5] is not None, node[6] is not None)
    for m in sc:
        for path, body in m["augments"]:
            mn, pre = resolve_target(sc, m, path)

            def go(body, steps):
                for n in body:
                    if n[0] == "list":
                        table[(mn, tuple(steps + [n[1]]))] = (n[4] is not None, n[5] is not None)
                    elif n[0] == "leaflist":
                        table[(mn, tuple(steps + [n[1]]))] = (n[5] is not None, n[6] is not None)
                    if n[0] in ("container", "list", "case", "choice"):
                        go(n[-1], steps + [n[1]])
            go(body, list(pre))
    return lambda mn, steps: table.get((mn, tuple(steps)), (False, False))


def check_cases(res, cases, report=3):
    stats = dict(go_ok=0, go_err=0, base_err=0, frame_nodes=0, spec_targets=0, spec_evals=0, refusals=0,
                 out_of_scope=0, spec_err=0, spec_ok=0, skipped=0)
    # (i) model vs implementation, deviated run
    go_lines = [go_case_c(c) for c in cases]
    with_model = [i for i, c in enumerate(cases) if not c["info"].get("nomodel")]
    ml_lines = [sg.model_case(full_schema(cases[i]), opts=cases[i]["opts"]) for i in with_model]
    base_lines, base_idx = [], {}
    for c in cases:
        l = go_line(base_only(c), c["opts"])
        if l not in base_idx:
            base_idx[l] = len(base_lines)
            base_lines.append(l)
        c["_base_line"] = l
    go = lib.run_go(go_lines)
    ml = [None] * len(cases)
    for i, o in zip(with_model, lib.run_ml(ml_lines)):
        ml[i] = o
    gb = lib.run_go(base_lines)
    nviol = 0
    wcache = {}

    def viol(what, c, **extra):
        nonlocal nviol
        nviol += 1
        k = "viol_frame" if what.startswith("frame") else "viol_reference" if what.startswith("reference") or what.startswith("target") \
            else "viol_model"
        stats[k] = stats.get(k, 0) + 1
        if nviol <= report:
            res.violation(what, dict(kind="c08", what=what, case=strip(c), **extra))
    oracles = []
    for c, g, m in zip(cases, go, ml):
        st, canon, dump = sg.canon_go(g)
        c["_st"], c["_dump"] = st, dump
        if st == "ok":
            stats["go_ok"] += 1
            if m is not None and canon != m:
                viol("model and implementation disagree on a deviated module set (impl ok): impl=%s model=%s" % (canon[:300], m[:300]), c,
                     impl=g[:2000], model=m[:2000])
        elif st in ("err", "loaderr"):
            stats["go_err"] += 1
            if m is not None and m != "err":
                viol("model and implementation disagree: implementation reports (%s), model: %s" % (st, m[:300]), c, impl=g[:2000], model=m[:2000])
        else:
            viol("implementation neither processed nor reported: %s" % g[:300], c, impl=g[:2000])
        if dump is not None and dump["runs"][-1].get("treeviol"):
            viol("tree invariant violated after deviations: %s" % dump["runs"][-1]["treeviol"][:3], c)
        bst, _, bdump = sg.canon_go(gb[base_idx[c["_base_line"]]])
        c["_bst"], c["_bdump"] = bst, bdump
        if bst != "ok":
            stats["base_err"] += 1
            continue
        if st not in ("ok", "err"):
            continue
        # (ii) frame on the implementation
        if st == "ok":
            msg = frame_check(c, bdump, dump, stats)
            if msg:
                viol("frame: " + msg, c)
        wkey = id(c["base"]) if c.get("schema") is None else None
        if wkey is None or wkey not in wcache:
            wl = written_lookup(c)
            if wkey is not None:
                wcache[wkey] = wl
        else:
            wl = wcache[wkey]
        oracles.append(Oracle(c, bdump, wl))
    # (iii) the reference, batched round by round
    live = list(oracles)
    while live:
        lines, who = [], []
        for o in live:
            l = o.pending()
            if l is not None:
                lines.append(l)
                who.append(o)
        if not lines:
            break
        outs = lib.run_ml(lines)
        stats["spec_evals"] += len(lines)
        for o, out in zip(who, outs):
            o.feed(out)
        live = who
    for o in oracles:
        c = o.c
        if o.skip is not None:
            stats["skipped"] += 1
            continue
        if o.flags["s"]:
            stats["out_of_scope"] += 1
            continue
        want = o.verdict or "ok"
        got = c["_st"]
        stats["spec_err" if want == "err" else "spec_ok"] += 1
        if want != got:
            if want == "ok" and o.flags["r"]:
                stats["refusals"] += 1
                continue
            viol("reference and implementation disagree on the verdict: reference says %s, implementation %s" %
                 ("must be reported" if want == "err" else "applies cleanly", "reports" if got == "err" else "is clean"), c)
            continue
        if got != "ok":
            continue
        trees = {m["name"]: walk(m["tree"]) for m in c["_dump"]["runs"][-1]["modules"] if not m["sub"]}
        for (mn, steps) in o.removed:
            if trees.get(mn, {}).get(steps) is not None:
                viol("reference: target %s/%s declared not-supported is still there" % (mn, "/".join(steps)), c)
        for (mn, steps), s in o.state.items():
            stats["spec_targets"] += 1
            n = trees.get(mn, {}).get(steps)
            if any((mn, steps[:j]) in o.removed for j in range(len(steps))):
                # an ancestor was declared not-supported afterwards: the target went with it
                if n is not None:
                    viol("reference: %s/%s is below a node declared not-supported and still there" % (mn, "/".join(steps)), c)
                continue
            if n is None:
                viol("reference: target %s/%s is gone although no not-supported applies" % (mn, "/".join(steps)), c)
                continue
            expect = s["expect"]
            types = c["info"].get("types")
            if types is not None:
                # the reference's type is the label of a generated type statement: the ordinary leaf p<label> of the
                # deviating module carries the same statement; the target must have that type, all of it
                lab = json.loads(expect.split(" ")[4]) if expect.split(" ")[4] != "-" else None
                if lab in types:
                    stats["type_statements_compared"] = stats.get("type_statements_compared", 0) + 1
                    pr = find_probe(c["_dump"], lab)
                    if pr is None or not pr.get("type"):
                        viol("reference: no ordinary leaf with the type statement %s in the deviated run" % lab, c)
                        continue
                    expect = expect.replace('"%s"' % lab, '"%s"' % pr["type"]["name"])
                    if node_expect(n) == expect and n.get("type") != pr["type"]:
                        viol("reference and implementation disagree at target %s/%s: its type after `type %s` is %s; the same statement on "
                             "an ordinary leaf yields %s" % (mn, "/".join(steps), types[lab][0], json.dumps(n.get("type"), sort_keys=True)[:400],
                                                             json.dumps(pr["type"], sort_keys=True)[:400]), c)
                        continue
            if node_expect(n) != expect:
                viol("reference and implementation disagree at target %s/%s: reference %s implementation %s" %
                     (mn, "/".join(steps), expect, node_expect(n)), c)
                continue
            # everything the deviates do not name stays
            b = s["node"]
            if b.get("_synthetic"):
                continue
            # the properties a deviate can name are predicted by the reference above (config, mandatory, default, units,
            # type, min:max) and two dumped fields follow from them (ro, defvals); every other dumped field of the target
            # -- name, kind, key, namespace, ordered-by (the tail of `list`), description, extras, source ... -- must be
            # what it is without the deviating modules
            named = ("config", "mandatory", "default", "units", "type", "ro", "defvals", "list")
            ob, on = own(b), own(n)
            for k in sorted(set(ob) | set(on)):
                if k in named:
                    continue
                if ob.get(k) != on.get(k):
                    viol("target %s/%s changed its %s, which no deviate names: %r -> %r" % (mn, "/".join(steps), k, ob.get(k), on.get(k)), c)
                    break
            else:
                tb, tn = (b.get("list") or "").split(":")[2:], (n.get("list") or "").split(":")[2:]
                if tb != tn:
                    viol("target %s/%s changed its ordered-by, which no deviate names: %r -> %r" % (mn, "/".join(steps), tb, tn), c)
    return stats, nviol


def strip(c):
    return dict(schema=full_schema(c), opts=c["opts"], info={k: v for k, v in c["info"].items() if not k.startswith("_")},
                dev=[m["name"] for m in dev_modules(c)], schema_style=c.get("schema") is not None)


def frame_check(c, bdump, ddump, stats):
    schema = full_schema(c)
    targets, maybe_removed = set(), set()
    for m in dev_modules(c):
        for path, dvs in m["deviations"]:
            mn, steps = resolve_target(schema, m, path)
            targets.add((mn, steps))
            if "n" not in c["opts"] and any(d["kind"] == "not-supported" for d in dvs):
                maybe_removed.add((mn, steps))
    B = {m["name"]: walk(m["tree"]) for m in bdump["runs"][-1]["modules"] if not m["sub"]}
    D = {m["name"]: walk(m["tree"]) for m in ddump["runs"][-1]["modules"] if not m["sub"]}
    devnames = {m["name"] for m in dev_modules(c)} if c.get("schema") is None else set()
    for mn, tb in B.items():
        td = D.get(mn)
        if td is None:
            return "module %s disappeared" % mn
        for path, n in tb.items():
            if any((mn, path[:j]) in maybe_removed for j in range(len(path) + 1)):
                continue
            if (mn, path) in targets:
                continue
            d = td.get(path)
            if d is None:
                return "node %s/%s disappeared although no not-supported names it or an ancestor" % (mn, "/".join(path))
            below = any((mn, path[:j]) in targets for j in range(len(path)))
            stats["frame_nodes"] += 1
            if own(n, not below) != own(d, not below):
                diff = {k: (own(n).get(k), own(d).get(k)) for k in set(own(n)) | set(own(d)) if own(n).get(k) != own(d).get(k)}
                return "node %s/%s is not a target and changed: %s" % (mn, "/".join(path), diff)
            if sorted(x["name"] for x in n.get("children") or []) != sorted(x["name"] for x in d.get("children") or []):
                gone = set(x["name"] for x in n.get("children") or []) - set(x["name"] for x in d.get("children") or [])
                new = set(x["name"] for x in d.get("children") or []) - set(x["name"] for x in n.get("children") or [])
                if new or any((mn, path + (g,)) not in maybe_removed for g in gone):
                    return "children of %s/%s changed: -%s +%s" % (mn, "/".join(path), sorted(gone), sorted(new))
    for mn, td in D.items():
        if mn in devnames:
            continue
        tb = B.get(mn)
        if tb is None:
            return "module %s appeared" % mn
        for path in td:
            if path not in tb:
                ok = path and path[-1] in ("input", "output") and any(t[0] == mn and t[1][:len(path)] == path for t in targets)
                # below a created input/output there is nothing
                if not ok:
                    return "node %s/%s exists only with the deviating modules" % (mn, "/".join(path))
    return None


def run(res, tier, seed, proof):
    cases, hist = gen_cases(tier, seed)
    stats, nviol = check_cases(res, cases)
    tstats, tviol = check_type_repeat(res, cases)
    stats.update(tstats)
    nviol += tviol
    fstats, fviol = check_flip_cases(res, cases, seed, 120 if tier == "quick" else 1500)
    stats.update(fstats)
    nviol += fviol
    bcases = gen_base_revision_cases(tier, seed)
    bstats, bviol = check_base_revision_cases(res, bcases)
    stats.update(bstats)
    nviol += bviol
    pcases = gen_path_cases(tier, seed)
    pstats, pviol = check_path_cases(res, pcases)
    stats.update(pstats)
    nviol += pviol
    rcases = gen_revision_cases(tier, seed)
    rstats, rviol = check_revision_cases(res, rcases)
    stats.update(rstats)
    nviol += rviol
    hist["revisions"] = len(rcases)
    groups = {}
    for c in cases:
        g = c["info"].get("g")
        groups[g] = groups.get(g, 0) + 1
    ex = [c for c in cases if c.get("_st") == "ok" and c["info"].get("g") == "multi"][:1] + \
         [c for c in cases if c.get("_st") == "err"][:1] + [c for c in cases if c["info"].get("g") == "random-schema"][:1]
    cov = dict(
        evaluations=len(cases) * 2 + stats["spec_evals"] + 2 * len(rcases) + 2 * len(pcases) + 3 * len(bcases) + 2 * stats.get("flip_runs", 0),
        distinct_nontrivial=len({json.dumps(strip(c), sort_keys=True) for c in cases}),
        rule="generated base (every target kind: leaf, leaf-list, list, container, choice, explicit and implicit case, anydata, "
             "rpc, explicit and implicit input/output, notification leaf, nodes of a grouping used twice, augmented nodes) in "
             "three variants (no optional property written / all / random) x add|replace|delete x 7 properties x value "
             "equal|different (absent where the variant has none), not-supported with and without the option, unknown kind, "
             "unresolvable type; 2-3 deviates per target in every order; 2-3 deviation statements per module incl. "
             "target/ancestor/descendant combinations and missing targets; two deviating modules; schema_gen.random_schema "
             "with p_dev=1; groupings whose leaf-lists have 0-8 defaults used 2-3 times in the defining and once in another module, "
             "add/replace default on one, two or all instances; the text of every deviation with two or more deviates is laid "
             "out raggedly (random and decreasing indentation, several deviates per line, deviate on the deviation line); empty-string "
             "defaults and units in sources and deviates; a text-level family of leaves typed by typedef chains with and without "
             "defaults (implementation + reference only); a family with the deviating module in 2-3 revisions, all loaded in "
             "every order, compared with base + most recent revision alone; deviation paths whose first prefix the deviating module does not know; "
             "one module set processed repeatedly with IgnoreDeviateNotSupported flipped in between (harness/go c08flip), each run "
             "compared with a fresh set under the options in force; lists and leaf-lists with ordered-by user/system (every dumped "
             "field of a target that no deviate can name, ordered-by included, is compared with the run without the "
             "deviating modules); deviation paths that leave out or misplace the input/output step below an rpc or action; "
             "deviations in (sub)modules found only through the search path (ops D), compared with reading everything explicitly; "
             "two revisions of the deviated module with pinned and unpinned imports, each revision compared with the run that "
             "determines it by construction; deviation paths that drop a choice or case step; deviations written in an included "
             "submodule whose imports / belongs-to prefix differ from (or clash with) those of the including module; replacement "
             "types that are whole type statements (text level, outside the model): every builtin/typedef/imported-typedef atom with "
             "range, length, pattern, fraction-digits, enum, bit, identityref base restrictions at and one past the bounds of the base "
             "type, unions of 1-4 members (nested to depth 2) with the member that does not resolve at every position or nowhere, "
             "under add and replace, next to other properties, 2-3 type-carrying deviates in one deviation / in several deviation "
             "statements / on several targets with the unresolvable one before or after a resolvable one, non-leaf targets; the "
             "reference runs with resolvable := resolves-by-construction, the resulting type is compared in full with the same "
             "statement on an ordinary leaf, and each such module set is processed twice.  Each case: model-vs-implementation, frame against the run without the deviating modules, "
             "extracted reference applied to the undeviated dump",
        exhaustive=False, mismatches=nviol,
        distribution=dict(hist, groups=groups, **stats),
        samples=[json.dumps(strip(c))[:600] for c in ex],
    )
    assumptions = [
        "the YANG text given to the implementation and the abstract module set given to the model are renderings of the same "
        "generated schema (check/props/schema_gen.py)",
        "several deviating modules are applied in sorted name order (modules, then submodules), by the library, the model "
        "(schema_gen.model_case default order) and the reference alike",
        "the reference needs to know whether a min-/max-elements statement is written on a target; this is read from the "
        "generated source, not from the implementation",
        "deviate statements for must/unique are not generated (outside the claim)",
        "replacement types that are whole type statements (restrictions, unions, typedef references) lie outside the Coq model, "
        "whose types are opaque names: whether such a statement resolves is the generator's classification by construction (every "
        "part valid per RFC 7950 9.x / exactly one named part invalid), handed to the extracted reference as its parameter "
        "[resolvable]; the type a resolvable statement must yield at the target is taken from the implementation itself (the same "
        "statement on an ordinary leaf of the deviating module) -- an implementation-side oracle that trusts the library's type "
        "resolution on ordinary leaves (the subject of C09/C10); duplicate bit positions are not generated (the library accepts "
        "them everywhere)",
    ]
    return cov, assumptions


def tuplify_module(m):
    """undo what JSON did to the node tuples of a module dict"""
    kinds = ("leaf", "leaflist", "container", "list", "choice", "case", "any", "uses", "grouping", "rpc", "notification")

    def fx(x):
        if isinstance(x, list) and x and isinstance(x[0], str) and x[0] in kinds:
            return tuple(fx(y) for y in x)
        return [fx(y) for y in x] if isinstance(x, list) else x
    m = dict(m)
    m["body"] = [fx(n) for n in m["body"]]
    m["augments"] = [(p, [fx(n) for n in b]) for p, b in m["augments"]]
    m["imports"] = [tuple(i) for i in m["imports"]]
    m["deviations"] = [(p, d) for p, d in m["deviations"]]
    return m


def replay(rep, res):
    c0 = rep["case"]
    if rep.get("kind") == "c08-baserev":
        for k in ("b_old", "b_new", "dv"):
            c0[k] = tuplify_module(c0[k])
        stats, nviol = check_base_revision_cases(res, [c0], report=10)
        print(sg.render_module(c0["dv"]), "\nimport pinned to:", c0["pin"])
        for what, r, _ in res.violations:
            print("  ", what[:800])
        return 1 if nviol else 0
    if rep.get("kind") == "c08-path":
        c0["mods"] = [tuplify_module(m) for m in c0["mods"]]
        stats, nviol = check_path_cases(res, [c0], report=10)
        for m, o in zip(c0["mods"], c0["ops"]):
            print("---", o, m["name"])
            print(sg.render_module(m))
        for what, r, _ in res.violations:
            print("  ", what[:800])
        return 1 if nviol else 0
    if rep.get("kind") == "c08-flip":
        print("sequence of options:", rep["seq"], "\n", rep["what"][:1500])
        rep = dict(rep, kind="c08")
        c0 = rep["case"]
        flip_seq = rep["seq"]
    else:
        flip_seq = None
    if rep.get("kind") == "c08-rev":
        kinds = ("leaf", "leaflist", "container", "list", "choice", "case", "any", "uses", "grouping", "rpc", "notification")

        def fx(x):
            if isinstance(x, list) and x and isinstance(x[0], str) and x[0] in kinds:
                return tuple(fx(y) for y in x)
            return [fx(y) for y in x] if isinstance(x, list) else x
        for m in c0["base"] + c0["revs"]:
            m["body"] = [fx(n) for n in m["body"]]
            m["augments"] = [(p, [fx(n) for n in b]) for p, b in m["augments"]]
            m["imports"] = [tuple(i) for i in m["imports"]]
            m["deviations"] = [(p, d) for p, d in m["deviations"]]
        stats, nviol = check_revision_cases(res, [c0], report=10)
        for m in c0["revs"]:
            print(add_revision(sg.render_module(m), m["revision"]))
        print("load order:", c0["order"], " violations:", nviol)
        for what, r, _ in res.violations:
            print("  ", what[:600])
        return 1 if nviol else 0
    sc = c0["schema"]
    devnames = set(c0.get("dev") or [])
    if c0.get("schema_style") or c0["info"].get("g") == "random-schema":
        c = dict(base=None, dev=None, schema=sc, opts=c0["opts"], info=dict(c0["info"]))
    else:
        c = dict(base=[m for m in sc if m["name"] not in devnames], dev=[m for m in sc if m["name"] in devnames],
                 opts=c0["opts"], info=dict(c0["info"]))
    # json turned tuples into lists: restore the node tuples
    kinds = ("leaf", "leaflist", "container", "list", "choice", "case", "any", "uses", "grouping", "rpc", "notification")

    def fix(x):
        if isinstance(x, list) and x and isinstance(x[0], str) and x[0] in kinds:
            return tuple(fix(y) for y in x)
        if isinstance(x, list):
            return [fix(y) for y in x]
        return x
    for m in full_schema(c):
        m["body"] = [fix(n) for n in m["body"]]
        m["augments"] = [(p, [fix(n) for n in b]) for p, b in m["augments"]]
        m["imports"] = [tuple(i) for i in m["imports"]]
        m["deviations"] = [(p, d) for p, d in m["deviations"]]
    for i, m in enumerate(full_schema(c)):
        lay = c["info"].get("layout")
        print(m["text"] if "text" in m else render_module_layout(m, random.Random(lay * 1009 + i) if lay is not None else None))
    stats, nviol = check_cases(res, [c], report=10)
    if flip_seq is not None:
        fs, fv = check_flip_cases(res, [c], 0, 1, report=10)
        nviol += fv
    print("implementation:", c.get("_st"), " violations:", nviol)
    for what, r, _ in res.violations:
        print("  ", what[:500])
    return 1 if nviol else 0
