"""Abstract schemas for the core resolver model (coq/Model/Schema.v): constructors, random generator, YANG renderer
(for the implementation), token encoder (for the extracted model) and canonical dumps of both sides' results.

A schema is a list of module dicts:
  dict(name, prefix, ns, belongs (None|owner name), imports [(prefix, module)], includes [name], body [node],
       augments [(path, [node])], deviations [(path, [deviate])])
node  = ('leaf', name, ty, cfg, mand, dflt, units) | ('leaflist', name, ty, cfg, dflts, minE, maxE)
      | ('container', name, cfg, body) | ('list', name, key, cfg, minE, maxE, body)
      | ('choice', name, cfg, mand, dflt, body) | ('case', name, body) | ('any', xml, name, cfg, mand)
      | ('uses', gname) | ('grouping', gid, name, body) | ('rpc', action, name, input, output) | ('notification', name, body)
cfg/mand = None | True | False;  deviate = dict(kind, cfg, mand, default, min, max, units, type)
"""
import json
import random

MAXU64 = (1 << 64) - 1
BUILTINS = ["int8", "int16", "int32", "int64", "uint8", "uint16", "uint32", "uint64", "string", "boolean", "binary", "empty"]


# ------------------------------------------------------------------ rendering to YANG
def _tri(kw, v):
    return "" if v is None else "%s %s; " % (kw, "true" if v else "false")


def q(s):
    return '"' + s.replace("\\", "\\\\").replace('"', '\\"') + '"'


def render_node(n, ind="  "):
    k = n[0]
    if k == "leaf":
        _, name, ty, cfg, mand, dflt, units = n
        return "%sleaf %s { type %s; %s%s%s%s}\n" % (ind, name, ty, _tri("config", cfg), _tri("mandatory", mand),
                                                     "" if dflt is None else "default %s; " % q(dflt),
                                                     "" if units is None else "units %s; " % q(units))
    if k == "leaflist":
        _, name, ty, cfg, dflts, mn, mx = n
        return "%sleaf-list %s { type %s; %s%s%s%s}\n" % (
            ind, name, ty, _tri("config", cfg), "".join("default %s; " % q(d) for d in dflts),
            "" if mn is None else "min-elements %d; " % mn,
            "" if mx is None else "max-elements %s; " % ("unbounded" if mx == MAXU64 else str(mx)))
    if k == "container":
        _, name, cfg, body = n
        return "%scontainer %s {\n%s%s%s}\n" % (ind, name, (ind + "  " + _tri("config", cfg) + "\n") if cfg is not None else "",
                                               "".join(render_node(c, ind + "  ") for c in body), ind)
    if k == "list":
        _, name, key, cfg, mn, mx, body = n
        hdr = "".join([("key %s; " % q(key)) if key is not None else "", _tri("config", cfg),
                       "" if mn is None else "min-elements %d; " % mn,
                       "" if mx is None else "max-elements %s; " % ("unbounded" if mx == MAXU64 else str(mx))])
        return "%slist %s {\n%s  %s\n%s%s}\n" % (ind, name, ind, hdr, "".join(render_node(c, ind + "  ") for c in body), ind)
    if k == "choice":
        _, name, cfg, mand, dflt, body = n
        hdr = _tri("config", cfg) + _tri("mandatory", mand) + ("" if dflt is None else "default %s; " % q(dflt))
        return "%schoice %s {\n%s  %s\n%s%s}\n" % (ind, name, ind, hdr, "".join(render_node(c, ind + "  ") for c in body), ind)
    if k == "case":
        _, name, body = n
        return "%scase %s {\n%s%s}\n" % (ind, name, "".join(render_node(c, ind + "  ") for c in body), ind)
    if k == "any":
        _, xml, name, cfg, mand = n
        return "%s%s %s { %s%s}\n" % (ind, "anyxml" if xml else "anydata", name, _tri("config", cfg), _tri("mandatory", mand))
    if k == "uses":
        return "%suses %s;\n" % (ind, n[1])
    if k == "grouping":
        _, gid, name, body = n
        return "%sgrouping %s {\n%s%s}\n" % (ind, name, "".join(render_node(c, ind + "  ") for c in body), ind)
    if k == "rpc":
        _, action, name, inp, out = n
        s = "%s%s %s {\n" % (ind, "action" if action else "rpc", name)
        if inp is not None:
            s += "%s  input {\n%s%s  }\n" % (ind, "".join(render_node(c, ind + "    ") for c in inp), ind)
        if out is not None:
            s += "%s  output {\n%s%s  }\n" % (ind, "".join(render_node(c, ind + "    ") for c in out), ind)
        return s + ind + "}\n"
    if k == "notification":
        _, name, body = n
        return "%snotification %s {\n%s%s}\n" % (ind, name, "".join(render_node(c, ind + "  ") for c in body), ind)
    raise ValueError(k)


def render_deviate(d):
    parts = [_tri("config", d.get("cfg")), _tri("mandatory", d.get("mand"))]
    if d.get("default") is not None:
        parts.append("default %s; " % q(d["default"]))
    if d.get("min") is not None:
        parts.append("min-elements %d; " % d["min"])
    if d.get("max") is not None:
        parts.append("max-elements %s; " % ("unbounded" if d["max"] == MAXU64 else str(d["max"])))
    if d.get("units") is not None:
        parts.append("units %s; " % q(d["units"]))
    if d.get("type") is not None:
        parts.append("type %s; " % d["type"])
    body = "".join(parts)
    return "    deviate %s%s\n" % (d["kind"], (" { " + body + "}") if body else ";")


def render_module(m):
    if m["belongs"] is None:
        s = 'module %s {\n  namespace "%s";\n  prefix %s;\n' % (m["name"], m["ns"], m["prefix"])
    else:
        s = "submodule %s {\n  belongs-to %s { prefix %s; }\n" % (m["name"], m["belongs"], m["prefix"])
    for p, mn in m["imports"]:
        s += "  import %s { prefix %s; }\n" % (mn, p)
    for sn in m["includes"]:
        s += "  include %s;\n" % sn
    for n in m["body"]:
        s += render_node(n)
    for path, body in m["augments"]:
        s += "  augment %s {\n%s  }\n" % (q(path), "".join(render_node(c, "    ") for c in body))
    for path, dvs in m["deviations"]:
        s += "  deviation %s {\n%s  }\n" % (q(path), "".join(render_deviate(d) for d in dvs))
    return s + "}\n"


# ------------------------------------------------------------------ encoding for the model
def hx(s):
    b = s.encode() if isinstance(s, str) else s
    return b.hex() if b else "-"


def _t(v):
    return "u" if v is None else ("t" if v else "f")


def _os(v):
    return "~" if v is None else "s" + (v.encode().hex())


def _on(v):
    return "~" if v is None else str(v)


def enc_list(items, f):
    out = [str(len(items))]
    for x in items:
        out += f(x)
    return out


def enc_node(n):
    k = n[0]
    if k == "leaf":
        _, name, ty, cfg, mand, dflt, units = n
        return ["L", hx(name), hx(ty), _t(cfg), _t(mand), _os(dflt), _os(units)]
    if k == "leaflist":
        _, name, ty, cfg, dflts, mn, mx = n
        return ["LL", hx(name), hx(ty), _t(cfg)] + enc_list(dflts, lambda d: [hx(d)]) + [_on(mn), _on(mx)]
    if k == "container":
        return ["C", hx(n[1]), _t(n[2])] + enc_list(n[3], enc_node)
    if k == "list":
        _, name, key, cfg, mn, mx, body = n
        return ["LI", hx(name), _os(key), _t(cfg), _on(mn), _on(mx)] + enc_list(body, enc_node)
    if k == "choice":
        _, name, cfg, mand, dflt, body = n
        return ["CH", hx(name), _t(cfg), _t(mand), _os(dflt)] + enc_list(body, enc_node)
    if k == "case":
        return ["CA", hx(n[1])] + enc_list(n[2], enc_node)
    if k == "any":
        return ["A", "1" if n[1] else "0", hx(n[2]), _t(n[3]), _t(n[4])]
    if k == "uses":
        return ["U", hx(n[1])]
    if k == "grouping":
        return ["G", str(n[1]), hx(n[2])] + enc_list(n[3], enc_node)
    if k == "rpc":
        _, action, name, inp, out = n
        ob = lambda b: ["~"] if b is None else ["+"] + enc_list(b, enc_node)
        return ["R", "1" if action else "0", hx(name)] + ob(inp) + ob(out)
    if k == "notification":
        return ["N", hx(n[1])] + enc_list(n[2], enc_node)
    raise ValueError(k)


def enc_deviate(d):
    return [hx(d["kind"]), _t(d.get("cfg")), _t(d.get("mand")), _os(d.get("default")), _on(d.get("min")), _on(d.get("max")),
            _os(d.get("units")), _os(d.get("type"))]


def enc_module(m):
    return (["M", hx(m["name"]), hx(m["prefix"]), hx(m["ns"]), _os(m["belongs"])]
            + enc_list(m["imports"], lambda i: [hx(i[0]), hx(i[1])])
            + enc_list(m["includes"], lambda s: [hx(s)])
            + enc_list(m["body"], enc_node)
            + enc_list(m["augments"], lambda a: [hx(a[0])] + enc_list(a[1], enc_node))
            + enc_list(m["deviations"], lambda d: [hx(d[0])] + enc_list(d[1], enc_deviate)))


def model_case(schema, order=None, opts="-"):
    # Process visits the modules in the order of their keys, then the submodules likewise
    order = order if order is not None else (sorted(m["name"] for m in schema if m["belongs"] is None)
                                             + sorted(m["name"] for m in schema if m["belongs"] is not None))
    return " ".join(["resolve", opts] + enc_list(order, lambda n: [hx(n)]) + enc_list(schema, enc_module))


def go_case(schema, opts="-", ops=None, order=None):
    """process command for the implementation; texts are loaded in [order] (default: schema order)"""
    mods = schema if order is None else [next(m for m in schema if m["name"] == n) for n in order]
    ops = ops or ",".join(["L%d" % i for i in range(len(mods))] + ["P"])
    toks = ["process", opts, ops, str(len(mods))]
    for m in mods:
        toks += [hx(m["name"] + ".yang"), hx(render_module(m))]
    return " ".join(toks)


# ------------------------------------------------------------------ canonical dumps
def canon_go_node(n):
    qq = lambda s: '"' + s + '"'
    parts = [qq(n["name"]), n["kind"], n["config"], n["mandatory"],
             "[" + ",".join(qq(d) for d in (n.get("default") or [])) + "]",
             qq(n.get("units", "")),
             qq(n["type"]["name"]) if n.get("type") else "-",
             qq(n.get("key", "")),
             ":".join(n["list"].split(":")[:2]) if n.get("list") else "-",
             qq(n["ns"]), "RO" if n["ro"] else "rw",
             "ERR" if n["instmod"] in ("ERR",) or n["instmod"].startswith("PANIC") else qq(n["instmod"])]
    s = "(" + " ".join(parts)
    if not n["hasdir"]:
        s += " nodir"
    else:
        s += " {" + "".join(canon_go_node(c) for c in sorted(n.get("children") or [], key=lambda c: c["name"].encode())) + "}"
    if n.get("hasrpc"):
        s += " rpc"
        if n.get("input"):
            s += " in" + canon_go_node(n["input"])
        if n.get("output"):
            s += " out" + canon_go_node(n["output"])
    return s + ")"


def canon_go(line):
    """(status, canonical forest of the modules (submodule trees projected away), dump dict)"""
    if not line.startswith("{"):
        return line.split(" ")[0], None, None
    j = json.loads(line)
    run = j["runs"][-1]
    if any(l.startswith("err") for l in j["loads"]):
        return "loaderr", None, j
    if run["errors"]:
        return "err", None, j
    mods = sorted([m for m in run["modules"] if not m["sub"]], key=lambda m: m["name"].encode())
    return "ok", "ok " + " ".join(canon_go_node(m["tree"]) for m in mods), j


# ------------------------------------------------------------------ random generation
class Gen:
    """random, mostly valid module sets exercising groupings, uses, augments, choices, rpcs, submodules, deviations"""

    def __init__(self, rnd, n_modules=None, faults=0.0, p_sub=0.35, p_dev=0.5, p_aug=0.8):
        self.rnd = rnd
        self.faults = faults
        self.gid = 0
        self.uid = 0
        self.n_modules = n_modules or rnd.randint(1, 3)
        self.p_sub, self.p_dev, self.p_aug = p_sub, p_dev, p_aug

    def name(self, stem):
        self.uid += 1
        return "%s%d" % (stem, self.uid)

    def tri(self, p=0.3):
        r = self.rnd.random()
        return None if r > p else (r < p / 2)

    def leaf(self, name=None):
        r = self.rnd
        ty = r.choice(BUILTINS)
        return ("leaf", name or self.name("l"), ty, self.tri(), self.tri(0.15),
                r.choice([None, None, "d%d" % r.randint(0, 3)]), r.choice([None, None, "u1"]))

    def leaflist(self):
        r = self.rnd
        mn = r.choice([None, None, 0, 1, 2])
        mx = r.choice([None, None, 5, 10, MAXU64])
        return ("leaflist", self.name("ll"), r.choice(BUILTINS), self.tri(), ["v%d" % i for i in range(r.choice([0, 0, 1, 2]))], mn, mx)

    def body(self, depth, groupings, allow_action=True, n=None, in_choice=False, allow_uses=True, allow_notif=False):
        """groupings: list of usable grouping reference strings at this point"""
        r = self.rnd
        out = []
        for _ in range(n if n is not None else r.randint(1, 3 if depth > 0 else 2)):
            x = r.random()
            if depth <= 0 or x < 0.35:
                out.append(self.leaf() if r.random() < 0.75 else self.leaflist())
            elif x < 0.55:
                out.append(("container", self.name("c"), self.tri(), self.body(depth - 1, groupings, allow_action)))
            elif x < 0.65:
                b = self.body(depth - 1, groupings, allow_action)
                key = None
                for c in b:
                    if c[0] == "leaf":
                        key = c[1]
                        break
                out.append(("list", self.name("li"), key, self.tri(), r.choice([None, 0, 1]), r.choice([None, 4, MAXU64]), b))
            elif x < 0.75 and not in_choice:
                cb = []
                for _ in range(r.randint(1, 3)):
                    if r.random() < 0.5:
                        cb.append(("case", self.name("cs"), self.body(depth - 1, groupings, False, allow_uses=allow_uses)))
                    else:
                        cb.append(r.choice([self.leaf(), ("container", self.name("c"), self.tri(), self.body(depth - 1, groupings, False))]))
                dflt = None
                out.append(("choice", self.name("ch"), self.tri(), self.tri(0.1), dflt, cb))
            elif x < 0.85 and groupings and allow_uses:
                out.append(("uses", r.choice(groupings)))
            elif x < 0.90:
                out.append(("any", r.random() < 0.5, self.name("any"), self.tri(), self.tri(0.1)))
            elif x < 0.96 and allow_action:
                inp = self.body(depth - 1, groupings, False) if r.random() < 0.6 else None
                outp = self.body(depth - 1, groupings, False) if r.random() < 0.5 else None
                out.append(("rpc", True, self.name("act"), inp, outp))
            else:
                out.append(self.leaf())
        return out

    def schema(self):
        r = self.rnd
        mods = []
        for i in range(self.n_modules):
            # own prefixes are local names: now and then two modules choose the same one
            mods.append(dict(name="m%d" % i, prefix=("p0" if i and r.random() < 0.25 else "p%d" % i), ns="urn:m%d" % i,
                             belongs=None, imports=[], includes=[], body=[],
                             augments=[], deviations=[]))
        # imports: later modules import earlier ones (and sometimes the other way round) under arbitrary prefixes
        for i, m in enumerate(mods):
            for j, o in enumerate(mods):
                if i != j and (j < i or r.random() < 0.3) and r.random() < 0.8:
                    m["imports"].append((r.choice(["x%d" % j, o["prefix"], "q%d%d" % (i, j)]), o["name"]))
            # import prefixes must be distinct from each other and from the own prefix
            seen, imps = {m["prefix"]}, []
            for p, mn in m["imports"]:
                if p in seen:
                    p = p + "z%d" % len(seen)
                seen.add(p)
                imps.append((p, mn))
            m["imports"] = imps
        # submodules
        subs = []
        for m in list(mods):
            if r.random() < self.p_sub:
                s1 = dict(name=m["name"] + "s1", prefix=m["prefix"], ns="", belongs=m["name"], imports=list(m["imports"]), includes=[],
                          body=[], augments=[], deviations=[])
                m["includes"].append(s1["name"])
                subs.append(s1)
                if r.random() < 0.4:
                    s2 = dict(name=m["name"] + "s2", prefix=m["prefix"], ns="", belongs=m["name"], imports=list(m["imports"]), includes=[],
                              body=[], augments=[], deviations=[])
                    (s1 if r.random() < 0.6 else m)["includes"].append(s2["name"])
                    subs.append(s2)
        allm = mods + subs
        # groupings, bottom up: grouping k may use groupings defined before it that are visible from its module
        gtable = []  # (owner module dict, name)
        for k in range(r.randint(0, 4)):
            owner = r.choice(allm)
            self.gid += 1
            usable = self.visible_groupings(owner, gtable, allm)
            g = ("grouping", self.gid, self.name("g"), self.body(2, usable, allow_action=True))
            owner["body"].append(g)
            gtable.append((owner, g[2]))
        # data nodes
        for m in allm:
            usable = self.visible_groupings(m, gtable, allm)
            m["body"] += self.body(2, usable, allow_action=False, n=r.randint(1, 3))
            if r.random() < 0.4:
                inp = self.body(1, usable, False) if r.random() < 0.6 else None
                outp = self.body(1, usable, False) if r.random() < 0.5 else None
                m["body"].append(("rpc", False, self.name("rpc"), inp, outp))
            if r.random() < 0.3:
                m["body"].append(("notification", self.name("nt"), self.body(1, usable, False)))
            if r.random() < 0.3:
                # a nested grouping used next to it
                self.gid += 1
                gn = self.name("ng")
                m["body"].append(("container", self.name("c"), None,
                                  [("grouping", self.gid, gn, self.body(1, usable, False)), ("uses", gn), self.leaf()]))
        return allm, gtable

    def visible_groupings(self, m, gtable, allm):
        """reference strings by which module m can name the top-level groupings defined so far (per FindGrouping)"""
        out = []
        byname = {x["name"]: x for x in allm}

        def included(x, seen):
            res = []
            for sn in x["includes"]:
                if sn in seen:
                    continue
                seen.add(sn)
                res.append(byname[sn])
                res += included(byname[sn], seen)
            return res
        local = [m] + included(m, set())
        for owner, gname in gtable:
            if owner in local:
                out.append(self.rnd.choice([gname, m["prefix"] + ":" + gname]))
            else:
                for p, mn in m["imports"]:
                    tgt = byname[mn]
                    if owner is tgt or owner in included(tgt, set()):
                        out.append(p + ":" + gname)
                        break
        return out


# ------------------------------------------------------------------ reference paths (for augment / deviation targets)
def expand_paths(schema, m, prefix_for):
    """schema-node paths of module m's own tree after uses expansion (no augments): list of (steps, node kind, node)
    steps are unprefixed names; used only to CHOOSE targets, never as an oracle."""
    byname = {x["name"]: x for x in schema}
    out = []

    def find_g(ctxmod, scopes, ref):
        name = ref.split(":")[-1]
        pfx = ref.split(":")[0] if ":" in ref else None
        if pfx is None or pfx == ctxmod["prefix"]:
            for sc in scopes:
                for n in sc:
                    if n[0] == "grouping" and n[2] == name:
                        return ctxmod, scopes[scopes.index(sc):], n
            for x in [ctxmod] + all_includes(ctxmod):
                for n in x["body"]:
                    if n[0] == "grouping" and n[2] == name:
                        return x, [x["body"]], n
            return None
        for p, mn in ctxmod["imports"]:
            if p == pfx:
                t = byname[mn]
                for x in [t] + all_includes(t):
                    for n in x["body"]:
                        if n[0] == "grouping" and n[2] == name:
                            return x, [x["body"]], n
        return None

    def all_includes(x, seen=None):
        seen = seen if seen is not None else set()
        res = []
        for sn in x["includes"]:
            if sn in seen or sn not in byname:
                continue
            seen.add(sn)
            res.append(byname[sn])
            res += all_includes(byname[sn], seen)
        return res

    def walk(ctxmod, scopes, body, steps, depth):
        if depth > 8:
            return
        for n in body:
            k = n[0]
            if k == "uses":
                g = find_g(ctxmod, [body] + scopes, n[1])
                if g:
                    walk(g[0], g[1], g[2][3], steps, depth + 1)
            elif k == "grouping":
                continue
            elif k in ("leaf", "leaflist", "any"):
                nm = n[2] if k == "any" else n[1]
                out.append((steps + [nm], k, n))
            elif k == "rpc":
                out.append((steps + [n[2]], "rpc", n))
                for io, b in (("input", n[3]), ("output", n[4])):
                    out.append((steps + [n[2], io], io if b is not None else io + "-implicit", n))
                    if b is not None:
                        walk(ctxmod, [body] + scopes, b, steps + [n[2], io], depth + 1)
            else:
                nm = n[1]
                b = n[-1]
                out.append((steps + [nm], k, n))
                if k == "choice":
                    for c in b:
                        if c[0] == "case":
                            out.append((steps + [nm, c[1]], "case", c))
                            walk(ctxmod, [b, body] + scopes, c[2], steps + [nm, c[1]], depth + 1)
                        else:
                            cn = c[2] if c[0] == "any" else c[1]
                            # shorthand: implicit case of the same name (only after FixChoice)
                            out.append((steps + [nm, cn, cn], c[0] + "-in-implicit-case", c))
                else:
                    walk(ctxmod, [body] + scopes, b, steps + [nm], depth + 1)
    for x in [m] + all_includes(m):
        walk(x, [], x["body"], [], 0)
    return out


def add_augments_deviations(gen, schema):
    """adds augments (incl. chains, uses inside augments, choice/case/rpc targets) and deviations to the modules"""
    r = gen.rnd
    mods = [m for m in schema if m["belongs"] is None]
    byname = {x["name"]: x for x in schema}
    for src in schema:
        if r.random() > gen.p_aug:
            continue
        for _ in range(r.randint(1, 2)):
            # target module: own or imported
            cands = [(src["prefix"], byname[src["belongs"]] if src["belongs"] else src)] + \
                    [(p, byname[mn]) for p, mn in src["imports"] if byname[mn]["belongs"] is None]
            pfx, tgt = r.choice(cands)
            if tgt is None:
                continue
            paths = [p for p in expand_paths(schema, tgt, None)
                     if p[1] in ("container", "list", "case", "choice", "input", "output", "input-implicit", "output-implicit", "notification")]
            if not paths:
                continue
            steps, kind, _ = r.choice(paths)
            path = "/" + "/".join(pfx + ":" + s for s in steps)
            usable = gen.visible_groupings(src, [(o, g[2]) for o in schema for g in o["body"] if g[0] == "grouping"], schema)
            if kind == "choice":
                body = [("case", gen.name("acs"), gen.body(1, usable, False))] if r.random() < 0.6 else [gen.leaf()]
            else:
                body = gen.body(1, usable, allow_action=False, n=r.randint(1, 2))
            src["augments"].append((path, body))
            # chain: a second augment into a container the first one created
            conts = [c for c in body if c[0] == "container"]
            if conts and r.random() < 0.5:
                other = r.choice(schema)
                opfx = None
                oown = byname[other["belongs"]] if other["belongs"] else other
                if oown is tgt:
                    opfx = other["prefix"]
                else:
                    for p, mn in other["imports"]:
                        if byname[mn] is tgt:
                            opfx = p
                if opfx:
                    p2 = "/" + "/".join(opfx + ":" + s for s in steps + [conts[0][1]])
                    other["augments"].insert(r.randint(0, len(other["augments"])), (p2, [gen.leaf()]))
    for src in mods:
        if r.random() > gen.p_dev:
            continue
        cands = [(src["prefix"], src)] + [(p, byname[mn]) for p, mn in src["imports"] if byname[mn]["belongs"] is None]
        pfx, tgt = r.choice(cands)
        paths = [p for p in expand_paths(schema, tgt, None) if p[1] in ("leaf", "leaflist", "list", "container")]
        if not paths:
            continue
        for _ in range(r.randint(1, 2)):
            steps, kind, node = r.choice(paths)
            path = "/" + "/".join(pfx + ":" + s for s in steps)
            dvs = []
            for _ in range(r.randint(1, 2)):
                kk = r.choice(["add", "replace", "delete", "replace", "not-supported"])
                d = dict(kind=kk)
                if kk != "not-supported":
                    for _ in range(r.randint(1, 2)):
                        f = r.choice(["cfg", "mand", "default", "min", "max", "units", "type"])
                        if f in ("units", "type") and kk == "delete":
                            continue
                        d[f] = {"cfg": r.random() < 0.5, "mand": r.random() < 0.5, "default": "d%d" % r.randint(0, 3),
                                "min": r.choice([0, 1, 2]), "max": r.choice([4, 5, MAXU64]), "units": "u2", "type": r.choice(BUILTINS)}[f]
                dvs.append(d)
            src["deviations"].append((path, dvs))


def random_schema(rnd, **kw):
    g = Gen(rnd, **kw)
    schema, _ = g.schema()
    add_augments_deviations(g, schema)
    return schema
