"""C02 — generic parsing agrees with the RFC 7950 section 6 reading of the text.

Two comparisons on every run, on the same generated texts:
 (i)  correspondence: yang.Parse vs the executable Coq model of lex.go/parse.go (`parse`), full observation;
 (ii) oracle: the reference reader extracted from coq/Spec/C02.v (`specparse`, the RFC reading written directly over
      the rune list) vs yang.Parse: wherever the reference reader is not Ambiguous (the four constructs the property
      excludes, and D48), Go must accept with exactly that forest, resp. reject.
Any disagreement is a VIOLATION with the text as replay."""
import itertools
import random
import re

import lib
from props import c16

ALPHABET = ["a", "+", "/", "*", ";", "{", "}", "'", '"', "\\", "n", " ", "\t", "\n"]
BODY_ALPHABET = ["x", " ", "\t", "\n", "\r", "\\", "n", "t", '"']
# layouts P for the sweep  P "body";  (quote column, tabs, multi-byte runes, comments / strings before the quote)
LAYOUTS = ["a ", "\ta\t", "é é\t", "/* c */ a ", "a 'q' + ", "pattern ", "  pattern\t", "a {\n\tpattern ", "a\n /* \n */ b\t ",
           "a //\n      "]
POS = re.compile(r",(-?\d+),(-?\d+);")
CHUNK = 400000
# a necessary condition for each construct the property excludes (coarse on purpose: it only has to be implied by
# the precise triggers of coq/Spec/C02.v).  The reference reader must not answer Ambiguous on a text that shows none
# of them (that would silently shrink the claim; it would also reveal the reader running out of fuel).
EXCLUDED_SHAPES = re.compile(
    r"[^\s;{}'\"]/[/*]"           # (1) comment opener inside an unquoted token
    r"|\n[ \t]*\t"               # (2) a tab among the leading blanks of a continuation line
    r"|\\[t \t][ \t]*\n"        # (3) escape-produced blank, blanks, line break
    r"|\r\n"                     # (4) CR LF
    r"|\\\n")                    # D48 backslash + line break


def exhaustive(alphabet, maxlen, minlen=0):
    for n in range(minlen, maxlen + 1):
        for tup in itertools.product(alphabet, repeat=n):
            yield "".join(tup)


def multiline_grid(maxcol):
    """P "x<LF><indent>y";  for every quote column up to maxcol, made of spaces and/or tabs, and every continuation
    indent made of spaces with at most one tab at every position"""
    out = []
    prefixes = []
    for q in range(0, maxcol + 1):
        if q >= 2:
            prefixes.append("a" + " " * (q - 1))                      # quote at column q
        if q % 8 == 0 and q > 0:
            prefixes.append("a" + "\t" * (q // 8))                    # reached by tabs
        if q >= 10:
            prefixes.append("é\t" + " " * (q - 8))
    for p in prefixes:
        width = len(p.expandtabs(8)) if "é" not in p else len(p.replace("é", "e").expandtabs(8))
        for n in range(0, width + 4):
            out.append(p + '"x\n' + " " * n + 'y";')
            out.append(p + '"x  \t\n' + " " * n + '\ty" ;')
        for t in range(0, min(width + 2, 18)):
            for m in (0, 1, 3):
                out.append(p + '"x\n' + " " * t + "\t" + " " * m + 'y";')
        out.append(p + '"x\n\n' + " " * width + ' y\n"\n;')
    return out


ARGS = ["b", "'b'", '"b"', "'a' + 'b'", '"a"+"b"', "'a'\n+\n\"b\" + 'c'", '"\\n\\t\\"\\\\"', '"a\\\\n"', "''", '""', "'\"'", '"\'"',
        "+", "a+b", "+'b'", "'b'+", '"a" + b', "'a' 'b'", '"a\n b"', '"a \n\tb"', '" a "', "'é'", '"日本\n  語"', "a'b'", 'a"b"',
        "'a'/**/+//\n'b'", "b/**/", "b//", "/**/b", "'a'+/**/'b'", '"\\q"', '"\\d+\\.\\s"', '"a\\\n b"', '"\\t\n"', '"\\t \n"', '"a\r\nb"',
        '"a\\ \nb"', '"a\rb"', '"^\\d+$"', '"a" + "\\S"', "'a' + \"\\S\"", '"\\n" + "b" + "\\w+"', '"a"\n+\n"\\."', "'a\r\nb'", '"\t\n\tb"', '"a\n\t\tb"']
KWS = ["a", "pattern", "é", "+", "/", "a:b", "patternx", "xpattern",
       # only the unprefixed keyword `pattern` switches pattern mode: not extensions that merely look like it
       "oc-ext:posix-pattern", "o:pattern", "posix-pattern", "x:foo-pattern", "pattern:x", ":pattern", "o:posix-patternx", "Pattern"]
GAPS = ["", " ", "\t", "\n", "/**/", " /* c */ ", "//\n", " // c\n\t", "\r\n", "/*/*/", "/* // */", "// /*\n"]


def grammar_cases(rnd, n):
    out = []
    # every keyword x argument form x terminator, with one gap kind in every gap
    for kw in KWS:
        for a in ARGS:
            for g in (" ", "/**/", "//\n", "\n\t"):
                g1 = g if not g.startswith("/") else " " + g
                out.append(kw + g1 + a + g + ";")
                out.append(kw + g1 + a + g + "{" + g + "}")
                out.append("x {" + g + kw + g1 + a + g + ";" + g + "}")
                out.append("x { y {" + g + kw + g1 + a + g + "{" + kw + g1 + a + ";}" + g + "} }")
    # comments in every gap of a fixed text
    toks = ["a", "'b'", "+", '"c"', "{", "pattern", '"\\d"', ";", "d", "e", ";", "}"]
    for g in GAPS:
        for i in range(len(toks) + 1):
            parts = []
            for j, t in enumerate(toks):
                sep = g if j == i else " "
                parts.append(sep + t)
            out.append("".join(parts) + (g if i == len(toks) else ""))
    for _ in range(n):
        out.append(c16.render(rnd, c16.gen_text(rnd)))
    return out


def long_concatenations(rnd):
    """arguments of many +-joined quoted pieces with distinct texts (counts around 16, 32, 64), both quote styles, all layouts"""
    out = []
    for n in (2, 3, 7, 8, 9, 15, 16, 17, 18, 31, 32, 33, 34, 48, 63, 64, 65, 100):
        for style in ("dq", "sq", "mixed", "empty-mixed"):
            pieces = []
            for i in range(n):
                body = "" if (style == "empty-mixed" and i % 3 == 0) else "p%d." % i
                q = '"' if style == "dq" or (style != "sq" and i % 2 == 0) else "'"
                pieces.append(q + body + q)
            for sep in ("+", " + ", "\n+\n", "/*c*/+//c\n", "\t+ ", None):
                joined = pieces[0]
                for pc in pieces[1:]:
                    sp = sep if sep is not None else rnd.choice([" + ", "+", "\n\t+\n", " /* é */ + ", "+ // x\n"])
                    joined += sp + pc
                for kw, tail in (("a", ";"), ("pattern", " { b c; }"), ("x:y", ";")):
                    out.append("%s %s%s" % (kw, joined, tail))
                out.append("k { l %s; m %s; }" % (joined, joined))
            # a piece missing its + in the middle, a doubled +, a trailing +
            out.append("a " + " + ".join(pieces[:n // 2]) + " " + " + ".join(pieces[n // 2:]) + ";")
            out.append("a " + " + ".join(pieces) + " + ;")
            out.append("a " + " + + ".join(pieces) + ";")
    return out


def malformed_cases(rnd, n):
    out = []
    for f in c16.FAULTS:
        for _ in range(n):
            out.append(c16.render(rnd, c16.mutate(rnd, c16.gen_text(rnd), f)))
    out += ["", " ", "\n", ";", "{", "}", "a", "a b", "a;", "a{", "a}", "a{}", "a{}}", "a{{}", "'a';", '"a";', "a 'b", 'a "b', "/*", "/*/",
            "/**/", "//", "a/*", "a//", "a /*/ b; */", "a b c;", "a 'b' c;", "a 'b' + ;", "a 'b' + c;", "a 'b' +", "a + ;", "a + + ;",
            "a +'b';", "+ + +;", "a b +;", 'a "\\', 'a "\\"', "a '\\';", "a;;", "a {;}", "a { b }", "a \"b\"\"c\";", "a 'b''c';"]
    return out



# ------------------------------------------------------------------ the lexer's rune loop on bytes (Model/Utf8.v)
U8_BOUNDARY = [0x00, 0x09, 0x0a, 0x0d, 0x20, 0x61, 0x7f, 0x80, 0x8f, 0x90, 0x9f, 0xa0, 0xbf, 0xc0, 0xc1, 0xc2, 0xdf, 0xe0, 0xe1, 0xec, 0xed,
               0xee, 0xef, 0xf0, 0xf1, 0xf3, 0xf4, 0xf5, 0xf7, 0xf8, 0xfb, 0xfc, 0xfd, 0xfe, 0xff]
U8_LEADS = [0xc2, 0xdf, 0xe0, 0xe1, 0xed, 0xef, 0xf0, 0xf1, 0xf4]
U8_TAILS = [0x7f, 0x80, 0x8f, 0x90, 0x9f, 0xa0, 0xbf, 0xc0]


def utf8_byte_texts(rnd, quick):
    """every byte string up to length 2 over all 256 bytes; every string lead x tail^1..3 over the boundary leads and tails
    of Go's acceptRanges, alone and followed by `a`; every string up to length 3 (quick) / 4 over 35 boundary bytes sampled;
    random mixes of well-formed multi-byte characters, tabs, line breaks and ill-formed pieces"""
    out = [b""]
    out += [bytes([a]) for a in range(256)]
    out += [bytes([a, b]) for a in range(256) for b in range(256)]
    for l in U8_LEADS:
        for n in (1, 2, 3):
            for tl in itertools.product(U8_TAILS, repeat=n):
                out.append(bytes((l,) + tl))
                out.append(bytes((l,) + tl) + b"a\n")
    for tup in itertools.product(U8_BOUNDARY, repeat=3):
        if quick and rnd.random() > 0.15:
            continue
        out.append(bytes(tup))
    good = ["a", "\t", "\n", "\r\n", " ", "\u00e9", "\u20ac", "\U0001F600", "\ud7ff", "\ue000", "\ufffd", "\U0010FFFF", "\u0080", "\u07ff", "\u0800",
            "\U00010000", ";", "{", "}", '"', "'"]
    bad = [bytes([x]) for x in U8_BOUNDARY if x >= 0x80] + [b"\xe2\x82", b"\xf0\x9f\x98", b"\xed\xa0\x80", b"\xf4\x90\x80\x80", b"\xe0\x9f\xbf",
                                                            b"\xf0\x8f\xbf\xbf", b"\xc0\xaf"]
    for _ in range(1500 if quick else 30000):
        parts = []
        for _ in range(rnd.randint(1, 12)):
            parts.append(rnd.choice(good).encode("utf-8", "surrogatepass") if rnd.random() < 0.7 else rnd.choice(bad))
        out.append(b"".join(parts))
    return out

class Tally:
    def __init__(self, res):
        self.u8 = dict(cases=0, mismatches=0, runes=0, replacement_runes=0, multibyte_runes=0)
        self.res = res
        self.n = 0
        self.corr_mism = 0
        self.oracle_mism = 0
        self.verdicts = dict(accept=0, reject=0, ambiguous=0)
        self.impl = dict(ok=0, err=0)
        self.kinds = {}
        self.nontrivial = 0
        self.oof = 0
        self.terminated_checked = 0
        self.samples = []

    def run(self, kind, texts, model=True, shards=None):
        """model=False: only the reference reader is compared with yang.Parse (texts on which the extracted model is too slow)"""
        res = self.res
        texts = list(texts)
        if not texts:
            return
        if shards:
            # few, expensive cases: spread them over the shards (run_sharded cuts the list into contiguous parts)
            size = (len(texts) + shards - 1) // shards
            order = sorted(texts, key=len, reverse=True)
            buckets = [order[i::shards] for i in range(shards)]
            # bucket sizes differ by at most one; pad order so that contiguous cutting reproduces the buckets
            texts = [t for b in buckets for t in b]
        hs = [c16.hx(t) for t in texts]
        pc = ["parse " + h for h in hs]
        sc = ["specparse " + h for h in hs]
        go = lib.run_go(pc)
        ml = lib.run_ml(pc, shards=shards) if model else go
        sp = lib.run_ml(sc, shards=shards)
        # the theorems speak about the text forced to end in a line break (what yang.Parse lexes): the reference
        # reader must not care
        unterminated = [i for i, t in enumerate(texts) if t and not t.endswith("\n")]
        spt = lib.run_ml(["specparse " + hs[i] + "0a" for i in unterminated])
        for i, s2 in zip(unterminated, spt):
            if s2 != sp[i]:
                self.oracle_mism += 1
                if self.oracle_mism <= 3:
                    res.violation("reference reader changes its answer when the text %r is terminated by a line break: %s vs %s"
                                  % (texts[i][:200], sp[i][:200], s2[:200]), dict(kind="oracle-termination", case=pc[i], spec=sp[i], spec_terminated=s2))
        self.terminated_checked += len(unterminated)
        self.n += len(texts)
        k = self.kinds.setdefault(kind, dict(cases=0, accept=0, reject=0, ambiguous=0))
        k["cases"] += len(texts)
        for t, c, g, m, s in zip(texts, pc, go, ml, sp):
            if m == "model-out-of-fuel":
                self.oof += 1
            if g != m:
                self.corr_mism += 1
                if self.corr_mism <= 3:
                    res.violation("yang.Parse and the model of lex.go/parse.go disagree on %r: impl=%s model=%s" % (t[:200], g[:300], m[:300]),
                                  dict(kind="correspondence", case=c, impl=g, model=m))
            v = s.split(" ", 1)[0]
            if v not in self.verdicts:
                self.oracle_mism += 1
                res.violation("reference reader failed on %r: %s" % (t[:200], s[:200]), dict(kind="oracle", case=c, impl=g, spec=s))
                continue
            self.verdicts[v] += 1
            k[v] += 1
            if v == "ambiguous" and not EXCLUDED_SHAPES.search(t):
                self.oracle_mism += 1
                if self.oracle_mism <= 3:
                    res.violation("reference reader answers Ambiguous on %r, which shows none of the excluded constructs" % t[:200],
                                  dict(kind="oracle-vacuity", case=c, impl=g, spec=s))
            self.impl["ok" if g.startswith("ok") else "err"] += 1
            if v == "accept":
                want = "ok " + s[len("accept "):]
                got = POS.sub(";", g)
                if got != want:
                    self.oracle_mism += 1
                    if self.oracle_mism <= 3:
                        res.violation("RFC reading accepts %r with forest %s but yang.Parse gives %s" % (t[:200], s[:300], g[:300]),
                                      dict(kind="oracle", case=c, impl=g, spec=s))
                elif g.startswith("ok ("):
                    self.nontrivial += 1
            elif v == "reject":
                if not g.startswith("err"):
                    self.oracle_mism += 1
                    if self.oracle_mism <= 3:
                        res.violation("RFC reading rejects %r but yang.Parse gives %s" % (t[:200], g[:300]),
                                      dict(kind="oracle", case=c, impl=g, spec=s))
                else:
                    self.nontrivial += 1
        if len(self.samples) < 6:
            i = len(texts) // 2
            self.samples.append(dict(kind=kind, case=pc[i], impl=go[i], spec=sp[i]))

    def run_bytes(self, kind, texts):
        """texts given as bytes (invalid UTF-8): yang.Parse keeps the raw bytes of unquoted and single-quoted text where the
        rune-level model and the reference reader have U+FFFD, so the hex fields are compared after Go-style re-decoding"""
        res = self.res
        pc = ["parse " + b.hex() for b in texts]
        go, ml, sp = lib.run_go(pc), lib.run_ml(pc), lib.run_ml(["specparse " + b.hex() for b in texts])
        self.n += len(texts)
        k = self.kinds.setdefault(kind, dict(cases=0, accept=0, reject=0, ambiguous=0))
        k["cases"] += len(texts)
        for b, c, g, m, s in zip(texts, pc, go, ml, sp):
            g2, m2, s2 = c16.canon_runes(g), c16.canon_runes(m), c16.canon_runes(s)
            if g2 != m2:
                self.corr_mism += 1
                if self.corr_mism <= 3:
                    res.violation("yang.Parse and the model disagree on bytes %r: impl=%s model=%s" % (b[:80], g[:300], m[:300]),
                                  dict(kind="correspondence", case=c, impl=g, model=m))
            v = s.split(" ", 1)[0]
            if v in self.verdicts:
                self.verdicts[v] += 1
                k[v] += 1
            self.impl["ok" if g.startswith("ok") else "err"] += 1
            bad = (v == "accept" and POS.sub(";", g2) != "ok " + s2[len("accept "):]) or (v == "reject" and not g.startswith("err")) \
                or v not in self.verdicts
            if bad:
                self.oracle_mism += 1
                if self.oracle_mism <= 3:
                    res.violation("RFC reading of bytes %r is %s but yang.Parse gives %s" % (b[:80], s[:300], g[:300]),
                                  dict(kind="oracle", case=c, impl=g, spec=s))
            elif v != "ambiguous":
                self.nontrivial += 1

    def run_lextrace(self, texts):
        """lexer.next over the bytes: rune, width, line, col, tcol per call -- implementation (hook VerifLexerTrace) against the
        extracted Model/Utf8.lexer_trace (decode + Lex.next)"""
        res = self.res
        cs = ["lextrace " + (b.hex() or "-") for b in texts]
        go, ml = lib.run_go(cs), lib.run_ml(cs, shards=lib.NCPU)
        self.n += len(texts)
        st = self.u8
        st["cases"] += len(texts)
        for b, c, g, m in zip(texts, cs, go, ml):
            if g != m:
                st["mismatches"] += 1
                self.corr_mism += 1
                if st["mismatches"] <= 3:
                    res.violation("the lexer's rune loop and the model disagree on bytes %r: impl=%s model=%s" % (b[:40], g[:200], m[:200]),
                                  dict(kind="lextrace", case=c, impl=g, model=m))
            else:
                runes = [int(x.split(":")[0]) for x in g[6:].split(",")] if g != "trace -" else []
                st["runes"] += len(runes)
                st["replacement_runes"] += sum(1 for r in runes if r == 0xFFFD)
                st["multibyte_runes"] += sum(1 for x in (g[6:].split(",") if g != "trace -" else []) if int(x.split(":")[1]) > 1)

    def run_chunked(self, kind, it):
        buf = []
        for t in it:
            buf.append(t)
            if len(buf) >= CHUNK:
                self.run(kind, buf)
                buf = []
        self.run(kind, buf)


def printer_leg(res, texts, seed, n=2000):
    """the text printer of Model/Printer.v (theorems C02_print_*) against yang.Parse itself: for a sample of the
    grammar-directed texts that the reference reader accepts, the forest is printed by the extracted print_forest
    (command printparse, which also re-reads the printed text with the reference reader) and the PRINTED text is given
    to yang.Parse: it must yield exactly the forest the original text yields (keywords, argument presence, argument
    strings, nesting and order; positions ignored).  Its own PRNG, so that the main sweep's cases do not move."""
    rnd = random.Random(seed ^ 0x5052494e54)
    texts = sorted(set(texts))
    if len(texts) > 2 * n:
        texts = rnd.sample(texts, 2 * n)        # about half of them are accepted; at most n printed texts go to yang.Parse
    hs = [c16.hx(t) for t in texts]
    pr = lib.run_ml(["printparse " + h for h in hs])
    st = dict(cases=len(texts), printed=0, reject=0, ambiguous=0, statements=0, escaped_arguments=0, pattern_statements=0,
              identical_text=0, mismatches=0)
    idx = []
    for i, o in enumerate(pr):
        if o.startswith("printed "):
            if len(idx) < n:
                idx.append(i)
        elif o in ("reject", "ambiguous"):
            st[o] += 1
        else:
            st["mismatches"] += 1
            if st["mismatches"] <= 3:
                res.violation("printer: the extracted print_forest / reference reader failed on %r: %s" % (texts[i][:200], o[:200]),
                              dict(kind="printer", case="parse " + hs[i], printed=o))
    go1 = lib.run_go(["parse " + hs[i] for i in idx])
    go2 = lib.run_go(["parse " + pr[i][len("printed "):] for i in idx])
    for i, a, b in zip(idx, go1, go2):
        st["printed"] += 1
        ph = pr[i][len("printed "):]
        st["statements"] += a.count("(")
        st["escaped_arguments"] += 1 if "5c" in [ph[j:j + 2] for j in range(0, len(ph), 2)] else 0
        st["pattern_statements"] += a.count("(7061747465726e,")
        st["identical_text"] += 1 if ph == hs[i] else 0
        if not a.startswith("ok") or POS.sub(";", a) != POS.sub(";", b):
            st["mismatches"] += 1
            if st["mismatches"] <= 3:
                res.violation("printer: yang.Parse reads %r as %s but the printed text %r as %s"
                              % (texts[i][:200], a[:300], bytes.fromhex(ph.replace("-", "")).decode("utf-8", "replace")[:200], b[:300]),
                              dict(kind="printer", case="parse " + hs[i], printed=ph, impl=a, impl_printed=b))
    return st


def run(res, tier, seed, proof):
    rnd = random.Random(seed)
    quick = tier == "quick"
    T = Tally(res)
    n_ex = 5 if quick else 6
    T.run_chunked("exhaustive<=%d" % n_ex, exhaustive(ALPHABET, n_ex))
    nb = 4 if quick else 5
    for p in (LAYOUTS[:6] if quick else LAYOUTS):
        T.run_chunked("body-sweep", (p + '"' + b + '";' for b in exhaustive(BODY_ALPHABET, nb)))
    if not quick:
        # longer strings over sub-alphabets chosen per lexer state
        T.run_chunked("sub:comments", exhaustive(["a", "/", "*", "\n", " ", ";"], 8, 7))
        T.run_chunked("sub:dquote", ("k " + x for x in exhaustive(['"', "\\", "n", " ", "\n", "x"], 8, 7)))
        T.run_chunked("sub:concat", exhaustive(["a", "+", "'", '"', " ", ";"], 8, 7))
        T.run_chunked("sub:braces", exhaustive(["a", ";", "{", "}", " "], 9, 7))
    # every token sequence over a 15-token alphabet incl. quoted spellings of + ; { } (quick: up to length 4, and length 5
    # over the 11 core tokens; thorough: up to length 6), minimal separators; the longest full length again behind `x ` and
    # `x {`; and with random blanks/comments between the tokens
    tl = 4 if quick else 6
    T.run_chunked("token-sequences<=%d" % tl, (c16.render_tokens(q) for q in c16.token_sequences(tl)))
    if quick:
        T.run_chunked("token-sequences:core=5", (c16.render_tokens(q) for q in c16.token_sequences(5, 5, c16.CORE_TOKENS)))
    T.run_chunked("token-sequences:prefixed", (pre + c16.render_tokens(q) for pre in ("x ", "x {")
                                               for q in c16.token_sequences(tl if quick else tl - 1, tl if quick else tl - 1)))
    T.run_chunked("token-sequences:noisy", (c16.render_tokens(q, rnd) for q in c16.token_sequences(tl if quick else tl - 1, 2)
                                            if quick or rnd.random() < 0.25))
    # VT, FF, NEL, NBSP, U+1680, U+2000..200A, U+2028/9, U+202F, U+205F, U+3000 (unicode.IsSpace) and neighbours (U+001C..1F, U+200B,
    # U+FEFF, ...) are token characters: in unquoted tokens, between tokens, at the end, in strings and comments
    T.run_chunked("unicode-space", c16.unicode_space_texts())
    T.run_bytes("invalid-utf8", c16.invalid_utf8_texts())
    T.run_lextrace(utf8_byte_texts(rnd, quick))
    T.run_chunked("unicode-space-exhaustive", c16.unicode_space_exhaustive(4 if quick else 5))
    # deep nesting: depths around powers of two and round numbers, with and without arguments / strings / siblings at every level,
    # balanced and unbalanced.  The extracted model needs about 1 s at depth 1000 and 45 s at 5000 (it recomputes lengths per
    # token), so beyond 1024 (2048 thorough) only the reference reader is compared with yang.Parse.
    dq = [o for o in c16.DEEP_OPEN if '"' in o]
    simple = ["a{", "a x{", "a\n{\n"]
    if quick:
        T.run("deep-nesting", c16.deep_texts([256, 257, 258]) + c16.deep_texts([255, 511, 512, 513], simple)
              + c16.deep_texts([1024], simple[:2]), shards=lib.NCPU)
        T.run("deep-nesting:reader-only", [o * d + "b;" + "}" * d for d in (1000,) for o in dq]
              + c16.deep_texts([4096], c16.DEEP_OPEN_NODQ) + c16.deep_texts([5000], simple[:1]), model=False, shards=lib.NCPU)
    else:
        T.run("deep-nesting", c16.deep_texts(c16.DEPTHS[:8]) + c16.deep_texts(c16.DEPTHS[8:] + [2048], simple), shards=lib.NCPU)
        T.run("deep-nesting:reader-only", [o * d + "b;" + "}" * d for d in c16.DEPTHS[8:] for o in dq]
              + c16.deep_texts(c16.DEEP_DEPTHS, c16.DEEP_OPEN_NODQ), model=False, shards=lib.NCPU)
    T.run_chunked("long-concatenations", long_concatenations(rnd))
    T.run_chunked("multiline-grid", multiline_grid(24))
    gd = grammar_cases(rnd, 3000 if quick else 60000)
    T.run_chunked("grammar-directed", gd)
    T.run_chunked("malformed", malformed_cases(rnd, 300 if quick else 6000))
    if T.oof:
        res.violation("the model reported out-of-fuel on %d case(s)" % T.oof, dict(kind="model-out-of-fuel"), no_input=True)
    printer = printer_leg(res, gd, seed)
    cov = dict(evaluations=T.n, distinct_nontrivial=T.nontrivial,
               rule="(i) every string up to length %d over the 14-symbol token alphabet {a + / * ; { } ' \" \\ n SP TAB LF}; "
                    "every token sequence up to length %d over the 15 tokens {a pattern + ; { } \"b\" 'b' \"+\" '+' \";\" \"{\" \"}\" \"\" \"a\\d\"} "
                    "(quick: plus length 5 over the first 11 of them) with minimal separators, the longest again behind `x ` and `x {`, and "
                    "with random blanks/comments between the tokens; "
                    "every code point of unicode.IsSpace beyond SP TAB CR LF and 10 neighbours, in 38 templates (inside unquoted tokens, between "
                    "tokens, at the end of the text, in strings, comments, concatenations) and in every string up to length %d over "
                    "{a ; { \" ' SP LF W}; statements P \"body\"; for every body up to length %d over {x SP TAB LF CR \\ n t \"} in %d layouts P (tabs, multi-byte "
                    "runes, comment / single-quoted piece before the quote, pattern at depth 0 and 1)%s; multi-line grid: every quote column "
                    "up to 24 (by spaces / tabs / after a 2-byte rune) x every continuation indent of spaces with a tab at every position; "
                    "grammar-directed: %d keywords x %d argument forms (unquoted, single, double, escapes, '+' chains, multi-line, multi-byte, "
                    "the excluded constructs) x terminators x gap kinds at depth 0..2, a comment kind in every gap, random forests under layout "
                    "noise; malformed: single-fault mutants of %d kinds and a fixed list.  Both comparisons run on every case.  "
                    "non-trivial = in-claim case (reference reader not Ambiguous) with at least one statement, or rejected"
                    % (n_ex, tl, 4 if quick else 5, nb, 6 if quick else len(LAYOUTS),
                       "" if quick else "; all strings of length 7..8 (9 for braces) over four 5/6-symbol sub-alphabets", len(KWS), len(ARGS),
                       len(c16.FAULTS)),
               correspondence_mismatches=T.corr_mism, oracle_mismatches=T.oracle_mism,
               mismatches=T.corr_mism + T.oracle_mism + printer["mismatches"],
               model_out_of_fuel=T.oof, lexer_rune_loop=T.u8, printer=printer, reference_reader_termination_invariance_checked=T.terminated_checked,
               distribution=dict(reference_verdicts=T.verdicts, implementation=T.impl, by_generator=T.kinds),
               samples=[s["case"] for s in T.samples], sample_observations=[s["impl"] + " | " + s["spec"] for s in T.samples])
    return cov, ["UTF-8 decoding is the extracted Model/Utf8.decode (model of utf8.DecodeRuneInString as lexer.next calls it; theorems "
                 "C02_decode_*); the lexer's own rune loop (rune, width, line, col, tcol per call of next) is compared with it on every byte "
                 "string up to length 2, boundary sequences of Go's acceptRanges and random mixes (lexer_rune_loop in the coverage)",
                 "yang.Parse is tied to the model by this sweep (testing); agreement of the model with the reference reader on ALL texts "
                 "and byte strings is C02_accept / C02_reject / C02_accept_bytes / C02_reject_bytes (theorems)"]


def replay(rep, res):
    c = rep.get("case")
    if not c:
        print(rep)
        return 1
    go, ml = lib.run_go([c])[0], lib.run_ml([c])[0]
    if rep.get("kind") == "printer":
        pr = lib.run_ml([c.replace("parse ", "printparse ", 1)])[0]
        go2 = lib.run_go(["parse " + pr[len("printed "):]])[0] if pr.startswith("printed ") else "-"
        print("case :", c, "\nimpl :", go, "\nprint:", pr, "\nimpl on printed:", go2)
        return 0 if pr in ("reject", "ambiguous") or (pr.startswith("printed ") and go.startswith("ok") and POS.sub(";", go) == POS.sub(";", go2)) else 1
    if rep.get("kind") == "lextrace":
        print("case :", c, "\nimpl :", go, "\nmodel:", ml)
        return 1 if go != ml else 0
    sp = lib.run_ml([c.replace("parse ", "specparse ", 1)])[0]
    print("case :", c, "\ntext :", repr(bytes.fromhex(c.split()[1].replace("-", "")).decode("utf-8", "replace")),
          "\nimpl :", go, "\nmodel:", ml, "\nspec :", sp)
    bad = go != ml
    v = sp.split(" ", 1)[0]
    if v == "accept":
        bad = bad or POS.sub(";", go) != "ok " + sp[len("accept "):]
    elif v == "reject":
        bad = bad or not go.startswith("err")
    return 1 if bad else 0
