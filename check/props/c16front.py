"""C16, third sentence, builder part -- the leg that ties coq/Model/FrontEnd.v (front_end = parser model, then the
table-driven builder model on the converted forest, error id -> line:col) to Modules.Parse, FROM THE TEXT.

Texts are rendered from random statement trees over the generated keyword table (coq/Gen/YangSchema.v, read back
by props/c03.Table): a tree the builder accepts, then at most one injected builder fault (two in a few cases) --
unknown substatement, known keyword under a statement that does not allow it, missing mandatory substatement, second
occurrence of a single-valued substatement, substatement only the other of module/submodule allows, non-module
or unknown top-level statement -- under layout noise (tabs, CR LF, // and /* */ comments with multi-byte runes,
single/double-quoted, multi-line and '+'-concatenated arguments).  Both sides get ONLY the text:

    front <hex text>   ->   syntax <positions> | ok | err <kind> <line>:<col>|nopos

and must agree exactly on the class of the error and on the position.  The Go side tells error sites apart by the
fixed format strings of ast.go (harness/go/front.go), which do not distinguish `missing` from `missing-kind` nor
`unknown-field` from `other-kind`; the model's kinds are projected onto these classes before comparing (the position
does distinguish them: statement / substatement).  Third, independent check: for a single injected fault the generator
itself knows which statement is the culprit and where the renderer put its keyword; the implementation must report
exactly that class and line:col."""
import random

import lib
from props import c03

COARSE = {"unknown-statement": "unknown-statement", "unknown-field": "unknown-field", "other-kind": "unknown-field",
          "no-ext": "no-ext", "already-set": "already-set", "missing": "missing", "missing-kind": "missing",
          "not-module": "not-module"}

GAPS = [" ", "  ", "\t", " \t", "\t \t", "\n", "\r\n", "\n\t", "\n    ", "\r\n\t\t", " // c\n", "//\n", "// é \t 日\r\n",
        "/**/", "/* x */", " /* a\n\tb */ ", "/* é\t日本 */", "\n\n", " \r ", "/* { ; } */", "// }\n"]
SIMPLE_ARGS = ["a", "b1", "x-y", "n.m", "some_name", "1..10", "é", "日本", "p:q", "urn:x"]
TEXT_ARGS = ["a b", "", "x\ny", "  é\t日  ", "semi;colon", "{brace}", "line one\n   line two\n\tline three", "// no comment",
             "/* none */", "tab\there", "q'uote", "plus + plus"]
EXTS = ["e:x", "pfx:thing", "é:日", "a:"]
UNKNOWN = ["bogus", "zzz", "Name", "Statement", "Parent", "Ext", "a:b:c", "::", "é日", "Module", "leaf_", "x/y"]


# ------------------------------------------------------------------ trees: mutable nodes [kw, arg, subs]

def valid_tree(tb, rnd, kw, depth, budget):
    """a tree for keyword kw the builder accepts (every required substatement, no single-valued one twice, nothing
    the other of module/submodule requires, extensions only where the struct keeps them)"""
    ty = tb.struct_for(kw)
    fields = tb.structs[ty]
    req = tb.required_keys(ty, kw)
    kids = [f for f in fields if f["kind"] in ("FSingle", "FMulti")]
    has_ext = any(f["kind"] == "FExt" for f in fields)
    other = {f["key"] for f in fields if f["reqkinds"] and kw not in f["reqkinds"]}
    want = list(req)
    if depth > 0:
        for _ in range(rnd.choice([0, 1, 2, 3, 4, 6])):
            if budget[0] <= 0:
                break
            if has_ext and rnd.random() < 0.12:
                want.append(rnd.choice(EXTS))
            elif kids:
                f = rnd.choice(kids)
                if f["key"] in other or (f["kind"] == "FSingle" and f["key"] in want):
                    continue
                want.append(f["key"])
    rnd.shuffle(want)
    subs = []
    for k in want:
        budget[0] -= 1
        if tb.struct_for(k) is None:           # an extension statement: the builder does not look inside
            inner = [[rnd.choice(UNKNOWN + ["leaf"]), "z", []]] if rnd.random() < 0.3 else []
            subs.append([k, rnd.choice([None, "v"]), inner])
        else:
            subs.append(valid_tree(tb, rnd, k, depth - 1, budget))
    arg = rnd.choice([None] + SIMPLE_ARGS + SIMPLE_ARGS + TEXT_ARGS)
    return [kw, arg, subs]


def filed_nodes(tb, node, out):
    """the nodes the builder visits (not the inside of extension statements)"""
    if tb.struct_for(node[0]) is None:
        return
    out.append(node)
    for c in node[2]:
        filed_nodes(tb, c, out)


def keys_of(tb, node):
    return {f["key"] for f in tb.structs[tb.struct_for(node[0])]}


def inject(tb, rnd, forest, fault):
    """returns (culprit node or None, expected class, positioned?) -- None when the fault does not apply"""
    nodes = []
    for t in forest:
        filed_nodes(tb, t, nodes)
    if fault == "unknown-sub":
        n = rnd.choice(nodes)
        x = [rnd.choice(UNKNOWN), rnd.choice([None, "u", "é u"]), [] if rnd.random() < 0.7 else [["leaf", "in", []]]]
        n[2].insert(rnd.randrange(len(n[2]) + 1), x)
        return x, "unknown-field", True
    if fault == "misplaced":
        n = rnd.choice(nodes)
        cand = sorted(k for k in tb.names if k not in keys_of(tb, n))
        if not cand:
            return None
        x = valid_tree(tb, rnd, rnd.choice(cand), 1, [3])
        n[2].insert(rnd.randrange(len(n[2]) + 1), x)
        return x, "unknown-field", True
    if fault == "missing":
        cands = [n for n in nodes if tb.required_keys(tb.struct_for(n[0]), n[0])]
        if not cands or rnd.random() < 0.3:
            # a new statement that lacks what it needs, somewhere it is allowed
            hosts = []
            for n in nodes:
                ty = tb.struct_for(n[0])
                for f in tb.structs[ty]:
                    t2 = tb.struct_for(f["key"]) if f["kind"] in ("FSingle", "FMulti") else None
                    if t2 and tb.required_keys(t2, f["key"]) and not f["reqkinds"] and \
                            not (f["kind"] == "FSingle" and any(c[0] == f["key"] for c in n[2])):
                        hosts.append((n, f["key"]))
            if not hosts:
                return None
            n, k = rnd.choice(hosts)
            x = valid_tree(tb, rnd, k, 1, [3])
            r = rnd.choice(tb.required_keys(tb.struct_for(k), k))
            x[2] = [c for c in x[2] if c[0] != r]
            n[2].insert(rnd.randrange(len(n[2]) + 1), x)
            return x, "missing", True
        n = rnd.choice(cands)
        r = rnd.choice(tb.required_keys(tb.struct_for(n[0]), n[0]))
        n[2] = [c for c in n[2] if c[0] != r]
        return n, "missing", True
    if fault == "duplicate":
        cands = []
        for n in nodes:
            singles = {f["key"] for f in tb.structs[tb.struct_for(n[0])] if f["kind"] == "FSingle"}
            other = {f["key"] for f in tb.structs[tb.struct_for(n[0])] if f["reqkinds"] and n[0] not in f["reqkinds"]}
            for k in sorted(singles - other):
                cands.append((n, k))
        if not cands:
            return None
        n, k = rnd.choice(cands)
        have = [i for i, c in enumerate(n[2]) if c[0] == k]
        if not have:
            n[2].insert(rnd.randrange(len(n[2]) + 1), valid_tree(tb, rnd, k, 1, [3]))
            have = [i for i, c in enumerate(n[2]) if c[0] == k]
        x = valid_tree(tb, rnd, k, 1, [3])
        n[2].insert(rnd.randrange(have[0] + 1, len(n[2]) + 1), x)
        return x, "already-set", False
    if fault == "other-kind":
        cands = [n for n in nodes if any(f["reqkinds"] and n[0] not in f["reqkinds"] for f in tb.structs[tb.struct_for(n[0])])]
        if not cands:
            return None
        n = rnd.choice(cands)
        k = rnd.choice(sorted(f["key"] for f in tb.structs[tb.struct_for(n[0])] if f["reqkinds"] and n[0] not in f["reqkinds"]))
        n[2].insert(rnd.randrange(len(n[2]) + 1), valid_tree(tb, rnd, k, 1, [3]))
        return n, "unknown-field", True          # pinned: reported at the parent
    if fault == "top-known":
        k = rnd.choice(sorted(k for k in tb.names if k not in ("module", "submodule")))
        x = valid_tree(tb, rnd, k, 2, [6])
        forest.insert(rnd.randrange(len(forest) + 1), x)
        # Value-like structs answer Kind() with the keyword: still "not a module"
        return x, "not-module", False
    if fault == "top-unknown":
        x = [rnd.choice(UNKNOWN + EXTS), rnd.choice([None, "t"]), [] if rnd.random() < 0.6 else [["leaf", "in", []]]]
        forest.insert(rnd.randrange(len(forest) + 1), x)
        return x, "unknown-statement", True
    raise ValueError(fault)


FAULTS = ["unknown-sub", "misplaced", "missing", "duplicate", "other-kind", "top-known", "top-unknown"]


# ------------------------------------------------------------------ rendering under layout noise

def gap(rnd, need):
    k = rnd.choice([1, 1, 2, 3]) if need else rnd.choice([0, 1, 1, 1, 2, 3])
    g = "".join(rnd.choice(GAPS) for _ in range(k))
    if need and g.startswith("/"):
        g = " " + g                           # an unquoted token glued to a comment opener would swallow it
    return g


def dq(s):
    return '"' + s.replace("\\", "\\\\").replace('"', '\\"') + '"'


def render_arg(rnd, a, plain):
    simple = a != "" and all(c.isalnum() or c in "-._:" or ord(c) > 127 for c in a)
    if plain or (simple and rnd.random() < 0.5):
        return a if simple else dq(a)
    r = rnd.random()
    if r < 0.3 and "'" not in a:
        return "'" + a + "'"
    if r < 0.75 or len(a) < 2:
        return dq(a)
    i = rnd.randrange(1, len(a))                # "..." + '...' concatenation, the '+' under layout noise as well
    left, right = dq(a[:i]), (dq(a[i:]) if "'" in a[i:] or rnd.random() < 0.5 else "'" + a[i:] + "'")
    g2 = gap(rnd, False)
    return left + gap(rnd, False) + "+" + (" " + g2 if g2.startswith("/") else g2) + right


def render(rnd, forest):
    """the text, and for every node (by identity) the 1-based line and rune column where its keyword starts"""
    out = []
    pos = {}
    state = dict(line=1, col=1, unq=False)

    def emit(s, unq=False):
        out.append(s)
        if s:
            state["unq"] = unq
        for ch in s:
            if ch == "\n":
                state["line"] += 1
                state["col"] = 1
            else:
                state["col"] += 1

    def sep(need):
        g = gap(rnd, need)
        if state["unq"] and g.startswith("/"):
            g = " " + g                       # an unquoted token glued to a comment opener would swallow it
        emit(g)

    def stmt(n, top):
        kw, arg, subs = n
        pos[id(n)] = (state["line"], state["col"])
        emit(kw, True)
        if arg is not None:
            sep(True)
            a = render_arg(rnd, arg, top)
            emit(a, a[-1] not in "'\"")
        if subs or rnd.random() < 0.1:
            sep(False)
            emit("{")
            for c in subs:
                sep(False)
                stmt(c, False)
            sep(False)
            emit("}")
        else:
            sep(False)
            emit(";")
    sep(False)
    for t in forest:
        stmt(t, True)
        sep(False)
    return "".join(out), pos


def gen(tier, rnd):
    tb = c03.Table()
    n = 600 if tier == "quick" else 8000
    cases = []
    for i in range(n):
        forest = []
        for j in range(rnd.choice([1, 1, 1, 2, 3])):
            t = valid_tree(tb, rnd, rnd.choice(["module", "module", "submodule"]), rnd.choice([1, 2, 3, 4]),
                           [rnd.choice([5, 12, 30])])
            t[1] = "top%d" % j                 # distinct names: Modules.Parse's duplicate test is not modelled
            forest.append(t)
        r = rnd.random()
        faults = [] if r < 0.15 else [rnd.choice(FAULTS)] if r < 0.9 else [rnd.choice(FAULTS), rnd.choice(FAULTS)]
        expect = []
        for f in faults:
            e = inject(tb, rnd, forest, f)
            if e is not None:
                expect.append((f, e))
        for j, t in enumerate(forest):         # an inserted top-level statement keeps its own argument, made distinct
            if t[1] is not None and not t[1].startswith("top"):
                t[1] = "x%d" % j
        text, pos = render(rnd, forest)
        if rnd.random() < 0.03:                # the syntax stage passes through: break the text
            text = text.replace("}", "", 1) if rnd.random() < 0.5 else text + " }"
            expect = [("syntax", None)]
        label = "+".join(f for f, _ in expect) or "none"
        want = None
        if len(expect) == 1 and expect[0][1] is not None:
            node, cls, positioned = expect[0][1]
            want = "err %s %s" % (cls, "%d:%d" % pos[id(node)] if positioned else "nopos")
        elif not expect:
            want = "ok"
        raw = text.encode("utf-8")
        if rnd.random() < 0.05:                # invalid UTF-8: a lone 0xE9 where e-acute stood (one rune, U+FFFD, either way)
            raw = raw.replace(b"\xc3\xa9", b"\xe9")
            label += "/invalid-utf8" if b"\xe9" in raw else ""
        cases.append((label, "front " + lib.hexs(raw), want))
    return cases


def canon_model(m):
    t = m.split()
    if len(t) == 3 and t[0] == "err":
        return "err %s %s" % (COARSE.get(t[1], t[1]), t[2])
    return m


def run_leg(res, tier, rnd):
    cases = gen(tier, rnd)
    lines = [c for _, c, _ in cases]
    go = lib.run_go(lines)
    ml = lib.run_ml(lines)
    mism = gen_mism = 0
    by_fault, kinds, outcomes = {}, {}, {}
    multibyte_before = crlf = tabs = 0
    for (label, line, want), g, m in zip(cases, go, ml):
        by_fault[label] = by_fault.get(label, 0) + 1
        o = g.split(" ", 1)[0]
        outcomes[o] = outcomes.get(o, 0) + 1
        t = m.split()
        if len(t) == 3 and t[0] == "err":
            kinds[t[1]] = kinds.get(t[1], 0) + 1
        text = bytes.fromhex(line.split()[1]).decode("utf-8", "replace") if line.split()[1] != "-" else ""
        if o == "err" and ":" in g.split()[-1]:
            ln = int(g.split()[-1].split(":")[0])
            before = "\n".join(text.split("\n")[:ln])
            multibyte_before += any(ord(ch) > 127 for ch in before)
            crlf += "\r\n" in before
            tabs += "\t" in before
        if canon_model(m) != g:
            mism += 1
            if mism <= 3:
                res.violation("Modules.Parse and the proved front-end model (parser + builder, from the text) disagree on the "
                              "error class or position [%s]: impl=%s model=%s" % (label, g[:200], m[:200]),
                              dict(kind="front", case=line, impl=g, model=m, label=label))
        elif want is not None and g != want:
            gen_mism += 1
            if gen_mism <= 3:
                res.violation("builder error is not reported at the injected fault [%s]: impl=%s, the faulty statement and "
                              "class are %s" % (label, g[:200], want),
                              dict(kind="front", case=line, impl=g, model=m, label=label, expected=want))
    return dict(cases=len(cases), mismatches=mism, injected_fault_mismatches=gen_mism,
                checked_against_injected_fault=sum(1 for _, _, w in cases if w is not None),
                by_injected_fault=by_fault, outcomes=outcomes, model_error_kinds=kinds,
                positioned_errors_behind_multibyte_runes=multibyte_before, behind_crlf=crlf, behind_tabs=tabs,
                sample=lines[0][:300], sample_observation=go[0][:100] if go else "")


def replay(rep):
    c = rep["case"]
    g, m = lib.run_go([c])[0], lib.run_ml([c])[0]
    print("text :")
    print(bytes.fromhex(c.split()[1]).decode("utf-8", "replace"))
    print("impl :", g)
    print("model:", m, " (projected: %s)" % canon_model(m))
    if rep.get("expected"):
        print("injected fault:", rep["expected"])
    return 0 if canon_model(m) == g and rep.get("expected", g) == g else 1
