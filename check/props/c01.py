"""C01 -- no input can crash, overflow or hang the loader and resolver.

The violation finder.  Every generated history (texts, load / Process / read operations, options) is executed
by the Go harness in child processes with a wall-clock bound, in an empty temporary working directory.
Observation per case: ok | PANIC:... | fatal (the process died) | timeout.  A chunk whose child dies or times
out is split down to single cases; a failing case is minimised and reported as VIOLATION with the case line
(hex texts) as replay.  Generators: (v) corpus/C01 first, (i) grammar-directed module sets over the keyword
table with every reference kind drawn from defined / undefined / self / cyclic / submodule-only / rejected
text, (i-b) schema node paths (augment, deviation, leafref) written with dots, empty steps, odd prefixes, ending at
module roots / rpc input and output / implicit cases, (i-c) small texts whose naive processing is super-linear
(identity lattices, typedef chains, grouping towers, augment chains, include and import rings), each alone under
its own time bound, (i-f) families of same-named identities spread over every kind of unit (module, submodule of a loaded /
absent module, included by its module / a foreign module / a submodule / nobody) and derived from common bases in 0..k hops,
(ii) statement-level mutation of the repository's YANG files, of the modules inlined in its
tests and of (i), (iii) byte-level noise, (iv) histories interleaving loads, Process and reads under random options.

No model is run here (NEED_ML = False): the model side of C01 is the totality theorems in
coq/Properties/C01.v, re-checked by the proof step."""
import collections
import glob
import json
import os
import random
import re
import shutil
import signal
import subprocess
import sys
import tempfile
import time
from concurrent.futures import ThreadPoolExecutor

sys.path.insert(0, os.path.dirname(os.path.dirname(os.path.abspath(__file__))))
import lib  # noqa: E402

NEED_ML = False
sys.setrecursionlimit(max(sys.getrecursionlimit(), 60000))      # generated trees nest a few thousand levels

CORPUS = os.path.join(lib.VERIF, "corpus", "C01")
SCHEMA_V = os.path.join(lib.COQ, "Gen", "YangSchema.v")
HARNESS = os.path.join(lib.HGO, "harness")
STACK_MB = 256                    # Go stack limit of the fuzzing children (the runtime's default is 1 GB)
BAD = ("panic", "fatal", "timeout", "broken")


def hx(s):
    if isinstance(s, str):
        s = s.encode("utf-8", "surrogateescape")
    return lib.hexs(s)


def unhx(h):
    return b"" if h == "-" else bytes.fromhex(h)


# ------------------------------------------------------------------ case lines

def hist_line(opts, ops, texts, cmd="hist"):
    """texts: [(file name, text)] (str or bytes)"""
    return "%s %s %s %d %s" % (cmd, opts or "-", ops, len(texts),
                               " ".join("%s %s" % (hx(n), hx(t)) for n, t in texts))


def decode_case(line):
    t = line.split()
    if t[0] in ("hist", "process"):
        n = int(t[3])
        return dict(cmd=t[0], opts=t[1], ops=t[2].split(","),
                    texts=[(unhx(t[4 + 2 * i]), unhx(t[5 + 2 * i])) for i in range(n)])
    return dict(cmd=t[0], text=unhx(t[1]) if len(t) > 1 else b"", rest=t[2:])


def encode_case(c):
    if c["cmd"] in ("hist", "process"):
        return hist_line(c["opts"], ",".join(c["ops"]) or "P", c["texts"], cmd=c["cmd"])
    return " ".join([c["cmd"], hx(c["text"])] + list(c.get("rest", [])))


# ------------------------------------------------------------------ YANG trees: [kw, raw arg | None, subs | None]
# raw arg is the argument exactly as it is to be written (quotes included); subs None = ';', list = '{ ... }'

SAFE = re.compile(r"^[A-Za-z0-9_.:\-\[\]=()|@$^~,<>!?&%#]+$")


def quote(arg, rnd=None):
    if arg is None:
        return None
    if rnd is not None and rnd.random() < 0.03 and "'" not in arg:
        return "'" + arg + "'"
    if SAFE.match(arg) and not (rnd is not None and rnd.random() < 0.1):
        return arg
    return '"' + arg.replace("\\", "\\\\").replace('"', '\\"') + '"'


def render(forest, out=None, ind=0):
    top = out is None
    if top:
        out = []
    for kw, arg, subs in forest:
        head = " " * ind + kw + ("" if arg is None else " " + arg)
        if subs is None:
            out.append(head + ";")
        else:
            out.append(head + " {")
            render(subs, out, ind + 1)
            out.append(" " * ind + "}")
    return "\n".join(out) + "\n" if top else None


TOKEN = re.compile(r'''\s+|//[^\n]*|/\*.*?\*/|"(?:\\.|[^"\\])*"|'[^']*'|[{};]|(?:(?!//|/\*)[^\s{};"'])+''', re.S)


def parse_yang(text):
    """forgiving statement parser used for mutation and minimisation; returns forest or None"""
    toks = []
    pos = 0
    while pos < len(text):
        m = TOKEN.match(text, pos)
        if not m or m.end() == pos:
            return None
        s = m.group(0)
        pos = m.end()
        if s.isspace() or s.startswith("//") or s.startswith("/*"):
            continue
        toks.append(s)
    i = 0

    def stmts(depth):
        nonlocal i
        out = []
        while i < len(toks):
            if toks[i] == "}":
                if depth == 0:
                    raise ValueError
                i += 1
                return out
            kw = toks[i]
            i += 1
            if kw in "{;" or kw[0] in "\"'":
                raise ValueError
            arg = None
            if i < len(toks) and toks[i] not in ("{", ";", "}"):
                arg = toks[i]
                i += 1
                while i + 1 < len(toks) and toks[i] == "+" and toks[i + 1][0] in "\"'":
                    arg += " + " + toks[i + 1]
                    i += 2
            if i >= len(toks):
                raise ValueError
            if toks[i] == ";":
                i += 1
                out.append([kw, arg, None])
            elif toks[i] == "{":
                i += 1
                if depth > 400:
                    raise ValueError
                out.append([kw, arg, stmts(depth + 1)])
            else:
                raise ValueError
        if depth != 0:
            raise ValueError
        return out
    try:
        return stmts(0)
    except (ValueError, IndexError, RecursionError):
        return None


def unquote(raw):
    if raw is None:
        return ""
    if len(raw) >= 2 and raw[0] == raw[-1] and raw[0] in "\"'" and " + " not in raw:
        return raw[1:-1]
    return raw


def walk(forest, parent=None):
    """yields (container list, index, node) in pre-order"""
    for i, n in enumerate(forest):
        yield forest, i, n
        if n[2]:
            yield from walk(n[2], n)


def copy_forest(f):
    return [[k, a, None if s is None else copy_forest(s)] for k, a, s in f]


# ------------------------------------------------------------------ the generated keyword table, read back

def load_schema():
    txt = open(SCHEMA_V).read()
    structs, cur = {}, None
    for line in txt.splitlines():
        m = re.match(r'\s*SDef "([^"]*)" (true|false) \[([^\]]*)\] \[', line)
        if m:
            cur = m.group(1)
            structs[cur] = []
            continue
        m = re.match(r'\s*Field "([^"]*)" \((\w+)(?: "([^"]*)")?\) (true|false) \[([^\]]*)\]', line)
        if m and cur is not None:
            structs[cur].append(dict(key=m.group(1), kind=m.group(2), ty=m.group(3), req=m.group(4) == "true",
                                     reqkinds=re.findall(r'"([^"]*)"', m.group(5))))
    nm = txt.split("Definition name_map", 1)[1]
    names = dict(re.findall(r'\("([^"]*)", "([^"]*)"\)', nm.split("Definition schema")[0]))
    return structs, names


class Table:
    def __init__(self):
        self.structs, self.names = load_schema()
        self.names.setdefault("submodule", self.names.get("module"))
        self.keywords = sorted(self.names)

    def fields(self, kw):
        ty = self.names.get(kw)
        return [f for f in self.structs.get(ty, []) if f["kind"] in ("FSingle", "FMulti")]

    def required(self, kw):
        ty = self.names.get(kw)
        return [f["key"] for f in self.structs.get(ty, []) if f["req"] or kw in f["reqkinds"]]

    def has_ext(self, kw):
        return any(f["kind"] == "FExt" for f in self.structs.get(self.names.get(kw), []))

    def minimal(self, kw, depth=0):
        subs = [self.minimal(k, depth + 1) for k in self.required(kw)] if depth < 6 else []
        return [kw, "r", subs or None]

    def sanitise(self, node, dist=None):
        """make the statement acceptable to the table-driven AST builder: drop substatements the struct has no
        field for, repeated single-valued ones and those required for the other keyword only; add required ones"""
        kw, subs = node[0], node[2]
        if kw not in self.names:
            return
        fields = {f["key"]: f for f in self.fields(kw)}
        seen, out = set(), []
        for c in subs or []:
            k = c[0]
            if ":" in k:
                if self.has_ext(kw):
                    out.append(c)
                continue
            f = fields.get(k)
            if f is None or (f["kind"] == "FSingle" and k in seen) or (f["reqkinds"] and kw not in f["reqkinds"]):
                if dist is not None:
                    dist["sanitised-away"] += 1
                continue
            seen.add(k)
            self.sanitise(c, dist)
            out.append(c)
        for r in self.required(kw):
            if r not in seen:
                out.append(self.minimal(r))
        node[2] = out if (out or subs is not None) else None


PSEUDO = ["Name", "Statement", "Parent", "Ext"]

# ------------------------------------------------------------------ running: bounded, exact about the offender

STALL_S = 15             # a child that answers no case for this long is killed; the case it was on is the suspect
CONFIRM_STALL_S = 45     # a suspect is run once more alone with this bound before it counts as a hang
CHILD_AS = int(2.5 * (1 << 30))       # address space of an ordinary child (16 of them fit into memory)
MAX_RESTARTS = 3         # per chunk: after a child died or stalled the rest of the chunk goes to a fresh child
WITNESSES = 2            # confirmed witnesses wanted per failure signature; further cases are only counted
BUDGET = dict(quick=150, thorough=1500)


def child_env(stack_mb=STACK_MB):
    e = dict(os.environ)
    if stack_mb:
        e["VERIF_MAXSTACK_MB"] = str(stack_mb)
    else:
        e.pop("VERIF_MAXSTACK_MB", None)
    return e


import threading

LIVE = set()                     # harness / generator children that are running (killed by the watchdog at the deadline)
LIVE_LOCK = threading.Lock()
HARD_STOP = threading.Event()    # set at the hard deadline: nothing new is started, everything running is killed


def spawn(argv, **kw):
    """Popen without preexec_fn (which is not safe in a threaded parent); registered for the watchdog"""
    p = subprocess.Popen(argv, **kw)
    with LIVE_LOCK:
        LIVE.add(p)
    return p


def reap(p):
    with LIVE_LOCK:
        LIVE.discard(p)


def kill_all():
    with LIVE_LOCK:
        ps = list(LIVE)
    for p in ps:
        try:
            p.kill()
        except Exception:
            pass


def run_child(lines, cwd, stall=STALL_S, as_bytes=CHILD_AS, stack_mb=STACK_MB, total=None):
    """one harness child ("c01run": output flushed after every case) on the given cases.
    -> (answers so far, why, stderr): why is None when every case was answered, else 'stall' | 'died';
    the case the child was working on is lines[len(answers)]."""
    import selectors
    if HARD_STOP.is_set():
        return [], "stall", "deadline"
    data = ("\n".join(lines) + "\n").encode()
    errf = tempfile.TemporaryFile()
    # the address space limit is set by the shell that execs the harness
    p = spawn(["bash", "-c", "ulimit -v %d; exec %s c01run" % (as_bytes // 1024, HARNESS)], stdin=subprocess.PIPE,
              stdout=subprocess.PIPE, stderr=errf, cwd=cwd, env=child_env(stack_mb))

    def feed():
        try:
            p.stdin.write(data)
            p.stdin.close()
        except Exception:
            pass
    threading.Thread(target=feed, daemon=True).start()
    sel = selectors.DefaultSelector()
    sel.register(p.stdout, selectors.EVENT_READ)
    buf, nl, t0, last, why = [], 0, time.time(), time.time(), None
    while True:
        ev = sel.select(timeout=0.5)
        now = time.time()
        if ev:
            blk = os.read(p.stdout.fileno(), 1 << 20)
            if not blk:
                break
            buf.append(blk)
            if b"\n" in blk:
                last = now
        elif now - last > stall or (total and now - t0 > total) or HARD_STOP.is_set():
            why = "stall"
            p.kill()
            break
    try:
        p.wait(timeout=10)
    except Exception:
        p.kill()
    reap(p)
    sel.close()
    p.stdout.close()
    raw = b"".join(buf).decode("utf-8", "replace")
    out = raw.split("\n")
    out.pop()                                   # "" after the last newline, or a partial line
    errf.seek(0)
    err = errf.read()[-60000:].decode("utf-8", "replace")
    errf.close()
    if why is None and len(out) < len(lines):
        why = "died"
    if why == "died":
        err = "rc=%s %s" % (p.returncode, fatal_excerpt(err))
    return out[:len(lines)], why, err


def classify(obs):
    """observation line -> ok | panic | broken"""
    if obs.startswith("PANIC") or (obs.startswith("{") and '"PANIC:' in obs):
        return "panic"
    if obs.startswith("BROKEN") or obs == "unknown-cmd":
        return "broken"
    return "ok"


def run_single(line, cwd, timeout=CONFIRM_STALL_S, big=False):
    """one case in its own child -> (class, observation or stderr excerpt); big: 6 GB, the runtime's own stack limit"""
    out, why, err = run_child([line], cwd, stall=timeout, total=timeout,
                              as_bytes=(6 << 30) if big else CHILD_AS, stack_mb=None if big else STACK_MB)
    if why is None:
        return classify(out[0]), out[0]
    if why == "stall":
        return "timeout", "no answer within %ds" % timeout
    return "fatal", err


def fatal_excerpt(err):
    lines = err.splitlines()
    head = [ln for ln in lines if ln.strip() and not ln.startswith(("\t", " "))][:4]
    frames = []
    for i, ln in enumerate(lines):
        if "goyang/pkg/" in ln and not ln.startswith("\t") and len(frames) < 8:
            fn = ln.strip().split("/")[-1]
            fn = re.sub(r"\(.*$", "", fn)
            loc = lines[i + 1].strip().split("/")[-1].split(" ")[0] if i + 1 < len(lines) else ""
            if not frames or frames[-1] != fn + "@" + loc:
                frames.append(fn + "@" + loc)
    return " | ".join(head) + " at=" + "<".join(frames)


def signatures(cls, obs):
    """a history whose reads panic in several places reports them joined by ' ALSO '"""
    return [signature(cls, o) for o in obs.split(" ALSO ")]


def signature(cls, obs):
    s = obs.split(" ALSO ")[0]
    obs = s
    m = re.search(r"msg=(.*?) at=(\S*)", obs)
    if m:
        s = m.group(1) + " @" + m.group(2).split("<")[0]
    elif cls == "fatal":
        m = re.search(r"(fatal error: [^|]*|panic: [^|]*|signal: \w+|out of memory)", obs)
        fr = re.search(r"at=(\S*)", obs)
        s = (m.group(1).strip() if m else obs[:80]) + " @" + (fr.group(1).split("<")[0] if fr else "")
    elif cls == "timeout":
        fam = re.search(r"\[[\w-]+\]$", obs)
        s = "no answer in time" + (" " + fam.group(0) if fam else "")
    s = re.sub(r"\*yang\.\w+", "*yang.T", s)
    s = re.sub(r"0x[0-9a-f]+", "0x?", s)
    s = re.sub(r"\d+", "N", s)
    return cls + ": " + s[:160]


class Control:
    """budget, early exit and the register of failures (shared by the runner threads)"""
    def __init__(self, tier, cwd):
        self.t0 = time.time()
        self.budget = float(os.environ.get("VERIF_C01_BUDGET_S") or BUDGET.get(tier, 150))
        self.cwd = cwd
        self.lock = threading.Lock()
        self.confirm_slots = threading.Semaphore(3)       # few children at a time while confirming
        self.stop_reason = None
        self.fail = collections.OrderedDict()   # signature -> dict(count, witnesses=[(gen, line, cls, obs)], unconfirmed)
        self.stats = collections.Counter()
        self.inflight = collections.Counter()
        self.phase = "run"
        self.finished = threading.Event()
        threading.Thread(target=self.watchdog, daemon=True).start()

    def watchdog(self):
        """hard deadlines, whatever the rest of this file does: budget + 120 s for running cases, 420 s more for
        confirming and minimising; from then on every child is killed as soon as it appears"""
        while not self.finished.wait(1.0):
            over = time.time() - self.t0 - self.budget
            if over > 120 and self.phase == "run" and not HARD_STOP.is_set():
                if self.stop_reason is None or "deadline" not in self.stop_reason:
                    self.stop_reason = "deadline: cases were still running %d s after the budget; children killed" % over
                kill_all()
            if over > 540:
                if not HARD_STOP.is_set():
                    self.stop_reason = (self.stop_reason or "") + " | hard deadline: everything killed"
                    HARD_STOP.set()
                kill_all()

    def left(self):
        return self.budget - (time.time() - self.t0)

    def stopped(self):
        if self.stop_reason is None and self.left() <= 0:
            self.stop_reason = "wall-clock budget of %d s used up" % self.budget
        return self.stop_reason is not None

    def wants(self, sig, reserve=False):
        """does the signature still need a confirmed witness?  reserve: count the confirmation about to start"""
        with self.lock:
            f = self.fail.get(sig)
            have = (len(f["witnesses"]) if f else 0) + self.inflight[sig]
            if have < WITNESSES and reserve:
                self.inflight[sig] += 1
            return have < WITNESSES

    def release(self, sig):
        with self.lock:
            self.inflight[sig] -= 1

    def record(self, gen, line, cls, obs, confirmed):
        sig = signature(cls, obs)
        with self.lock:
            f = self.fail.setdefault(sig, dict(count=0, witnesses=[], unconfirmed=0))
            f["count"] += 1
            if confirmed and len(f["witnesses"]) < WITNESSES:
                f["witnesses"].append((gen, line, cls, obs))
            elif not confirmed:
                f["unconfirmed"] += 1
            sigs = [x for x in self.fail.values() if x["witnesses"]]
            nconf = sum(len(x["witnesses"]) for x in sigs)
            total = sum(x["count"] for x in self.fail.values())
            if self.stop_reason is None:
                if len(sigs) >= 3:
                    self.stop_reason = "three distinct failure signatures confirmed"
                elif nconf >= 5:
                    self.stop_reason = "five failures confirmed"
                elif total >= 40:
                    self.stop_reason = "forty failing cases: the failure is systematic"

    def suspect(self, gen, line, cls, obs):
        """a case whose child died or stalled in a chunk: confirm it alone while its signature still needs witnesses"""
        sig = signature(cls, obs)
        if self.left() < -120 or not self.wants(sig, reserve=True):
            self.record(gen, line, cls, obs, confirmed=False)
            return cls, obs + " (not re-run: the signature has its witnesses)"
        try:
            with self.confirm_slots:
                self.stats["confirm_runs"] += 1
                c2, o2 = run_single(line, self.cwd, timeout=CONFIRM_STALL_S)
        finally:
            self.release(sig)
        if c2 in BAD:
            self.record(gen, line, c2, o2, confirmed=True)
            sig2 = signature(c2, o2)
            if sig2 != sig:            # alone it fails in another way (a hang that ends in memory exhaustion, say)
                self.record(gen, line, cls, obs, confirmed=False)
                with self.lock:
                    self.fail[sig]["seen_alone_as"] = sig2
            return c2, o2
        self.stats["suspects_cleared"] += 1
        return c2, o2


def run_cases(ctl, cases):
    """[(generator, line)] -> [(class, observation)], class also 'not-run'.  Chunks in parallel children; when a
    child dies or stalls, the case it was on is the suspect and the rest of the chunk goes to a fresh child."""
    n = len(cases)
    size = max(8, min(64, n // (lib.NCPU * 6) + 1))
    obs = [("not-run", "budget")] * n

    def job(lo):
        hi = min(n, lo + size)
        i, restarts = lo, 0
        while i < hi:
            if ctl.stopped() or restarts > MAX_RESTARTS:
                ctl.stats["not_run"] += hi - i
                return
            out, why, err = run_child([cases[k][1] for k in range(i, hi)], ctl.cwd)
            for k, o in enumerate(out):
                c = classify(o)
                obs[i + k] = (c, o)
                if c != "ok":
                    for piece in o.split(" ALSO "):
                        ctl.record(cases[i + k][0], cases[i + k][1], c, piece, confirmed=True)
            i += len(out)
            if why is None:
                return
            restarts += 1
            ctl.stats["children_restarted"] += 1
            cls, o = ("timeout", "no answer within %ds" % STALL_S) if why == "stall" else ("fatal", err)
            if cls == "fatal" and stack_depth_shape(cases[i][1], o):
                obs[i] = ("known", o)
            else:
                obs[i] = ctl.suspect(cases[i][0], cases[i][1], cls, o)
            i += 1

    with ThreadPoolExecutor(max_workers=lib.NCPU) as ex:
        list(ex.map(job, range(0, n, size)))
    return obs


# ------------------------------------------------------------------ (i) grammar-directed module sets

BUILTIN = ["binary", "bits", "boolean", "decimal64", "empty", "enumeration", "identityref", "instance-identifier",
           "int8", "int16", "int32", "int64", "leafref", "string", "uint8", "uint16", "uint32", "uint64", "union"]
NODE_NAMES = ["a", "b", "c", "d", "e", "x", "y"]
RANGES = ["1..10", "min..max", "1|2|3", "10..1", "a..b", "-0", "0..18446744073709551615|18446744073709551615",
          "1.5..2.5", "99999999999999999999999", "", "..", "|", "1...2", "min..5|7..max", "0..0", "-5..-1", "1..2|2..3",
          "max..min", " 1 .. 2 ", "0x10..1_0", "1..10|5", "-9223372036854775808..9223372036854775807", "1e3"]
PATTERNS = ["[a-z]+", ".*", "(", "[", "a{99999}", "\\d+", "\\p{L}*", "[a-z", "(?i)x", "\\", "a**", "(a|b)*c", ""]
TEXTS = ["text", "two words", "line1\nline2", 'say "hi"', "back\\slash", "tab\there", "", "café 中文", "x" * 300,
         "a/b:c", "../a = current()/../b", "{brace}", "semi;colon", "// not a comment", "/* nor this */", "'single'"]
DATES = ["2020-01-01", "2019-12-31", "2021-06-15", "2020-1-01", "zzz", "", "2020-01-01x", "9999-99-99"]
WORDS = dict({
    "config": ["true", "false", "true", "false", "maybe", "TRUE", ""],
    "mandatory": ["true", "false", "maybe", ""],
    "require-instance": ["true", "false", "x"],
    "min-elements": ["0", "1", "5", "-1", "18446744073709551615", "18446744073709551616", "x", "", "unbounded", "+1", "01"],
    "max-elements": ["0", "1", "5", "unbounded", "-1", "18446744073709551615", "18446744073709551616", "x", ""],
    "ordered-by": ["user", "system", "bogus"],
    "status": ["current", "deprecated", "obsolete", "bogus"],
    "yang-version": ["1", "1.1", "2", ""],
    "value": ["0", "1", "-1", "2147483647", "-2147483648", "2147483648", "x", "", "00", "+5", "9223372036854775808"],
    "position": ["0", "1", "4294967295", "4294967296", "-1", "x", "2147483647"],
    "fraction-digits": ["0", "1", "2", "18", "19", "-1", "x", "", "255", "256"],
    "default": ["a", "0", "1", "x", "true", "b", "", "c1", "p0:I0"],
    "namespace": ["urn:x", "urn:m0", "", "http://example.com/é"],
    "prefix": ["p", "p0", "", "a:b"],
    "key": ["a", "a b", "", "a  b", "a a", "p0:a", "nokey", "a\nb"],
    "unique": ["a", "a b/c", "", "../a"],
    "path": ["../a", "../../b/c", "/p0:a/p0:b", "", "/", "../a[x=current()/../y]/b", "a", "deref(../a)/../b"],
    "deviate": ["add", "replace", "delete", "not-supported", "bogus", ""],
    "argument": ["name", "", "a b"],
    "yin-element": ["true", "false", "x"],
    "modifier": ["invert-match", "x"],
    "error-app-tag": ["tag"],
    "revision": DATES, "revision-date": DATES,
    "length": RANGES, "range": RANGES, "pattern": PATTERNS,
})
for _k in ("value", "position", "fraction-digits", "min-elements", "max-elements", "default"):
    WORDS[_k] = WORDS[_k] + [" ", "\t", " \n ", " - ", "+", "-", "9" * 400, " 5 ", "0x", "1e5", "２", "٣"]
RANGES += [" ", "1.. ", "1| |3", " - ", "+", "0x..1e5", "２..٣", "9" * 400, " ..", "\t|\t"]
TEXT_KW = {"units", "description", "reference", "contact", "organization", "presence", "error-message", "when", "must"}


class Ref:
    """placeholder argument resolved after every unit of the set has been generated"""
    def __init__(self, kind, unit, node=None):
        self.kind, self.unit, self.node = kind, unit, node


class Unit:
    def __init__(self, name, kind):
        self.name, self.kind = name, kind
        self.prefix, self.ns, self.owner = "p", "urn:x", None
        self.imports, self.includes, self.revisions, self.body = [], [], [], []
        self.defs = collections.defaultdict(list)
        self.rejected, self.noisy, self.tail = False, False, ""
        self.version = None

    def modname(self):
        return self.owner if self.kind == "submodule" else self.name


DATA_KW = ["leaf", "leaf-list", "container", "list", "choice", "anyxml", "anydata", "uses"]


class SetGen:
    def __init__(self, rnd, tb, dist, big=False):
        self.rnd, self.tb, self.dist, self.big = rnd, tb, dist, big
        self.units = []
        self.uid = 0

    # ---------------------------------------------------------- structure
    def structure(self):
        rnd = self.rnd
        nm = rnd.choice([1, 1, 2, 2, 3, 4])
        ns = rnd.choice([0, 0, 1, 1, 2, 3])
        us = []
        for i in range(nm):
            u = Unit("m%d" % i, "module")
            u.prefix = rnd.choice(["p%d" % i] * 6 + ["p0", "m%d" % i])
            u.ns = rnd.choice(["urn:m%d" % i] * 6 + ["urn:m0", ""])
            us.append(u)
        mods = list(us)
        for j in range(ns):
            u = Unit("s%d" % j, "submodule")
            r = rnd.random()
            u.owner = rnd.choice(mods).name if r < 0.8 else "absent" if r < 0.9 else u.name if r < 0.95 else "s0"
            self.dist["belongs-to:" + ("loaded-module" if r < 0.8 else "absent" if r < 0.9 else "self" if r < 0.95
                                       else "a-submodule")] += 1
            om = [m for m in mods if m.name == u.owner]
            u.prefix = om[0].prefix if om and rnd.random() < 0.8 else rnd.choice(["sp", "p0", ""])
            us.append(u)
        subs = [u for u in us if u.kind == "submodule"]
        for s in subs:
            om = [m for m in mods if m.name == s.owner]
            sib = [x for x in subs if x is not s and x.owner == s.owner]
            mode = rnd.choice(["included", "included", "included", "nested", "unincluded", "both"])
            if mode == "nested" and not sib:
                mode = "included"
            self.dist["include:" + mode] += 1
            if om and mode in ("included", "both"):
                om[0].includes.append((s.name, self.revdate()))
            if mode in ("nested", "both") and sib:
                rnd.choice(sib).includes.append((s.name, self.revdate()))
        for u in us:
            if rnd.random() < 0.15:
                kind = rnd.choice(["self", "absent", "a-module", "foreign-sub", "cycle"])
                self.dist["include:odd-" + kind] += 1
                tgt = u.name if kind == "self" else "nosub" if kind == "absent" else rnd.choice(mods).name \
                    if kind == "a-module" else (rnd.choice(subs).name if subs else "nosub")
                u.includes.append((tgt, self.revdate()))
            for m in mods:
                if m is not u and m.name != u.modname() and rnd.random() < 0.5:
                    pfx = rnd.choice([m.prefix] * 5 + ["q%d" % len(u.imports), u.prefix])
                    u.imports.append((m.name, pfx, self.revdate()))
                    self.dist["import:loaded-module"] += 1
            if rnd.random() < 0.12:
                kind = rnd.choice(["self", "absent", "a-submodule", "own-module"])
                self.dist["import:odd-" + kind] += 1
                tgt = u.name if kind == "self" else "absent" if kind == "absent" else \
                    (rnd.choice(subs).name if subs else "absent") if kind == "a-submodule" else u.modname()
                u.imports.append((tgt, rnd.choice(["pa", "p0", u.prefix]), self.revdate()))
            for _ in range(rnd.choice([0, 0, 1, 2])):
                u.revisions.append(rnd.choice(DATES[:4]))
            u.version = rnd.choice([None, None, "1", "1.1", "1.1"])
            u.noisy = rnd.random() < 0.08
        # definitions (names only): same names may be defined in several units
        for u in us:
            for kind, pool, cnt in (("typedef", "T", [0, 1, 2, 3]), ("grouping", "G", [0, 1, 2, 3]),
                                    ("identity", "I", [0, 1, 2, 3]), ("feature", "F", [0, 0, 1, 2]),
                                    ("extension", "E", [0, 0, 1])):
                for _ in range(rnd.choice(cnt)):
                    u.defs[kind].append("%s%d" % (pool, rnd.randrange(6)))
        self.units = us

    def revdate(self):
        return self.rnd.choice(DATES) if self.rnd.random() < 0.12 else None

    # ---------------------------------------------------------- references
    def module_of(self, name):
        for u in self.units:
            if u.name == name and u.kind == "module":
                return u
        return None

    def prefix_to(self, u, modname):
        """the prefix by which unit u names module modname (None: not nameable; the module's own prefix is used)"""
        if modname == u.modname():
            return u.prefix
        for m, p, _ in u.imports:
            if m == modname:
                return p
        m = self.module_of(modname)
        return m.prefix if m else "nopfx"

    def relation(self, u, v):
        if u is v:
            r = "same-unit"
        elif u.modname() == v.modname():
            if v.kind == "module":
                r = "owner-module"
            else:
                owner = self.module_of(v.owner)
                direct = owner is not None and any(n == v.name for n, _ in owner.includes)
                anyinc = any(n == v.name for w in self.units for n, _ in w.includes)
                r = ("included-sub" if u.kind == "module" else "sibling-sub") if direct else \
                    "nested-sub" if anyinc else "unincluded-sub"
        elif any(m == v.modname() for m, _, _ in u.imports):
            r = "imported" if v.kind == "module" else "imported-sub"
        else:
            r = "not-imported"
        return ("rejected-text+" + r) if v.rejected else r

    def ref(self, kind, u, selfname=None):
        rnd = self.rnd
        r = rnd.random()
        defs = [(v, n) for v in self.units for n in v.defs[kind]]
        if selfname and r < 0.06:
            mode, s = "self", rnd.choice([selfname, u.prefix + ":" + selfname])
        elif r < 0.14 or not defs:
            mode, s = "undefined", rnd.choice(["nope", u.prefix + ":nope", "nopfx:nope"])
        elif r < 0.17:
            mode, s = "malformed", rnd.choice(["", ":", "a:", ":a", "a:b:c", " ", "/", "é", "p0:", "T0 T1"])
        else:
            v, n = rnd.choice(defs)
            mode = self.relation(u, v)
            p = self.prefix_to(u, v.modname())
            q = rnd.random()
            if q < 0.12 or (p == u.prefix and q < 0.6):
                s = n
            elif q < 0.17:
                s, mode = rnd.choice(["p0", "q0", "pa", "sp"]) + ":" + n, mode + "+other-prefix"
            else:
                s = p + ":" + n
        self.dist["ref:%s:%s" % (kind, mode)] += 1
        return s

    # ---------------------------------------------------------- statements
    def word(self, k, u):
        rnd = self.rnd
        if k in TEXT_KW:
            return rnd.choice(TEXTS)
        if k == "if-feature":
            s = self.ref("feature", u)
            return rnd.choice([s, s, "not " + s, s + " or " + s, "(" + s])
        if k == "base":
            return self.ref("identity", u)
        if k in WORDS:
            return rnd.choice(WORDS[k])
        return rnd.choice(["v", "a", "x", "1"])

    def name(self):
        r = self.rnd.random()
        if r < 0.97:
            return self.rnd.choice(NODE_NAMES)
        return self.rnd.choice(["", "a:b", "n" * 3000, "é", "input", "output", "..", ".", "a/b", "1"])

    def extras(self, kw, subs, u, q=0.25, depth=0):
        """random further substatements of kw drawn from the keyword table (anything the struct has a field for)"""
        rnd = self.rnd
        fs = self.tb.fields(kw)
        while fs and rnd.random() < q:
            f = rnd.choice(fs)
            self.dist["table-field:%s/%s" % (kw, f["key"])] += 1
            subs.insert(rnd.randrange(len(subs) + 1), self.node(f["key"], u, depth + 1))
        if rnd.random() < 0.04:
            defs = [(v, n) for v in self.units for n in v.defs["extension"]]
            if defs and rnd.random() < 0.7:
                v, n = rnd.choice(defs)
                kwd = self.prefix_to(u, v.modname()) + ":" + n
            else:
                kwd = rnd.choice(["nopfx:ext", u.prefix + ":noext", ":", "a:", ":b", "a:b:c"])
            self.dist["extension-use"] += 1
            subs.insert(rnd.randrange(len(subs) + 1), [kwd, rnd.choice([None, "arg", ""]),
                                                       rnd.choice([None, None, [["inner", "i", None]]])])
        if u.noisy and rnd.random() < 0.06:
            u.rejected = True
            k = rnd.choice(PSEUDO + ["bogus", "module", "submodule"] + self.tb.keywords)
            self.dist["ast-noise"] += 1
            subs.insert(rnd.randrange(len(subs) + 1), [k, rnd.choice([None, "n"]), None])
        return subs

    def node(self, k, u, depth):
        """a statement with keyword k, substatements according to the table"""
        if k == "type":
            return self.type(u, None, depth)
        if k in DATA_KW or k in ("case", "rpc", "action", "notification", "input", "output", "typedef", "grouping",
                                 "augment", "refine", "identity", "feature", "extension", "deviation", "deviate"):
            return self.data(u, depth + 2, k)
        subs = [self.node(r, u, depth + 1) for r in self.tb.required(k)] if depth < 6 else []
        if self.tb.fields(k) and depth < 5:
            self.extras(k, subs, u, 0.3, depth)
        return [k, self.word(k, u), subs or None]

    def type(self, u, selfname, depth=0):
        rnd = self.rnd
        subs = []
        if rnd.random() < 0.5:
            t = rnd.choice(BUILTIN)
            self.dist["type:builtin"] += 1
        else:
            t = self.ref("typedef", u, selfname)
        restrict = t in BUILTIN or rnd.random() < 0.3
        if t == "enumeration" or (restrict and rnd.random() < 0.05):
            for i in range(rnd.choice([0, 1, 2, 3, 5])):
                e = ["enum", rnd.choice(["a", "b", "c", "e%d" % i, "", " x "]), None]
                if rnd.random() < 0.4:
                    e[2] = [["value", rnd.choice(WORDS["value"]), None]]
                subs.append(e)
        if t == "bits" or (restrict and rnd.random() < 0.05):
            for i in range(rnd.choice([0, 1, 2, 3])):
                e = ["bit", rnd.choice(["a", "b", "b%d" % i]), None]
                if rnd.random() < 0.4:
                    e[2] = [["position", rnd.choice(WORDS["position"]), None]]
                subs.append(e)
        if (t == "decimal64" and rnd.random() < 0.85) or (restrict and rnd.random() < 0.08):
            subs.append(["fraction-digits", rnd.choice(WORDS["fraction-digits"]), None])
        if (t == "identityref" and rnd.random() < 0.9) or (restrict and rnd.random() < 0.05):
            for _ in range(rnd.choice([1, 1, 1, 2])):
                subs.append(["base", self.ref("identity", u), None])
        if (t == "leafref" and rnd.random() < 0.9) or (restrict and rnd.random() < 0.05):
            subs.append(["path", Ref("leafref", u), None])
        if t in ("leafref", "instance-identifier") and rnd.random() < 0.3:
            subs.append(["require-instance", rnd.choice(WORDS["require-instance"]), None])
        if (t == "union" and rnd.random() < 0.9) or (restrict and rnd.random() < 0.04):
            if depth < 4:
                for _ in range(rnd.choice([1, 2, 2, 3])):
                    subs.append(self.type(u, selfname, depth + 1))
        if restrict and rnd.random() < 0.35:
            subs.append(["range", rnd.choice(RANGES), None])
        if restrict and rnd.random() < 0.3:
            subs.append(["length", rnd.choice(RANGES), None])
        if restrict and rnd.random() < 0.25:
            p = ["pattern", rnd.choice(PATTERNS), None]
            if rnd.random() < 0.2:
                p[2] = [[rnd.choice(["modifier", "error-message", "error-app-tag"]), "invert-match", None]]
            subs.append(p)
        self.extras("type", subs, u, 0.06, depth + 3)
        return ["type", t, subs or None]

    def common(self, kw, subs, u):
        rnd = self.rnd
        for k, p in (("config", 0.15), ("when", 0.06), ("if-feature", 0.08), ("status", 0.04), ("description", 0.08),
                     ("must", 0.04), ("mandatory", 0.06)):
            if rnd.random() < p and any(f["key"] == k for f in self.tb.fields(kw)):
                subs.append([k, self.word(k, u), None])
        return self.extras(kw, subs, u, 0.08, 3)

    def children(self, u, depth, lo=0, hi=4, kinds=None):
        return [self.data(u, depth + 1, None if kinds is None else self.rnd.choice(kinds))
                for _ in range(self.rnd.randint(lo, hi))]

    def data(self, u, depth, kw=None):
        rnd = self.rnd
        if kw is None:
            kw = rnd.choice(["leaf"] * 6 + ["leaf-list"] * 2 + ["container"] * 4 + ["list"] * 3 + ["choice"] * 2 +
                            ["anyxml", "anydata"] + ["uses"] * 3 + (["action", "notification", "typedef", "grouping"]
                                                                    if depth > 0 else []))
        if depth > 5 and kw in ("container", "list", "choice", "case", "action", "notification", "grouping", "input",
                                "output", "augment", "rpc"):
            subs = []
            if kw == "augment":
                return [kw, Ref("augment", u), None]
            return [kw, self.name() if kw not in ("input", "output") else None, None]
        n = self.name()
        if kw == "leaf":
            subs = [self.type(u, None)]
            if rnd.random() < 0.2:
                subs.append(["default", self.word("default", u), None])
            if rnd.random() < 0.1:
                subs.append(["units", self.word("units", u), None])
            return [kw, n, self.common(kw, subs, u)]
        if kw == "leaf-list":
            subs = [self.type(u, None)]
            for k in ("min-elements", "max-elements", "ordered-by", "default"):
                if rnd.random() < 0.15:
                    subs.append([k, self.word(k, u), None])
            return [kw, n, self.common(kw, subs, u)]
        if kw in ("anyxml", "anydata"):
            return [kw, n, self.common(kw, [], u) or None]
        if kw == "container":
            subs = self.children(u, depth)
            if rnd.random() < 0.1:
                subs.append(["presence", "p", None])
            return [kw, n, self.common(kw, subs, u)]
        if kw == "list":
            subs = self.children(u, depth, 0, 4)
            node = [kw, n, subs]
            if rnd.random() < 0.8:
                subs.insert(0, ["key", Ref("key", u, node), None])
            for k in ("min-elements", "max-elements", "ordered-by", "unique"):
                if rnd.random() < 0.12:
                    subs.append([k, self.word(k, u), None])
            self.common(kw, subs, u)
            return node
        if kw == "choice":
            subs = []
            for i in range(rnd.randint(0, 3)):
                if rnd.random() < 0.6:
                    subs.append(["case", rnd.choice(["c1", "c2", "a", "b"]), self.common("case", self.children(u, depth, 0, 2), u)])
                else:
                    subs.append(self.data(u, depth + 1, rnd.choice(["leaf", "container", "list", "leaf-list", "anyxml", "choice"])))
            if rnd.random() < 0.25:
                subs.append(["default", rnd.choice(["c1", "c2", "a", "nocase", ""]), None])
            return [kw, n, self.common(kw, subs, u)]
        if kw == "case":
            return [kw, n, self.common(kw, self.children(u, depth, 0, 3), u)]
        if kw == "uses":
            subs = []
            if rnd.random() < 0.12:
                subs.append(["refine", rnd.choice(NODE_NAMES + ["a/b", "", "/a"]),
                             [[k, self.word(k, u), None] for k in rnd.sample(["default", "config", "mandatory", "presence",
                                                                             "min-elements", "max-elements", "description"], 2)]])
            if rnd.random() < 0.1:
                subs.append(["augment", rnd.choice(NODE_NAMES + ["a/b", "", "/a", "../a"]), self.children(u, depth, 0, 2)])
            return [kw, self.ref("grouping", u), self.common(kw, subs, u) or None]
        if kw in ("rpc", "action"):
            subs = []
            for io in ("input", "output"):
                if rnd.random() < 0.6:
                    subs.append([io, None, self.extras(io, self.children(u, depth, 0, 3), u, 0.1, 3)])
            if rnd.random() < 0.15:
                subs.append(self.typedef(u, "T%d" % rnd.randrange(6)))
            return [kw, n, self.common(kw, subs, u) or None]
        if kw in ("input", "output"):
            return [kw, None, self.extras(kw, self.children(u, depth, 0, 3), u, 0.1, 3)]
        if kw == "notification":
            return [kw, n, self.common(kw, self.children(u, depth, 0, 3), u)]
        if kw == "typedef":
            return self.typedef(u, "T%d" % rnd.randrange(6))
        if kw == "grouping":
            return self.grouping(u, "G%d" % rnd.randrange(6), depth)
        if kw == "identity":
            return self.identity(u, "I%d" % rnd.randrange(6))
        if kw == "feature":
            return self.feature(u, "F%d" % rnd.randrange(6))
        if kw == "extension":
            return ["extension", "E%d" % rnd.randrange(3), self.extras(kw, [["argument", "a", None]] if rnd.random() < 0.5 else [], u) or None]
        if kw == "augment":
            kinds = ["leaf", "container", "list", "leaf-list", "choice", "case", "uses", "anyxml", "notification", "action"]
            return [kw, Ref("augment", u), self.common(kw, self.children(u, depth, 0, 3, kinds), u)]
        if kw == "refine":
            return [kw, rnd.choice(NODE_NAMES), self.extras(kw, [], u, 0.5, 3) or None]
        if kw == "deviation":
            ds = []
            for _ in range(rnd.choice([0, 1, 1, 1, 2, 3])):
                ds.append(self.data(u, depth, "deviate"))
            return [kw, Ref("deviation", u), self.extras(kw, ds, u, 0.05, 3)]
        if kw == "deviate":
            d = rnd.choice(WORDS["deviate"][:4] * 4 + WORDS["deviate"])
            subs = []
            if d != "not-supported" or rnd.random() < 0.2:
                for k in ("type", "default", "config", "mandatory", "min-elements", "max-elements", "units", "must", "unique"):
                    if rnd.random() < 0.22:
                        subs.append(self.type(u, None) if k == "type" else [k, self.word(k, u), None])
            return [kw, d, self.extras(kw, subs, u, 0.05, 3) or None]
        return [kw, n, None]

    def typedef(self, u, name):
        subs = [self.type(u, name)]
        if self.rnd.random() < 0.25:
            subs.append(["default", self.word("default", u), None])
        if self.rnd.random() < 0.15:
            subs.append(["units", "u", None])
        return ["typedef", name, self.extras("typedef", subs, u, 0.08, 3)]

    def grouping(self, u, name, depth=0):
        subs = self.children(u, depth + 1, 0, 4)
        if self.rnd.random() < 0.08:
            subs.append(["uses", self.rnd.choice([name, u.prefix + ":" + name]), None])
            self.dist["ref:grouping:self"] += 1
        return ["grouping", name, self.extras("grouping", subs, u, 0.08, 3)]

    def identity(self, u, name):
        subs = []
        for _ in range(self.rnd.choice([0, 1, 1, 2])):
            subs.append(["base", self.ref("identity", u, name), None])
        return ["identity", name, self.extras("identity", subs, u, 0.1, 3) or None]

    def feature(self, u, name):
        subs = []
        if self.rnd.random() < 0.4:
            subs.append(["if-feature", self.ref("feature", u, name), None])
        return ["feature", name, self.extras("feature", subs, u, 0.1, 3) or None]

    def bodies(self):
        rnd = self.rnd
        for u in self.units:
            b = []
            for n in u.defs["extension"]:
                b.append(["extension", n, [["argument", "a", None]] if rnd.random() < 0.5 else None])
            for n in u.defs["feature"]:
                b.append(self.feature(u, n))
            for n in u.defs["identity"]:
                b.append(self.identity(u, n))
            for n in u.defs["typedef"]:
                b.append(self.typedef(u, n))
            for n in u.defs["grouping"]:
                b.append(self.grouping(u, n))
            for _ in range(rnd.randint(0, 5 if not self.big else 12)):
                b.append(self.data(u, 0))
            for _ in range(rnd.choice([0, 0, 1, 1, 2])):
                b.append(self.data(u, 0, rnd.choice(["rpc", "notification"])))
            for _ in range(rnd.choice([0, 0, 1, 1, 2, 3])):
                b.append(self.data(u, 0, "augment"))
            for _ in range(rnd.choice([0, 0, 0, 1, 1, 2])):
                b.append(self.data(u, 0, "deviation"))
            if rnd.random() < 0.3:
                rnd.shuffle(b)
            u.body = b

    # ---------------------------------------------------------- gadgets: the shapes the property names
    def fresh(self, stem):
        self.uid += 1
        return "%s%d" % (stem, self.uid)

    def qual(self, u, v, name):
        """name of a definition of unit v as written in unit u"""
        if u.modname() == v.modname():
            return self.rnd.choice([name, name, u.prefix + ":" + name])
        return self.prefix_to(u, v.modname()) + ":" + name

    def wrap(self, node, how):
        if how == "container":
            return ["container", self.fresh("w"), [node]]
        if how == "list":
            return ["list", self.fresh("w"), [["key", "k", None], ["leaf", "k", [["type", "string", None]]], node]]
        if how == "choice":
            return ["choice", self.fresh("w"), [["case", self.fresh("cs"), [node]]]]
        if how == "rpc":
            return ["rpc", self.fresh("w"), [[self.rnd.choice(["input", "output"]), None, [node]]]]
        if how == "notification":
            return ["notification", self.fresh("w"), [node]]
        if how == "grouping":
            g = self.fresh("gw")
            return ["container", self.fresh("w"), [["grouping", g, [node]], ["uses", g, None]]]
        return node

    def cycle(self, kind):
        """k definitions referring to each other in a ring, spread over the units"""
        rnd = self.rnd
        k = rnd.choice([1, 1, 2, 2, 3, 4, 6])
        us = [rnd.choice(self.units) for _ in range(k)]
        names = [self.fresh({"typedef": "ct", "grouping": "cg", "identity": "ci", "feature": "cf"}[kind]) for _ in range(k)]
        self.dist["cycle:%s:%d-hops" % (kind, k)] += 1
        spread = len({id(u) for u in us})
        self.dist["cycle:%s:%s" % (kind, "one-unit" if spread == 1 else "across-units")] += 1
        for i in range(k):
            u, v = us[i], us[(i + 1) % k]
            nxt = self.qual(u, v, names[(i + 1) % k])
            if kind == "typedef":
                t = ["type", nxt, None]
                r = rnd.random()
                if r < 0.25:
                    t = ["type", "union", [["type", "string", None], t]]
                elif r < 0.35:
                    t = ["type", "leafref", [["path", "../x", None], t]] if rnd.random() < 0.3 else t
                d = ["typedef", names[i], [t] + ([["default", "1", None]] if rnd.random() < 0.3 else [])]
                if rnd.random() < 0.2 and k > 1:
                    d = self.wrap(d, rnd.choice(["container", "list", "rpc", "notification"]))
                u.body.append(d)
            elif kind == "grouping":
                use = ["uses", nxt, None]
                r = rnd.random()
                if r < 0.5:
                    use = self.wrap(use, rnd.choice(["container", "list", "choice", "notification", "grouping"]))
                elif r < 0.6:
                    use = ["uses", nxt, [["augment", "a", [["leaf", "z", [["type", "string", None]]]]]]]
                u.body.append(["grouping", names[i], [["leaf", self.fresh("l"), [["type", "string", None]]], use]])
            elif kind == "identity":
                bases = [["base", nxt, None]]
                if rnd.random() < 0.3:
                    bases.append(["base", self.ref("identity", u), None])
                u.body.append(["identity", names[i], bases])
            else:
                u.body.append(["feature", names[i], [["if-feature", nxt, None]]])
        u0 = rnd.choice(self.units)
        first = self.qual(u0, us[0], names[0])
        if kind == "typedef" and rnd.random() < 0.8:
            u0.body.append(["leaf", self.fresh("cl"), [["type", first, None]]])
        elif kind == "grouping" and rnd.random() < 0.7:
            u0.body.append(self.wrap(["uses", first, None], rnd.choice(["container", "list", "plain", "rpc", "choice"])))
        elif kind == "identity" and rnd.random() < 0.8:
            t = ["type", "identityref", [["base", first, None]]]
            if rnd.random() < 0.4:
                td = self.fresh("cit")
                u0.body.append(["typedef", td, [t]])
                t = ["type", td, None]
            u0.body.append(["leaf", self.fresh("cl"), [t]])
        elif kind == "feature":
            u0.body.append(["leaf", self.fresh("cl"), [["type", "string", None], ["if-feature", first, None]]])

    def gadgets(self):
        rnd = self.rnd
        mods = [u for u in self.units if u.kind == "module"]
        for kind in ("typedef", "grouping", "identity", "feature"):
            if rnd.random() < 0.3:
                self.cycle(kind)
        u = rnd.choice(self.units)
        m = rnd.choice(mods)
        pm = self.prefix_to(u, m.name)
        leaf = lambda n, t="string": ["leaf", n, [["type", t, None]]]
        if rnd.random() < 0.12:                      # leafref ring
            self.dist["gadget:leafref-ring"] += 1
            u.body.append(["container", self.fresh("lr"), [
                ["leaf", "la", [["type", "leafref", [["path", "../lb", None]]]]],
                ["leaf", "lb", [["type", "leafref", [["path", rnd.choice(["../la", "../lb", "../../x"]), None]]]]]]])
        if rnd.random() < 0.2:                       # augment chain, written in reverse order, maybe across units
            self.dist["gadget:augment-chain"] += 1
            base = self.fresh("ac")
            m.body.append(["container", base, None if rnd.random() < 0.5 else [leaf("z")]])
            k = rnd.choice([1, 2, 3, 5])
            steps = [self.fresh("n") for _ in range(k)]
            augs = []
            for i in range(k):
                w = rnd.choice(self.units)
                pw = self.prefix_to(w, m.name)
                path = "/" + "/".join(pw + ":" + s for s in [base] + steps[:i])
                augs.append((w, ["augment", path, [["container", steps[i], [leaf("q")]]]]))
            if rnd.random() < 0.7:
                augs.reverse()
            for w, a in augs:
                w.body.append(a)
        if rnd.random() < 0.12:                      # augments that wait for each other
            self.dist["gadget:augment-ring"] += 1
            base, q, r = self.fresh("ar"), self.fresh("q"), self.fresh("r")
            m.body.append(["container", base, None])
            u.body.append(["augment", "/%s:%s/%s:%s" % (pm, base, pm, q), [["container", r, None]]])
            u.body.append(["augment", "/%s:%s/%s:%s" % (pm, base, pm, r), [["container", q, None]]])
        if rnd.random() < 0.3:                       # augment of targets that cannot have children, duplicates
            kind = rnd.choice(["leaf", "leaf-list", "anyxml", "anydata", "choice", "case", "rpc", "rpc-input-unwritten",
                               "rpc-output-unwritten", "notification", "list", "action-input", "module-root",
                               "duplicate-child", "grouping-node", "uses-expanded"])
            self.dist["gadget:augment-target:" + kind] += 1
            t = self.fresh("at")
            path = "/%s:%s" % (pm, t)
            kids = [leaf(self.fresh("k"))]
            if kind in ("leaf", "leaf-list"):
                m.body.append([kind, t, [["type", "string", None]]])
            elif kind in ("anyxml", "anydata", "notification"):
                m.body.append([kind, t, None])
            elif kind == "choice":
                m.body.append(["choice", t, [leaf("s1")]])
                kids = [leaf("s2"), ["case", "cc", [leaf("s3")]]]
            elif kind == "case":
                m.body.append(["choice", t, [["case", "cc", [leaf("s1")]]]])
                path += "/%s:cc" % pm
            elif kind == "rpc":
                m.body.append(["rpc", t, None])
            elif kind.startswith("rpc-"):
                m.body.append(["rpc", t, None if rnd.random() < 0.5 else [["input" if "output" in kind else "output", None, [leaf("o")]]]])
                path += "/%s%s" % (rnd.choice([pm + ":", ""]), "input" if "input" in kind else "output")
            elif kind == "list":
                m.body.append(["list", t, [["key", "k", None], leaf("k")]])
                kids = [leaf("k")] if rnd.random() < 0.5 else kids
            elif kind == "action-input":
                g = self.fresh("ag")
                m.body.append(["grouping", g, [["action", "act", None if rnd.random() < 0.5 else [["input", None, [leaf("i")]]]]]])
                m.body.append(["container", t, [["uses", g, None]]])
                m.body.append(["container", t + "b", [["uses", g, None]]])
                path += "/%s:act/%s:input" % (pm, pm)
            elif kind == "module-root":
                path = rnd.choice(["/", "/%s:" % pm, "/%s:%s/.." % (pm, t), "/%s:%s/../.." % (pm, t)])
                m.body.append(["container", t, None])
            elif kind == "duplicate-child":
                m.body.append(["container", t, [leaf("dup")]])
                kids = [leaf("dup")]
                rnd.choice(self.units).body.append(["augment", path, [["container", "dup", None]]])
            elif kind == "grouping-node":
                m.body.append(["grouping", t, [["container", "gc", None]]])
                path += "/%s:gc" % pm
            else:
                g = self.fresh("ug")
                m.body.append(["grouping", g, [["container", "gc", [leaf("gl")]]]])
                m.body.append(["container", t, [["uses", g, None]]])
                path += "/%s:gc%s" % (pm, rnd.choice(["", "/%s:gl" % pm]))
            u.body.append(["augment", path, kids])
        if rnd.random() < 0.3:                       # deviations of every kind of target
            kind = rnd.choice(["leaf", "leaf-list", "list", "container", "top-not-supported-twice", "rpc-input", "choice",
                               "augmented-node", "uses-copy", "list-key", "missing", "module-root", "replace-type-unknown",
                               "replace-type-cyclic", "min-on-leaf", "delete-default-mismatch"])
            self.dist["gadget:deviation:" + kind] += 1
            t = self.fresh("dv")
            path = "/%s:%s" % (pm, t)
            dv = [["deviate", rnd.choice(["not-supported", "add", "replace", "delete"]), None]]
            if kind in ("leaf", "leaf-list"):
                m.body.append([kind, t, [["type", "string", None]] + ([["default", "d", None]] if rnd.random() < 0.5 else [])])
                dv = [["deviate", rnd.choice(["add", "replace", "delete"]),
                       [[k, self.word(k, u), None] for k in rnd.sample(["default", "config", "mandatory", "units", "min-elements", "max-elements"], 2)]]]
            elif kind in ("list", "list-key"):
                m.body.append(["list", t, [["key", "k", None], leaf("k"), leaf("v")] + ([["min-elements", "1", None]] if rnd.random() < 0.5 else [])])
                if kind == "list-key":
                    path += "/%s:k" % pm
                    dv = [["deviate", "not-supported", None]]
                else:
                    dv = [["deviate", rnd.choice(["add", "replace", "delete"]), [["min-elements", rnd.choice(["1", "2", "x"]), None], ["max-elements", rnd.choice(["3", "unbounded", "0"]), None]]]]
            elif kind == "container":
                m.body.append(["container", t, [leaf("v")]])
            elif kind == "top-not-supported-twice":
                m.body.append(["container", t, [leaf("v")]])
                dv = [["deviate", "not-supported", None]]
                rnd.choice(self.units).body.append(["deviation", path, [["deviate", "not-supported", None]]])
            elif kind == "rpc-input":
                m.body.append(["rpc", t, None if rnd.random() < 0.5 else [["input", None, [leaf("i")]]]])
                path += "/%s:input" % pm + rnd.choice(["", "/%s:i" % pm])
            elif kind == "choice":
                m.body.append(["choice", t, [leaf("s1"), ["case", "cc", [leaf("s2")]]]])
                path += rnd.choice(["", "/%s:s1" % pm, "/%s:s1/%s:s1" % (pm, pm), "/%s:cc" % pm])
            elif kind == "augmented-node":
                m.body.append(["container", t, None])
                rnd.choice(self.units).body.append(["augment", path, [leaf("aug")]])
                path += "/%s:aug" % pm
            elif kind == "uses-copy":
                g = self.fresh("dg")
                m.body.append(["grouping", g, [["list", "gl", [["key", "k", None], leaf("k"), ["min-elements", "1", None]]]]])
                m.body.append(["container", t, [["uses", g, None]]])
                m.body.append(["container", t + "b", [["uses", g, None]]])
                path += "/%s:gl" % pm
                dv = [["deviate", "replace", [["min-elements", "5", None]]]]
            elif kind == "missing":
                path += "/%s:nosuch" % pm
            elif kind == "module-root":
                m.body.append(["container", t, None])
                path = rnd.choice(["/", "/%s:%s/.." % (pm, t), "", "/%s:" % pm, "%s:%s" % (pm, t), "../x"])
            elif kind.startswith("replace-type"):
                m.body.append(leaf(t))
                ty = "nosuchtype"
                if kind.endswith("cyclic"):
                    ty = self.fresh("dt")
                    u.body.append(["typedef", ty, [["type", ty, None]]])
                dv = [["deviate", "replace", [["type", ty, None]]]]
            elif kind == "min-on-leaf":
                m.body.append(leaf(t))
                dv = [["deviate", rnd.choice(["add", "replace", "delete"]), [[rnd.choice(["min-elements", "max-elements"]), "1", None]]]]
            else:
                m.body.append(["leaf", t, [["type", "string", None], ["default", "x", None]]])
                dv = [["deviate", "delete", [["default", "y", None]]], ["deviate", "add", [["default", "z", None]]]]
            u.body.append(["deviation", path, dv])
        if rnd.random() < 0.08:                      # grouping tower (bounded: 2^depth copies)
            depth = rnd.choice([2, 4, 6, 9 if self.big else 7])
            self.dist["gadget:grouping-tower:%d" % depth] += 1
            stem = self.fresh("tw")
            u.body.append(["grouping", stem + "_0", [leaf("l")]])
            for i in range(1, depth + 1):
                u.body.append(["grouping", "%s_%d" % (stem, i), [["container", "a", [["uses", "%s_%d" % (stem, i - 1), None]]],
                                                                 ["container", "b", [["uses", "%s_%d" % (stem, i - 1), None]]]]])
            u.body.append(["container", stem, [["uses", "%s_%d" % (stem, depth), None]]])
        if rnd.random() < 0.1:                       # deep nesting (far below any stack limit)
            # Entry.Print is cubic in the nesting depth and Path quadratic: a few hundred levels keep a case well below a second
            depth = rnd.choice([30, 100, 300, 500 if self.big else 400])
            kw = rnd.choice(["container", "container", "list", "choice", "grouping", "case-chain"])
            if kw == "case-chain":
                depth //= 2
            self.dist["gadget:deep-%s:%d" % (kw, depth)] += 1
            node = leaf("bottom")
            for i in range(depth):
                if kw == "case-chain":
                    node = ["choice", "c", [["case", "k", [node]]]]
                elif kw == "list":
                    node = ["list", "d", [["key", "k", None], leaf("k"), node]]
                else:
                    node = [kw, "d", [node]]
            if kw == "grouping":
                node = ["container", self.fresh("dg"), [node, ["uses", "d", None]]]
            u.body.append(node)
        if rnd.random() < 0.08:                      # posix-pattern extension of openconfig-extensions
            self.dist["gadget:posix-pattern"] += 1
            if not any(x.name == "openconfig-extensions" for x in self.units):
                oc = Unit("openconfig-extensions", "module")
                oc.prefix, oc.ns = "oc-ext", "urn:oc-ext"
                oc.body = [["extension", "posix-pattern", [["argument", "pattern", None]]]]
                if rnd.random() < 0.85:
                    self.units.append(oc)
            if not any(mn == "openconfig-extensions" for mn, _, _ in u.imports):
                u.imports.append(("openconfig-extensions", "oc-ext", None))
            u.body.append(["leaf", self.fresh("pp"), [["type", rnd.choice(["string", "T0"]),
                                                     [["oc-ext:posix-pattern", rnd.choice(PATTERNS + ["^[a-z]+$"]), None]]]]])
        if rnd.random() < 0.12:                      # choice shapes
            self.dist["gadget:choice"] += 1
            t = self.fresh("ch")
            u.body.append(["choice", t, [
                ["case", "c1", [leaf("same")]], ["case", "c2", [leaf(rnd.choice(["same", "other"]))]],
                ["choice", "inner", [leaf("deep")]], leaf("short"),
                ["default", rnd.choice(["c1", "short", "nocase", "inner"]), None],
                ["mandatory", rnd.choice(["true", "false"]), None]]])
        if rnd.random() < 0.1:                       # uses with refine and augment
            self.dist["gadget:uses-refine-augment"] += 1
            g = self.fresh("rg")
            u.body.append(["grouping", g, [["container", "a", [leaf("b")]], leaf("c")]])
            u.body.append(["container", self.fresh("ru"), [["uses", g, [
                ["refine", rnd.choice(["a", "a/b", "c", "nosuch", "/a"]), [["description", "r", None]]],
                ["augment", rnd.choice(["a", "a/b", "c", "nosuch", "../a"]), [leaf("z")]]]]]])
        if rnd.random() < 0.1:                       # key shapes
            self.dist["gadget:list-key"] += 1
            u.body.append(["list", self.fresh("lk"), [["key", rnd.choice(["k", "k v", "nokey", "", "g", "c/k"]), None],
                                                     leaf("k"), ["leaf-list", "v", [["type", "string", None]]],
                                                     ["container", "c", [leaf("k")]],
                                                     ["unique", rnd.choice(["k", "c/k", "nosuch", ""]), None]]])

    # ---------------------------------------------------------- paths
    STEP = {"container", "list", "leaf", "leaf-list", "anyxml", "anydata", "choice", "case", "rpc", "action",
            "notification", "input", "output"}

    def collect_paths(self):
        self.paths = []          # (module name, [steps], keyword of the last step)
        def go(mod, subs, pre):
            for n in subs or []:
                kw, arg = n[0], n[1]
                if kw in self.STEP and not isinstance(arg, Ref):
                    step = arg if kw not in ("input", "output") else kw
                    if step is None:
                        continue
                    p = pre + [step]
                    if len(p) <= 8:
                        self.paths.append((mod, p, kw))
                        go(mod, n[2], p)
        for u in self.units:
            go(u.modname() or u.name, u.body, [])

    def resolve(self, ref, siblings=None):
        rnd, u = self.rnd, ref.unit
        if ref.kind == "key":
            leaves = [c[1] for c in (ref.node[2] or []) if c[0] == "leaf" and isinstance(c[1], str)]
            r = rnd.random()
            if leaves and r < 0.75:
                self.dist["key:child-leaves"] += 1
                return " ".join(rnd.sample(leaves, min(len(leaves), rnd.choice([1, 1, 2]))))
            self.dist["key:odd"] += 1
            return rnd.choice(WORDS["key"])
        r = rnd.random()
        label = "path:%s:" % ref.kind
        if ref.kind == "leafref" and r < 0.45:
            self.dist[label + "relative"] += 1
            s = "../" * rnd.choice([1, 1, 2, 3, 6]) + "/".join(rnd.choice(NODE_NAMES) for _ in range(rnd.choice([1, 1, 2])))
            if rnd.random() < 0.15:
                s = s.replace("/", "[%s=current()/../%s]/" % (rnd.choice(NODE_NAMES), rnd.choice(NODE_NAMES)), 1)
            return s
        if self.paths and r < 0.7:
            mod, p, kw = rnd.choice(self.paths)
            pfx = self.prefix_to(u, mod)
            mode = "existing-" + kw
            q = rnd.random()
            if q < 0.1:
                s = "/" + pfx + ":" + p[0] + "".join("/" + x for x in p[1:])
                mode += "+prefix-on-first-step-only"
            elif q < 0.15:
                s = "/" + "/".join(p)
                mode += "+no-prefix"
            else:
                s = "/" + "/".join(pfx + ":" + x for x in p)
            q = rnd.random()
            if kw in ("rpc", "action") and q < 0.6:
                s += "/" + rnd.choice([pfx + ":", ""]) + rnd.choice(["input", "output"])
                mode += "+input-output"
            elif q < 0.1:
                s += "/" + pfx + ":nosuch"
                mode += "+missing-last-step"
            elif q < 0.15:
                s += rnd.choice(["/..", "/.", "/", "/../..", "/" + pfx + ":"])
                mode += "+dots"
            base, _, var = mode.partition("+")
            self.dist[label + base] += 1
            for v in var.split("+") if var else []:
                self.dist["path-variation:" + v] += 1
            return s
        if r < 0.8:
            self.dist[label + "nonexistent"] += 1
            return rnd.choice(["/%s:nosuch" % u.prefix, "/nopfx:a", "/%s:a/%s:nosuch" % (u.prefix, u.prefix), "/a"])
        if r < 0.88:
            self.dist[label + "relative"] += 1
            return rnd.choice(["a", "a/b", "../a", "..", ".", "%s:a" % u.prefix])
        self.dist[label + "malformed"] += 1
        return rnd.choice(["/", "", "//", "/:", "/%s:" % u.prefix, "/%s:a//%s:b" % (u.prefix, u.prefix), "/a/..", "/../..",
                           "/%s:a/../../.." % u.prefix, "/" + "/".join("%s:a" % u.prefix for _ in range(300)), " /a",
                           "/%s:a[k='1']/%s:b" % (u.prefix, u.prefix), "/a:b:c", "/é:é", "/%s:a/" % u.prefix])

    def finish(self, forest):
        """resolve placeholders, quote arguments (in place)"""
        for n in forest:
            if isinstance(n[1], Ref):
                n[1] = self.resolve(n[1])
            if n[1] is not None:
                n[1] = quote(n[1], self.rnd)
            if n[2]:
                self.finish(n[2])

    # ---------------------------------------------------------- texts
    def header(self, u):
        rnd = self.rnd
        h = []
        if u.version:
            h.append(["yang-version", u.version, None])
        if u.kind == "module":
            if rnd.random() < 0.98:
                h.append(["namespace", u.ns, None])
            if rnd.random() < 0.98:
                h.append(["prefix", u.prefix, None])
        else:
            if rnd.random() < 0.98:
                h.append(["belongs-to", u.owner, [["prefix", u.prefix, None]] if rnd.random() < 0.97 else None])
        for m, p, rd in u.imports:
            subs = [["prefix", p, None]] if rnd.random() < 0.98 else []
            if rd is not None:
                subs.append(["revision-date", rd, None])
                self.dist["revision-date:on-import"] += 1
            h.append(["import", m, subs or None])
        for s, rd in u.includes:
            h.append(["include", s, [["revision-date", rd, None]] if rd is not None else None])
            if rd is not None:
                self.dist["revision-date:on-include"] += 1
        for k in ("organization", "contact", "description"):
            if rnd.random() < 0.1:
                h.append([k, rnd.choice(TEXTS), None])
        for d in u.revisions:
            h.append(["revision", d, [["description", "r", None]] if rnd.random() < 0.3 else None])
        return h

    def texts(self):
        """-> [(file name, text)], one per unit"""
        rnd = self.rnd
        self.structure()
        # which units are going to be rejected is decided before references are drawn
        for u in self.units:
            r = rnd.random()
            if r < 0.05:
                u.rejected, u.tail = True, rnd.choice(["\n}", "\n\"", "\n/* ", "\nfoo bar;", "\nmodule zz { }", "\ncontainer c { typedef t { type foo; } }"])
            elif r < 0.08:
                u.rejected, u.tail = True, "DROP-LAST-BRACE"
        self.bodies()
        self.gadgets()
        self.collect_paths()
        out = []
        for u in self.units:
            top = [[u.kind, u.name, self.header(u) + u.body]]
            if not u.noisy:
                self.tb.sanitise(top[0], self.dist)
            self.finish(top)
            t = render(top)
            if u.tail == "DROP-LAST-BRACE":
                t = t.rstrip()[:-1]
            elif u.tail:
                t += u.tail
            if u.rejected:
                self.dist["unit:rejected-text"] += 1
            self.dist["unit:" + u.kind] += 1
            out.append((u.name + ".yang", t))
        return out


# ------------------------------------------------------------------ (ii) statement-level mutation

REF_KW = ["type", "uses", "base", "import", "include", "belongs-to", "augment", "deviation", "prefix", "path", "key",
          "default", "if-feature", "revision-date", "refine", "unique", "namespace"]


def seed_groups():
    """the repository's YANG files as groups that load together, plus the modules inlined in its tests"""
    groups = []
    td = os.path.join(lib.REPO, "testdata")
    g = []
    for f in sorted(glob.glob(os.path.join(td, "*.yang")) + glob.glob(os.path.join(td, "*", "*.yang"))):
        g.append((os.path.basename(f), open(f, encoding="utf-8", errors="surrogateescape").read()))
    if g:
        groups.append(g)
    for f in sorted(glob.glob(os.path.join(lib.REPO, "pkg", "yang", "testdata", "*.yang"))):
        t = open(f, encoding="utf-8", errors="surrogateescape").read()
        if t.strip():
            groups.append([(os.path.basename(f), t)])
    pool = []
    for f in sorted(glob.glob(os.path.join(lib.REPO, "pkg", "*", "*_test.go"))):
        src = open(f, encoding="utf-8", errors="replace").read()
        for m in re.finditer(r"`([^`]*)`", src):
            t = m.group(1)
            if re.search(r"^\s*(sub)?module\s+\S+\s*\{", t) and len(t) < 20000:
                pool.append(t)
    pool = sorted(set(pool))
    return groups, pool


def header_name(text):
    m = re.search(r"^\s*(?:sub)?module\s+\"?([^\s\"{]+)", text)
    return m.group(1) if m else "x"


def pool_group(rnd, pool, byname):
    """a module of the pool with the pool modules its import / include / belongs-to statements name"""
    first = rnd.choice(pool)
    got, todo = [], [first]
    while todo and len(got) < 6:
        t = todo.pop()
        if t in got:
            continue
        got.append(t)
        for m in re.finditer(r"\b(?:import|include|belongs-to)\s+\"?([A-Za-z0-9_.\-]+)", t):
            c = byname.get(m.group(1))
            if c:
                todo.append(rnd.choice(c))
    return [(header_name(t) + ".yang", t) for t in got]


def mutate_group(rnd, group, tb, dist, nmut=None):
    """group: [(name, text)] -> mutated [(name, text)]; texts that the forgiving parser cannot read are kept"""
    forests = [(n, parse_yang(t), t) for n, t in group]
    ok = [i for i, (n, f, t) in enumerate(forests) if f]
    if not ok:
        return group
    allnodes = []
    for i in ok:
        allnodes += [(i, c, k, nd) for c, k, nd in walk(forests[i][1])]
    args_by_kw = collections.defaultdict(list)
    names = []
    for i, c, k, nd in allnodes:
        if nd[1] is not None:
            args_by_kw[nd[0]].append(nd[1])
            if nd[0] in ("typedef", "grouping", "identity", "feature", "leaf", "container", "list", "module", "submodule"):
                names.append(nd[1])
    for _ in range(nmut or rnd.choice([1, 1, 1, 2, 2, 3, 5])):
        i = rnd.choice(ok)
        f = forests[i][1]
        nodes = list(walk(f))
        if not nodes:
            continue
        cont, k, nd = rnd.choice(nodes)
        op = rnd.choice(["delete", "duplicate", "swap", "keyword", "keyword-pseudo", "to-top", "rename-ref", "rename-ref",
                         "rename-ref", "drop-arg", "empty-block", "graft", "self-nest", "arg-garbage"])
        dist["mutation:" + op] += 1
        if op == "delete":
            del cont[k]
        elif op == "duplicate":
            cont.insert(k, copy_forest([nd])[0])
        elif op == "swap" and len(cont) > 1:
            j = rnd.randrange(len(cont))
            cont[k], cont[j] = cont[j], cont[k]
        elif op == "keyword":
            nd[0] = rnd.choice(tb.keywords + ["bogus", "x:y"])
        elif op == "keyword-pseudo":
            nd[0] = rnd.choice(PSEUDO)
        elif op == "to-top":
            del cont[k]
            f.insert(rnd.randrange(len(f) + 1), nd)
        elif op == "rename-ref":
            refs = [x for x in nodes if x[2][0] in REF_KW and x[2][1] is not None]
            if refs:
                _, _, r = rnd.choice(refs)
                old = unquote(r[1])
                q = rnd.random()
                if q < 0.35 and args_by_kw[r[0]]:
                    new = unquote(rnd.choice(args_by_kw[r[0]]))
                elif q < 0.55 and names:
                    new = unquote(rnd.choice(names))           # often the enclosing definition: self reference
                elif q < 0.7:
                    new = old.split(":", 1)[-1] if ":" in old else "zz:" + old
                elif q < 0.8:
                    new = old + "/" + old.lstrip("/") if "/" in old else old + old
                else:
                    new = rnd.choice(["", ":", "/", "nope", "a:b:c", "..", "../..", old[:len(old) // 2]])
                r[1] = quote(new)
        elif op == "drop-arg":
            nd[1] = None
        elif op == "empty-block":
            nd[2] = [] if nd[2] is None else None
        elif op == "graft":
            j, c2, k2, other = rnd.choice(allnodes)
            if other[2] is not None and other is not nd:
                other[2].append(copy_forest([nd])[0])
        elif op == "self-nest" and nd[2] is not None:
            nd[2].append(copy_forest([nd])[0])
        elif op == "arg-garbage":
            nd[1] = quote(rnd.choice(TEXTS + RANGES + ["\x00", "�", "a" * 5000]))
    out = []
    for n, f, t in forests:
        out.append((n, render(f) if f else t))
    return out


# ------------------------------------------------------------------ (iii) byte-level noise

BAD_UTF8 = [b"\xff", b"\xfe\xff", b"\xc0\x80", b"\x80", b"\xe2\x82", b"\xed\xa0\x80", b"\xf4\x90\x80\x80", b"\xf0\x9f",
            b"\xc3", b"\x00", b"\x00\x00\x00", b"\xef\xbb\xbf", b"\xe2\x80\xa8", b"\r", b"\x0b", b"\x7f", b"\x1b[0m"]
FRAGMENTS = [b'"', b"'", b"/*", b"*/", b"//", b"{", b"}", b";", b"+", b'" + "', b"\\", b'\\"', b"\\n", b"\\x", b'"\\',
             b"\n", b"\t", b" ", b"module", b"a", b"pattern", b'"a" +', b"+ 'b'", b"/*/", b"*//", b"'''", b'""']


def nest(rnd, depth, kw=b"a"):
    style = rnd.choice(["open", "balanced", "with-arg", "quoted", "close-only"])
    if style == "open":
        return (kw + b"{") * depth
    if style == "balanced":
        return (kw + b" b{") * depth + b"c;" + b"}" * depth
    if style == "with-arg":
        return b"container c {\n" * depth + b"leaf x { type string; }\n" + b"}\n" * depth
    if style == "quoted":
        return (b'"a" "b" {') * depth + b"}" * depth
    return b"}" * depth + b"a;"


def noise_text(rnd, seeds, dist, deep):
    kind = rnd.choice(["random-bytes", "fragments", "flip", "insert-bad-utf8", "truncate", "unterminated", "nesting",
                       "escapes", "splice", "long-token", "plus-chain", "error-flood"])
    dist["noise:" + kind] += 1
    base = rnd.choice(seeds).encode("utf-8", "surrogateescape") if seeds else b"module m { namespace n; prefix p; }"
    if kind == "random-bytes":
        return bytes(rnd.randrange(256) for _ in range(rnd.choice([1, 5, 40, 400])))
    if kind == "fragments":
        return b"".join(rnd.choice(FRAGMENTS + BAD_UTF8) for _ in range(rnd.choice([3, 10, 40, 200])))
    if kind == "flip":
        b = bytearray(base)
        for _ in range(rnd.choice([1, 2, 5, 20])):
            if b:
                b[rnd.randrange(len(b))] = rnd.randrange(256)
        return bytes(b)
    if kind == "insert-bad-utf8":
        b = bytearray(base)
        for _ in range(rnd.choice([1, 2, 5])):
            p = rnd.randrange(len(b) + 1)
            b[p:p] = rnd.choice(BAD_UTF8)
        return bytes(b)
    if kind == "truncate":
        return base[:rnd.randrange(len(base) + 1)]
    if kind == "unterminated":
        p = rnd.randrange(len(base) + 1)
        return base[:p] + rnd.choice([b'"', b"'", b"/*", b"//", b'"\\', b"/", b'" +', b'"x" + ']) + \
            (base[p:] if rnd.random() < 0.5 else b"")
    if kind == "nesting":
        return nest(rnd, rnd.choice([10, 100, 1000, deep]))
    if kind == "escapes":
        return b'module m { description "' + b"".join(rnd.choice([b"\\a", b"\\n", b"\\\\", b'\\"', b"\\", b"\\\n", b"x", b"\\t", b"\\0"])
                                                      for _ in range(rnd.choice([1, 9, 10, 50]))) + rnd.choice([b'"; }', b"", b'"'])
    if kind == "splice":
        other = rnd.choice(seeds).encode("utf-8", "surrogateescape") if seeds else base
        p, q = rnd.randrange(len(base) + 1), rnd.randrange(len(other) + 1)
        return base[:p] + other[q:]
    if kind == "long-token":
        n = rnd.choice([1000, 100000, 1000000 if deep > 5000 else 200000])
        return rnd.choice([b"a" * n + b";", b'a "' + b"b" * n + b'";', b"a '" + b"\n" * n + b"';", b"/*" + b"*" * n + b"/ a;",
                           b"a " + b"\t" * n + b"b;", b"a" + b";" * n])
    if kind == "plus-chain":
        n = rnd.choice([2, 50, 3000])
        return b'a "x"' + b' + "y"' * n + rnd.choice([b";", b" +", b" + ;", b""])
    return b"".join(rnd.choice([b'"', b"'x", b'a "\\q";', b"{", b"}", b'"\\z" ', b"a b c;", b"/* "]) for _ in range(rnd.choice([5, 12, 60])))


# ------------------------------------------------------------------ (iv) histories and options

def history(rnd, texts, dist, reads=True):
    """ops string over texts 0..n-1: loads in some order, Process (repeated), reads only right after a Process"""
    n = len(texts)
    style = rnd.choice(["batch", "batch", "batch", "shuffled", "incremental", "repeated-P", "reload", "getmodule", "P-first"])
    dist["history:" + style] += 1
    order = list(range(n))
    if style != "batch":
        rnd.shuffle(order)
    ops = []
    if style == "P-first":
        ops.append("P")
    if style == "incremental":
        for i in order:
            ops += ["L%d" % i, "P"]
            if reads and rnd.random() < 0.3:
                ops.append("R")
    else:
        ops += ["L%d" % i for i in order]
        if style == "reload" and n:
            ops += ["P", "L%d" % rnd.choice(order)] + (["L%d" % rnd.choice(order)] if rnd.random() < 0.5 else [])
        ops.append("P")
    if style == "repeated-P":
        ops += ["P"] * rnd.choice([1, 2, 3])
    if style == "getmodule" and n:
        ops = ["L%d" % i for i in order[:-1]] + ["G%d" % order[-1]] + (["P"] if rnd.random() < 0.5 else [])
    if reads and rnd.random() < 0.3:
        ops += ["R"] * rnd.choice([1, 2])
    return ",".join(ops)


def options(rnd, dist, pool="cnufqex"):
    o = "".join(c for c in pool if rnd.random() < (0.5 if c in "fqe" else 0.3))
    for c in o or "-":
        dist["option:" + c] += 1
    return o or "-"


# ------------------------------------------------------------------ (v) corpus

def load_corpus():
    """corpus/C01/*.json: {"note", "cmd", "opts", "ops", "texts": [[name, text], ...]} or {"cmd", "text"}"""
    out = []
    for f in sorted(glob.glob(os.path.join(CORPUS, "*.json"))):
        try:
            d = json.load(open(f))
        except ValueError:
            continue
        for c in d if isinstance(d, list) else [d]:
            if "texts" in c:
                texts = [(n, bytes.fromhex(t) if c.get("hex") else t) for n, t in c["texts"]]
                ops = c.get("ops") or ",".join("L%d" % i for i in range(len(texts))) + ",P"
                for cmd in ([c["cmd"]] if "cmd" in c else ["hist", "process"]):
                    opts = c.get("opts", "fqe" if cmd == "hist" else "fq")
                    if cmd == "process":
                        opts = "".join(x for x in opts if x in "cnufq") or "-"
                        ops = ",".join(o for o in ops.split(",") if o[0] in "LP")
                    out.append(("corpus:" + os.path.basename(f), hist_line(opts, ops, texts, cmd=cmd)))
            else:
                t = bytes.fromhex(c["text"]) if c.get("hex") else c["text"]
                for cmd in ([c["cmd"]] if c.get("cmd") else ["parse", "ast", "stmt"]):
                    out.append(("corpus:" + os.path.basename(f), "%s %s" % (cmd, hx(t))))
    return out


# ------------------------------------------------------------------ (i-b) schema node paths

PATH_BASE = """module b {
  yang-version 1.1;
  namespace "urn:b";
  prefix b;
  %s
  grouping g { container gc { leaf gl { type string; } } }
  container c {
    leaf l { type string; default d; }
    list li { key k; leaf k { type string; } leaf v { type int8; } min-elements 1; }
    choice ch { leaf s1 { type string; } case cs { leaf s2 { type string; } } container s3 { leaf in3 { type string; } } }
    leaf-list ll { type string; max-elements 5; }
    anyxml ax;
    action act { input { leaf i { type string; } } }
    notification nt { leaf n { type string; } }
    container u { uses g; }
  }
  rpc r { input { leaf i { type string; } } }
  rpc r2;
  notification topn { leaf x { type string; } }
  leaf top { type string; }
  %s
}
"""
# (steps, kind); a step "~x" is an implicit case (may be written or left out)
PATH_NODES = [(["c"], "container"), (["c", "l"], "leaf"), (["c", "li"], "list"), (["c", "li", "k"], "key-leaf"),
              (["c", "li", "v"], "leaf"), (["c", "ch"], "choice"), (["c", "ch", "~s1", "s1"], "implicit-case-leaf"),
              (["c", "ch", "~s1"], "implicit-case"), (["c", "ch", "cs"], "case"), (["c", "ch", "cs", "s2"], "leaf"),
              (["c", "ch", "~s3", "s3"], "implicit-case-container"), (["c", "ch", "~s3", "s3", "in3"], "leaf"),
              (["c", "ll"], "leaf-list"), (["c", "ax"], "anyxml"), (["c", "act"], "action"),
              (["c", "act", "input"], "action-input"), (["c", "act", "output"], "action-output-unwritten"),
              (["c", "act", "input", "i"], "leaf"), (["c", "nt"], "notification"), (["c", "nt", "n"], "leaf"),
              (["c", "u"], "container"), (["c", "u", "gc"], "uses-copy"), (["c", "u", "gc", "gl"], "uses-copy-leaf"),
              (["r"], "rpc"), (["r", "input"], "rpc-input"), (["r", "input", "i"], "leaf"),
              (["r", "output"], "rpc-output-unwritten"), (["r2"], "rpc"), (["r2", "input"], "rpc-input-unwritten"),
              (["r2", "output"], "rpc-output-unwritten"), (["r2", "bogus"], "rpc-bad-step"), (["topn"], "notification"),
              (["topn", "x"], "leaf"), (["top"], "leaf"), (["nosuch"], "missing"), (["c", "nosuch"], "missing"),
              ([], "module-root")]


def schema_path(rnd, dist, pfx):
    """a schema node path to a node of PATH_BASE, written in one of many ways"""
    steps, kind = rnd.choice(PATH_NODES)
    dist["schema-path:target:" + kind] += 1
    names = []
    for st in steps:
        if st.startswith("~"):
            if rnd.random() < 0.5:
                names.append(st[1:])
        else:
            names.append(st)
    style = rnd.choice(["all", "all", "all", "none", "first", "mixed", "wrong"])
    out = []
    for i, n in enumerate(names):
        q = {"all": pfx, "none": "", "first": pfx if i == 0 else "", "mixed": rnd.choice([pfx, ""]),
             "wrong": pfx if rnd.random() < 0.7 else "zz"}[style]
        out.append((q + ":" if q else "") + n)
    for _ in range(rnd.choice([0, 0, 1, 1, 2, 3])):
        ed = rnd.choice(["dot", "pair", "pair-missing", "up", "up", "up-to-root", "beyond-root", "empty-step", "trailing-slash",
                         "leading-double-slash", "down-again"])
        dist["schema-path:edit:" + ed] += 1
        pos = rnd.randrange(len(out) + 1)
        if ed == "dot":
            out.insert(pos, ".")
        elif ed == "pair":
            out[pos:pos] = [rnd.choice([pfx + ":c", "c", pfx + ":top", pfx + ":r"]), ".."]
        elif ed == "pair-missing":
            out[pos:pos] = [pfx + ":nosuch", ".."]
        elif ed == "up":
            out += [".."] * rnd.choice([1, 1, 2])
        elif ed == "up-to-root":
            out += [".."] * sum(1 for x in out if x not in (".", "..") and x)
        elif ed == "beyond-root":
            out += [".."] * (len(out) + rnd.choice([1, 2, 5]))
        elif ed == "empty-step":
            out.insert(pos, "")
        elif ed == "trailing-slash":
            out.append("")
        elif ed == "leading-double-slash":
            out.insert(0, "")
        elif ed == "down-again":
            out += ["..", rnd.choice([pfx + ":c", pfx + ":r", pfx + ":top", "c"])]
    r = rnd.random()
    if r < 0.9:
        return "/" + "/".join(out)
    if r < 0.95:
        dist["schema-path:relative"] += 1
        return "../" * rnd.choice([0, 0, 1, 2, 3, 6]) + "/".join(out)
    dist["schema-path:degenerate"] += 1
    return rnd.choice(["/", "/.", "/..", ".", "..", "", "//", "/./.", "/../..", "/" + pfx + ":", "/:", "../..", "../../..",
                       "../../../..", "/../../..", "../../../" + pfx + ":c", "./../..", "..//..", "../.."+ "/.." * 20])


def path_case(rnd, dist):
    where = rnd.choice(["same-module", "same-module", "importing-module", "importing-module", "submodule"])
    dist["schema-path:placed-in:" + where] += 1
    pfx = "b" if where != "importing-module" else rnd.choice(["b", "bb"])
    stmts = []
    for _ in range(rnd.choice([1, 1, 1, 2, 3])):
        kind = rnd.choice(["deviation", "deviation", "augment", "leafref"])
        path = schema_path(rnd, dist, pfx)
        if kind == "deviation":
            devs = []
            for _ in range(rnd.choice([1, 1, 1, 2])):
                d = rnd.choice(["not-supported", "not-supported", "add", "replace", "delete"])
                dist["schema-path:deviate:" + d] += 1
                if d == "not-supported":
                    devs.append("deviate not-supported;")
                else:
                    props = rnd.sample(['default "d";', "config false;", "mandatory true;", "min-elements 1;", "max-elements 5;",
                                        'units "u";', "type int8;", "type nosuch;", 'default "x";', "min-elements 0;"],
                                       rnd.choice([0, 1, 1, 2]))
                    devs.append("deviate %s { %s }" % (d, " ".join(props)))
            stmts.append('deviation "%s" { %s }' % (path, " ".join(devs)))
        elif kind == "augment":
            dist["schema-path:augment"] += 1
            body = rnd.choice(["leaf nw { type string; }", "container nw { leaf z { type string; } }", "case nc { leaf nw { type string; } }",
                               "leaf l { type string; }", "leaf s1 { type string; }", "uses %s:g;" % pfx, ""])
            stmts.append('augment "%s" { %s }' % (path, body))
        else:
            dist["schema-path:leafref"] += 1
            if rnd.random() < 0.5:
                path = "../" * rnd.choice([1, 2, 3, 8]) + path.lstrip("/")
            stmts.append('container lrc%d { leaf lr { type leafref { path "%s"; } } }' % (rnd.randrange(1000), path))
    body = "\n  ".join(stmts)
    if where == "same-module":
        texts = [("b.yang", PATH_BASE % ("", body))]
    elif where == "submodule":
        texts = [("b.yang", PATH_BASE % ("include bs;", "")),
                 ("bs.yang", "submodule bs {\n  belongs-to b { prefix b; }\n  %s\n}\n" % body)]
    else:
        texts = [("b.yang", PATH_BASE % ("", "")),
                 ("d.yang", 'module d {\n  namespace "urn:d";\n  prefix d;\n  import b { prefix %s; }\n  %s\n}\n' % (pfx, body))]
    return hist_line(options(rnd, dist), history(rnd, texts, dist), texts)


# ------------------------------------------------------------------ (i-d) hostile strings in numeric positions

HOSTILE_NUM = [" ", "\t", " \n ", "  ", "\r\n", "", " - ", " + ", "+", "-", "--1", "+-1", "- 1", " 5 ", "\t7\n", "5 ", " 5",
               "0x", "0x10", "0X1f", "1e5", "1E-2", "1_000", "007", "08", "-0", "+0", "0.", ".5", "1.", "1..", "1.2.3",
               "9" * 19, "9" * 20, "9" * 400, "-" + "9" * 400, "0." + "0" * 300 + "1", "1" + "0" * 30 + ".5",
               "18446744073709551615", "18446744073709551616", "-9223372036854775808", "-9223372036854775809",
               "２", "٣", "१२", "1 ", " 1", "1 2", "Ⅷ", "NaN", "inf", "-inf", "min", "max", "unbounded",
               "1 2", "1,2", "1;2", "\x00", "1\x00", "﻿1", "true", "٠"]
NUM_TEMPLATES = [
    ("enum-value", "leaf l { type enumeration { enum a { value %s; } enum b; } }"),
    ("enum-value-2nd", "leaf l { type enumeration { enum a; enum b { value %s; } enum c; } }"),
    ("bit-position", "leaf l { type bits { bit a { position %s; } bit b; } }"),
    ("typedef-enum-value", "typedef t { type enumeration { enum a { value %s; } } } leaf l { type t; }"),
    ("typedef-bit-position", "typedef t { type bits { bit a { position %s; } } default a; } leaf l { type t; }"),
    ("fraction-digits", "leaf l { type decimal64 { fraction-digits %s; } }"),
    ("typedef-fraction-digits", "typedef t { type decimal64 { fraction-digits %s; range 1..2; } } leaf l { type t; }"),
    ("union-member-fraction-digits", "leaf l { type union { type string; type decimal64 { fraction-digits %s; } } }"),
    ("union-member-enum-value", "typedef u { type union { type enumeration { enum a { value %s; } } type int8; } } leaf l { type u; }"),
    ("deviate-type-fraction-digits", "leaf l { type string; } deviation /n:l { deviate replace { type decimal64 { fraction-digits %s; } } }"),
    ("deviate-type-enum-value", "leaf l { type string; } deviation /n:l { deviate replace { type enumeration { enum a { value %s; } } } }"),
    ("leaf-list-enum-value", "leaf-list l { type enumeration { enum a { value %s; } } }"),
    ("grouping-bit-position", "grouping g { leaf l { type bits { bit a { position %s; } } } } container c { uses g; }"),
    ("rpc-input-enum-value", "rpc r { input { leaf l { type enumeration { enum a { value %s; } } } } }"),
    ("min-elements", "list li { key k; leaf k { type string; } min-elements %s; }"),
    ("max-elements", "leaf-list ll { type string; max-elements %s; }"),
    ("deviate-min-elements", "leaf-list ll { type string; } deviation /n:ll { deviate add { min-elements %s; } }"),
    ("deviate-max-elements", "list li { key k; leaf k { type string; } } deviation /n:li { deviate replace { max-elements %s; } }"),
    ("range", "leaf l { type int32 { range %s; } }"),
    ("range-part", "leaf l { type int32 { range \"1..\" + %s; } }"),
    ("range-alternative", "leaf l { type uint8 { range \"1|\" + %s + \"|9\"; } }"),
    ("decimal-range", "leaf l { type decimal64 { fraction-digits 2; range %s; } }"),
    ("length", "leaf l { type string { length %s; } }"),
    ("length-part", "typedef t { type string { length \"0..10\"; } } leaf l { type t { length %s + \"..5\"; } }"),
    ("default-of-int", "leaf l { type int8; default %s; }"),
    ("default-of-decimal", "typedef t { type decimal64 { fraction-digits 1; } default %s; } leaf l { type t; }"),
    ("fraction-digits-and-min-max-range", "leaf l { type decimal64 { fraction-digits %s; range \"min..max\"; } }"),
    ("fraction-digits-and-range", "typedef t { type decimal64 { fraction-digits %s; range \"-1.5..max\"; } default 1; } leaf l { type t; }"),
    ("fraction-digits-leaf-list-default", "leaf-list l { type decimal64 { fraction-digits %s; range \"min..0|1..max\"; } default 0; }"),
    ("revision", "revision %s;"),
    ("revision-date", "import o { prefix o; revision-date %s; }"),
    ("yang-version", "yang-version %s;"),
]


def numeric_case(rnd, dist):
    name, tpl = rnd.choice(NUM_TEMPLATES)
    v = rnd.choice(HOSTILE_NUM)
    dist["numeric-position:" + name] += 1
    dist["numeric-string:" + ("blank-only" if v and not v.strip(" \t\r\n") else "empty" if not v else "sign-only" if v.strip() in "+-" and v.strip()
                              else "very-long" if len(v) > 30 else "non-ascii" if any(ord(ch) > 127 for ch in v) else "other")] += 1
    q = '"' + v.replace("\\", "\\\\").replace('"', '\\"') + '"'
    if rnd.random() < 0.15 and "'" not in v:
        q = "'" + v + "'"
    body = tpl.replace("%s", q)
    texts = [("n.yang", 'module n {\n  namespace "urn:n";\n  prefix n;\n  %s\n}\n' % body)]
    if name == "revision-date":
        texts.append(("o.yang", 'module o { namespace "urn:o"; prefix o; revision 2020-01-01; }\n'))
    return hist_line(options(rnd, dist), history(rnd, texts, dist), texts)


# ------------------------------------------------------------------ (i-e) modules that are only on the search path

def fs_case(rnd, dist):
    """a loaded module that refers to a module which is not in the set but lies on the search path (op D<i>),
    optionally behind an import / include that cannot be satisfied at all, with and without Process"""
    refs = rnd.sample(["typedef", "leaf-type", "uses", "identity", "identityref", "augment", "deviation", "leafref", "extension",
                       "union-member", "feature"], rnd.choice([1, 1, 2, 3]))
    for r in refs:
        dist["search-path:reference:" + r] += 1
    body = []
    for r in refs:
        body.append({
            "typedef": "typedef load { type t:percent; } leaf l1 { type load; }",
            "leaf-type": "leaf l2 { type t:percent { range 1..5; } }",
            "uses": "container c1 { uses t:g; }",
            "identity": "identity mine { base t:idbase; }",
            "identityref": "leaf l3 { type identityref { base t:idbase; } }",
            "augment": "augment /t:tc { leaf az { type string; } }",
            "deviation": "deviation /t:tc/t:tl { deviate add { default d; } }",
            "leafref": "leaf l4 { type leafref { path \"/t:tc/t:tl\"; } }",
            "extension": "t:ext \"arg\"; leaf l5 { type string { t:ext x; } }",
            "union-member": "typedef u { type union { type string; type t:percent; } } leaf l6 { type u; }",
            "feature": "leaf l7 { if-feature t:tf; type string; }",
        }[r])
    disk_kind = rnd.choice(["good", "good", "good", "good", "imports-loaded", "imports-absent", "syntax-error", "other-name",
                            "revisioned-file", "in-subdirectory", "has-submodule-on-disk"])
    dist["search-path:file:" + disk_kind] += 1
    tbody = ('typedef percent { type uint8 { range "0..100"; } } grouping g { leaf gl { type percent; } } identity idbase; feature tf; '
             'extension ext { argument a; } container tc { leaf tl { type string; } }')
    extra = {"imports-loaded": "import a { prefix a; } ", "imports-absent": "import nowhere { prefix n; } ",
             "has-submodule-on-disk": "include tsub; "}.get(disk_kind, "")
    ttext = 'module types {\n  namespace "urn:types";\n  prefix t;\n  %srevision 2020-01-01;\n  %s\n}\n' % (extra, tbody)
    if disk_kind == "syntax-error":
        ttext = ttext.rstrip()[:-1] + ' leaf "'
    if disk_kind == "other-name":
        ttext = ttext.replace("module types", "module something-else")
    tname = {"revisioned-file": "types@2020-01-01.yang", "in-subdirectory": "sub/dir/types.yang"}.get(disk_kind, "types.yang")
    before = rnd.choice(["none", "none", "absent-import", "absent-import", "absent-include", "absent-import-with-revision"])
    dist["search-path:before-it:" + before] += 1
    pre = {"none": "", "absent-import": "import absent { prefix x; } ", "absent-include": "include absent-sub; ",
           "absent-import-with-revision": "import absent { prefix x; revision-date 2020-01-01; } "}[before]
    imp = "import types { prefix t; %s} " % ("revision-date 2020-01-01; " if rnd.random() < 0.2 else "")
    after = "import absent2 { prefix y; } " if rnd.random() < 0.15 else ""
    atext = 'module a {\n  namespace "urn:a";\n  prefix a;\n  %s%s%s\n  %s\n}\n' % (pre, imp, after, "\n  ".join(body))
    texts = [("a.yang", atext), (tname, ttext)]
    if disk_kind == "has-submodule-on-disk":
        texts.append(("tsub.yang", "submodule tsub { belongs-to types { prefix t; } typedef st { type t:percent; } }\n"))
    unit = rnd.choice(["module", "module", "submodule"])
    if unit == "submodule":           # the referring unit is a submodule whose module is loaded as well
        texts[0] = ("a.yang", atext.replace("module a {", "submodule asub {").replace('namespace "urn:a";\n  prefix a;', "belongs-to a { prefix a; }"))
        texts.append(("amod.yang", 'module a { namespace "urn:a"; prefix a; %s}\n' % rnd.choice(["include asub; ", ""])))
    d = ["D%d" % i for i in range(1, len(texts)) if texts[i][0] != "amod.yang"]
    loads = ["L0"] + ["L%d" % i for i in range(len(texts)) if texts[i][0] == "amod.yang"]
    style = rnd.choice(["process", "process", "process", "process-twice", "reads-without-process", "parse-read-process",
                        "getmodule", "file-appears-later", "also-loaded"])
    dist["search-path:history:" + style] += 1
    ops = d + loads + {"process": ["P"], "process-twice": ["P", "P"], "reads-without-process": ["R"],
                       "parse-read-process": ["R", "P", "R"], "getmodule": ["G0"], "file-appears-later": [],
                       "also-loaded": ["L1", "P"]}[style]
    if style == "file-appears-later":
        ops = loads + ["P"] + d + ["P", "R"]
    opts = options(rnd, dist, "cnufqexr")
    if disk_kind == "in-subdirectory" and "r" not in opts and rnd.random() < 0.7:
        opts = (opts.replace("-", "") + "r")
    return hist_line(opts, ",".join(ops), texts)


# ------------------------------------------------------------------ (i-f) families of same-named identities in odd units

ID_UNIT_KINDS = ["module"] * 7 + ["submodule-of-loaded-module"] * 4 + ["submodule-of-absent-module"] * 6 + \
                ["submodule-of-loaded-module-unincluded", "submodule-of-itself", "submodule-of-a-submodule"]


def identity_case(rnd, dist):
    """One or two base modules z<i> with root identities; 2..5 deriving units of every kind a unit can have with respect
    to the module it belongs to (plain module; submodule of a loaded module, included or not; submodule whose belongs-to
    module is NOT loaded, included by a foreign loaded module / by another submodule / by two units / by nobody;
    submodule that belongs to itself or to a submodule), each defining 1..3 identities whose names come from a
    three-name pool (so 1..5 identities of ONE name in different units is the normal case, also the name of the base),
    derived from a common base directly, through a local identity, through an identity of another unit (k hops), from
    two bases at once, from itself or from nothing that exists.  Everything that sorts, merges, files or looks up
    identities by name then meets ties whose members have no loaded module."""
    nb = rnd.choice([1, 1, 1, 2])
    texts, roots = [], []
    for i in range(nb):
        zn = "z%d" % i
        ids = ["b"] + (["b2"] if rnd.random() < 0.3 else [])
        body = "".join("  identity %s;\n" % n for n in ids)
        if rnd.random() < 0.2:                     # the colliding name lives in the base's own module as well
            body += "  identity v { base b; }\n"
            dist["identity-family:base-module-defines-the-name-too"] += 1
        revs = rnd.choice([[], [], ["2020-01-01"], ["2021-06-15", "2020-01-01"]])
        body = "".join("  revision %s;\n" % r for r in revs) + body
        texts.append((zn + ".yang", 'module %s {\n  namespace "urn:%s";\n  prefix %s;\n%s}\n' % (zn, zn, zn, body)))
        if revs and rnd.random() < 0.25:           # a second revision of the base module is loaded too
            texts.append(("%s@2019-12-31.yang" % zn, 'module %s {\n  namespace "urn:%s";\n  prefix %s;\n  revision 2019-12-31;\n%s}\n'
                          % (zn, zn, zn, "".join("  identity %s;\n" % n for n in ids))))
            dist["identity-family:base-module-in-two-revisions"] += 1
        roots += [(zn, n) for n in ids]
    nu = rnd.choice([2, 2, 3, 3, 4, 5])
    units = []                                     # dict(name, kind, owner, prefix, includes, ids=[(name, [base refs])])
    holders = []                                   # extra modules that exist only to include a submodule
    for i in range(nu):
        kind = rnd.choice(ID_UNIT_KINDS)
        dist["identity-family:unit:" + kind] += 1
        if kind == "module":
            u = dict(name="m%d" % i, kind="module", owner=None, prefix="m%d" % i)
        else:
            u = dict(name="s%d" % i, kind="submodule", prefix="o%d" % i)
            if kind.startswith("submodule-of-loaded-module"):
                mods = [v for v in units if v["kind"] == "module"]
                if mods and rnd.random() < 0.6:
                    o = rnd.choice(mods)
                else:
                    o = dict(name="o%d" % i, kind="module", owner=None, prefix="o%d" % i, includes=[], ids=[], imports=set())
                    holders.append(o)
                u["owner"], u["prefix"] = o["name"], o["prefix"]
                if not kind.endswith("unincluded"):
                    o["includes"].append(u["name"])
            elif kind == "submodule-of-absent-module":
                u["owner"] = "y%d" % rnd.randrange(2)            # two such submodules may claim the same absent module
                u["prefix"] = u["owner"]
                inc = rnd.choice(["foreign-module"] * 5 + ["holder-module"] * 3 + ["another-submodule", "two-units", "nobody"])
                dist["identity-family:absent-owner-included-by:" + inc] += 1
                mods = [v for v in units if v["kind"] == "module"]
                subs = [v for v in units if v["kind"] == "submodule"]
                targets = []
                if inc in ("foreign-module", "two-units") and mods:
                    targets.append(rnd.choice(mods))
                if inc == "another-submodule" and subs:
                    targets.append(rnd.choice(subs))
                if inc in ("holder-module", "two-units") or (inc != "nobody" and not targets):
                    h = dict(name="x%d" % i, kind="module", owner=None, prefix="x%d" % i, includes=[], ids=[], imports=set())
                    holders.append(h)
                    targets.append(h)
                for t in targets:
                    t["includes"].append(u["name"])
            elif kind == "submodule-of-itself":
                u["owner"] = u["name"]
            else:
                subs = [v for v in units if v["kind"] == "submodule"]
                u["owner"] = rnd.choice(subs)["name"] if subs else "s9"
                if rnd.random() < 0.5 and units:
                    rnd.choice(units)["includes"].append(u["name"])
        u.setdefault("includes", [])
        u["ids"], u["imports"] = [], set(z for z, _ in roots)
        units.append(u)
    # identities: names from a tiny pool, so that ties on the name are the rule
    hops = 0
    for u in units:
        names = []
        for _ in range(rnd.choice([1, 1, 1, 2, 2, 3])):
            n = rnd.choice(["v", "v", "v", "v", "w", "b"])
            if n in names and rnd.random() < 0.9:
                continue
            names.append(n)
        for n in names:
            refs = []
            for _ in range(rnd.choice([1, 1, 1, 1, 2])):
                r = rnd.random()
                earlier = [(v, m) for v in units for m, _ in v["ids"] if v is not u and v["kind"] == "module"]
                local = [m for m, _ in u["ids"] if m != n]
                if r < 0.6 or (r < 0.8 and not local) or (0.8 <= r < 0.94 and not earlier):
                    z, b = rnd.choice(roots)
                    refs.append("%s:%s" % (z, b))
                    how = "root"
                elif r < 0.8:
                    refs.append(rnd.choice(["", u["prefix"] + ":"]) + rnd.choice(local))
                    how = "local-identity"
                    hops += 1
                elif r < 0.94:
                    v, m = rnd.choice(earlier)
                    u["imports"].add(v["name"])
                    refs.append("%s:%s" % (v["name"], m))
                    how = "identity-of-another-module"
                    hops += 1
                else:
                    refs.append(rnd.choice([n, u["prefix"] + ":" + n, "nope", "z0:nope", "nopfx:b", "y0:v", "y0:b"]))
                    how = "self-or-undefined"
                dist["identity-family:derived-from:" + how] += 1
            u["ids"].append((n, refs))
    dist["identity-family:extra-hops:%d" % min(hops, 4)] += 1
    count = collections.Counter(n for u in units for n, _ in u["ids"])
    dist["identity-family:identities-of-the-most-frequent-name:%d" % max(count.values())] += 1
    orphaned = [u for u in units if u["kind"] == "submodule" and u["owner"].startswith("y")]
    tied = sum(1 for u in orphaned for n, _ in u["ids"] if count[n] > 1)
    dist["identity-family:same-named-identities-in-submodules-of-absent-modules:%d" % min(tied, 3)] += 1
    leaf = None
    if rnd.random() < 0.4:
        z, b = rnd.choice(roots)
        leaf = "  leaf l { type identityref { base %s:%s; }%s }\n" % (z, b, rnd.choice(["", "", " default v;", " default %s:v;" % z]))
        dist["identity-family:identityref-leaf"] += 1
    for u in units + holders:
        imps = "".join("  import %s { prefix %s; }\n" % (m, m) for m in sorted(u["imports"]) if m != u["name"])
        incs = "".join("  include %s;\n" % s for s in u["includes"])
        ids = "".join("  identity %s {%s }\n" % (n, "".join(" base %s;" % r for r in refs)) for n, refs in u["ids"])
        if u["kind"] == "module":
            head = 'module %s {\n  namespace "urn:%s";\n  prefix %s;\n' % (u["name"], u["name"], u["prefix"])
            if leaf and rnd.random() < 0.5:
                ids, leaf = ids + leaf, None
        else:
            head = "submodule %s {\n  belongs-to %s { prefix %s; }\n" % (u["name"], u["owner"], u["prefix"])
        texts.append((u["name"] + ".yang", head + imps + incs + ids + "}\n"))
    return hist_line(options(rnd, dist), history(rnd, texts, dist), texts)


# ------------------------------------------------------------------ (i-c) small texts whose naive processing blows up

def module_text(name, body, imports=()):
    imp = "".join("  import %s { prefix %s; }\n" % (m, m) for m in imports)
    return "module %s {\n  namespace \"urn:%s\";\n  prefix %s;\n%s%s}\n" % (name, name, name, imp, body)


def blowup_cases(tier, seed):
    """[(label, line)]: every case is cheap for an implementation that memoises / marks what it has visited
    (measured on the clean tree: each well under BLOWUP_TIMEOUT / 20) and super-linear for one that does not"""
    rnd = random.Random("C01/blowup/%d" % seed)
    big = tier != "quick"
    out = []

    def add(label, texts, opts="fq", ops=None):
        ops = ops or ",".join("L%d" % i for i in range(len(texts))) + ",P"
        out.append(("blowup:" + label, hist_line(opts, ops, texts)))

    # identity lattices: stacked diamonds, every identity derived from all (or two) identities of the layer above
    for layers, width in [(10, 2), (18, 2), (30, 2), (40, 2), (60, 2), (12, 3), (25, 3), (40, 3)] + \
            ([(rnd.randint(10, 60), rnd.choice([2, 3])) for _ in range(12)] if big else []):
        b = "  identity top;\n"
        for l in range(layers):
            for w in range(width):
                above = ["top"] if l == 0 else ["i%d_%d" % (l - 1, x) for x in range(width)]
                if width == 3 and rnd.random() < 0.5:
                    above = rnd.sample(above, min(2, len(above)))
                b += "  identity i%d_%d { %s }\n" % (l, w, " ".join("base %s;" % a for a in above))
        b += "  leaf r { type identityref { base top; } }\n  leaf m { type identityref { base i%d_0; } }\n" % (layers // 2)
        add("identity-lattice:%dx%d" % (layers, width), [("il.yang", module_text("il", b))])
    # the same lattice split over two modules that import each other
    b0 = "  identity top;\n"
    b1 = ""
    for l in range(30):
        for w in range(2):
            above = ["il0:top"] if l == 0 else ["il%d:j%d_%d" % ((l - 1) % 2, l - 1, x) for x in range(2)]
            line = "  identity j%d_%d { %s }\n" % (l, w, " ".join("base %s;" % a for a in above))
            if l % 2 == 0:
                b0 += line
            else:
                b1 += line
    add("identity-lattice:two-modules", [("il0.yang", module_text("il0", b0, ["il1"])), ("il1.yang", module_text("il1", b1, ["il0"]))])
    # typedef chains and unions of unions
    for n in [50, 300, 1000] + ([3000] if big else []):
        b = "  typedef t0 { type string { length 0..4000; } }\n"
        for i in range(1, n):
            b += "  typedef t%d { type t%d { length 0..%d; pattern \"p%d\"; } }\n" % (i, i - 1, 4000 - i, i % 7)
        b += "  leaf l { type t%d; }\n  leaf m { type t%d; }\n" % (n - 1, n // 2)
        add("typedef-chain:%d" % n, [("tc.yang", module_text("tc", b))])
    for d in [4, 8, 12] + ([16, 20] if big else []):
        b = "  typedef u0 { type union { type string; type int8; } }\n"
        for i in range(1, d):
            b += "  typedef u%d { type union { type u%d; type u%d { pattern \"x\"; } type int%d; } }\n" % (i, i - 1, i - 1, [8, 16, 32, 64][i % 4])
        b += "  leaf l { type u%d; }\n" % (d - 1)
        add("union-of-unions:%d" % d, [("uu.yang", module_text("uu", b))])
    # grouping towers: level i uses level i-1 twice; expansion 2^depth leaves, capped at 2^12
    for d in [4, 8, 10, 12]:
        b = "  grouping g0 { leaf l { type string; } }\n"
        for i in range(1, d + 1):
            b += "  grouping g%d { container a { uses g%d; } container b { uses g%d; } }\n" % (i, i - 1, i - 1)
        b += "  container top { uses g%d; }\n" % d
        add("grouping-tower:%d" % d, [("gt.yang", module_text("gt", b))], opts="-" if d >= 10 else "fq")
    # long augment chains, written so that every pass of the retry loop can apply only one of them
    for n in [20, 100] + ([300] if big else []):
        b = "  container base;\n"
        for i in reversed(range(n)):
            path = "/ac:base" + "".join("/ac:n%d" % j for j in range(i))
            b += "  augment \"%s\" { container n%d; }\n" % (path, i)
        add("augment-chain:%d" % n, [("ac.yang", module_text("ac", b))], opts="-")
    # chains of augments spread over many modules
    n = 30
    texts = [("am0.yang", module_text("am0", "  container base;\n"))]
    for i in range(1, n):
        path = "/am0:base" + "".join("/am%d:n%d" % (j, j) for j in range(1, i))
        texts.append(("am%d.yang" % i, module_text("am%d" % i, "  augment \"%s\" { container n%d; }\n" % (path, i),
                                                   ["am%d" % j for j in range(i)])))
    texts.reverse()
    add("augment-chain:30-modules", texts, opts="-")
    # many submodules that all include each other
    for n in [10, 40] + ([120] if big else []):
        inc = "".join("  include s%d;\n" % i for i in range(n))
        texts = [("mi.yang", "module mi {\n  namespace \"urn:mi\";\n  prefix mi;\n%s  container c { uses g%d; leaf l { type t0; } }\n}\n" % (inc, n - 1))]
        for i in range(n):
            texts.append(("s%d.yang" % i, "submodule s%d {\n  belongs-to mi { prefix mi; }\n%s  typedef t%d { type %s; }\n  grouping g%d { leaf l%d { type t%d; } %s }\n}\n"
                          % (i, inc.replace("  include s%d;\n" % i, ""), i, "string" if i == n - 1 else "t%d" % (i + 1), i, i, (i * 7) % n,
                             "" if i == 0 else "uses g%d;" % (i - 1))))
        add("mutual-includes:%d" % n, texts, opts="cfq")
        add("mutual-includes:%d:no-c" % n, texts, opts="-")
    # a ring of modules importing each other, groupings chained round the ring
    for n in [10, 60]:
        texts = []
        for i in range(n):
            nxt = (i + 1) % n
            body = "  grouping g { leaf l%d { type string; } %s }\n  container c%d { uses im%d:g; }\n" % (i, "" if i == n - 1 else "uses im%d:g;" % nxt, i, nxt)
            texts.append(("im%d.yang" % i, module_text("im%d" % i, body, ["im%d" % nxt])))
        add("import-ring:%d" % n, texts)
    # deviations: many on one node; long paths of "x/.." pairs
    b = "  container c { leaf l { type string; } list li { key k; leaf k { type string; } } }\n"
    for i in range(200):
        b += "  deviation /dv:c/dv:li { deviate replace { min-elements %d; } }\n" % (i % 5)
    add("deviations:200-on-one-node", [("dv.yang", module_text("dv", b))])
    for n in [100, 2000]:
        b = "  container c { leaf l { type string; } }\n  deviation \"/dv:c%s/dv:l\" { deviate add { default d; } }\n" % ("/.." * 0 + "/dv:l/.." * n)
        b += "  augment \"/dv:c%s\" { leaf z { type string; } }\n" % ("/dv:l/.." * n)
        add("long-dotdot-path:%d" % n, [("dv.yang", module_text("dv", b))])
    # feature and leafref rings, wide choices
    b = "".join("  feature f%d { if-feature f%d; }\n" % (i, (i + 1) % 200) for i in range(200))
    b += "  container c {\n" + "".join("    leaf r%d { type leafref { path \"../r%d\"; } }\n" % (i, (i + 1) % 200) for i in range(200)) + "  }\n"
    add("feature-and-leafref-rings:200", [("fr.yang", module_text("fr", b))])
    b = "  choice ch {\n" + "".join("    leaf s%d { type string; }\n    case c%d { leaf t%d { type string; } }\n" % (i, i, i) for i in range(500)) + "  }\n"
    add("wide-choice:500", [("wc.yang", module_text("wc", b))])
    return out


BLOWUP_TIMEOUT = 20        # seconds per case alone; the clean tree needs well under 1/20 of it (see evidence)


def run_blowup(ctl, cases, outcomes, timing):
    """every case alone under BLOWUP_TIMEOUT; one that runs out of time is run again with three times the bound"""
    def one(c):
        gen, line = c
        if ctl.stopped():
            ctl.stats["not_run"] += 1
            return "not-run", "budget", 0.0
        fam = gen.split(":")[1]
        t0 = time.time()
        cls, o = run_single(line, ctl.cwd, timeout=BLOWUP_TIMEOUT)
        dt = time.time() - t0
        if cls == "timeout":
            o = "no answer within %ds [%s]" % (BLOWUP_TIMEOUT, fam)
            sig = signature(cls, o)
            if ctl.wants(sig, reserve=True):
                try:
                    with ctl.confirm_slots:
                        ctl.stats["confirm_runs"] += 1
                        cls, o = run_single(line, ctl.cwd, timeout=3 * BLOWUP_TIMEOUT)
                finally:
                    ctl.release(sig)
                if cls == "timeout":
                    o = "no answer within %ds and again within %ds [%s]" % (BLOWUP_TIMEOUT, 3 * BLOWUP_TIMEOUT, fam)
                    ctl.record(gen, line, cls, o, confirmed=True)
            else:
                ctl.record(gen, line, cls, o, confirmed=False)
        elif cls != "ok":
            for piece in o.split(" ALSO "):
                ctl.record(gen, line, cls, piece, confirmed=True)
        return cls, o, dt
    with ThreadPoolExecutor(max_workers=max(2, lib.NCPU // 2)) as ex:
        rs = list(ex.map(one, cases))
    for (gen, line), (cls, o, dt) in zip(cases, rs):
        timing[gen] = round(max(timing.get(gen, 0), dt), 3)
        outcomes[cls] += 1
        outcomes["blowup:" + cls] += 1


# ------------------------------------------------------------------ case streams

def gen_chunk(arg):
    """one deterministic slice of the case stream: (tier, seed, k) -> (cases [(generator, line)], distribution)"""
    tier, seed, k, nsets, nmut, nnoise, npaths = arg
    rnd = random.Random("C01/%d/%d" % (seed, k))
    tb = Table()
    dist = collections.Counter()
    groups, pool = seed_groups()
    byname = collections.defaultdict(list)
    for t in pool:
        byname[header_name(t)].append(t)
    big = tier != "quick"
    deep = 3000 if tier == "quick" else 20000
    cases = []
    made = []
    for _ in range(nsets):
        g = SetGen(rnd, tb, dist, big=big and rnd.random() < 0.2)
        texts = g.texts()
        made.append(texts)
        cases.append(("sets", hist_line(options(rnd, dist), history(rnd, texts, dist), texts)))
        if rnd.random() < 0.3:
            ops = ",".join(o for o in history(rnd, texts, dist, reads=False).split(",") if o[0] in "LP")
            cases.append(("sets/process", hist_line(options(rnd, dist, "cnufq"), ops, texts, cmd="process")))
        if rnd.random() < 0.35:
            mt = mutate_group(rnd, texts, tb, dist)
            cases.append(("sets+mutation", hist_line(options(rnd, dist), history(rnd, mt, dist), mt)))
    for _ in range(npaths):
        cases.append(("schema-paths", path_case(rnd, dist)))
    for _ in range(max(1, npaths // 2)):
        cases.append(("numeric-strings", numeric_case(rnd, dist)))
    for _ in range(max(1, npaths // 2)):
        cases.append(("search-path", fs_case(rnd, dist)))
    # drawn from a generator of its own, so that the streams above stay what they were for a given seed
    rid = random.Random("C01/identity-families/%d/%d" % (seed, k))
    for _ in range(max(1, npaths // 2)):
        cases.append(("identity-families", identity_case(rid, dist)))
    for _ in range(nmut):
        r = rnd.random()
        if r < 0.35 and groups:
            grp, src = rnd.choice(groups), "repo-testdata"
            if rnd.random() < 0.4:                      # several groups at once
                grp = grp + rnd.choice(groups)
        elif pool:
            grp, src = pool_group(rnd, pool, byname), "inline-test-modules"
        else:
            continue
        dist["mutation-seed:" + src] += 1
        mt = mutate_group(rnd, grp, tb, dist, nmut=0 if rnd.random() < 0.05 else None)
        cmd = "process" if rnd.random() < 0.2 else "hist"
        ops = history(rnd, mt, dist, reads=(cmd == "hist"))
        if cmd == "process":
            ops = ",".join(o for o in ops.split(",") if o[0] in "LP")
        cases.append(("mutation", hist_line(options(rnd, dist, "cnufq" if cmd == "process" else "cnufqex"), ops, mt, cmd=cmd)))
    seeds = [t for grp in groups for _, t in grp] + pool[:60] + [t for ts in made[:20] for _, t in ts]
    for _ in range(nnoise):
        t = noise_text(rnd, seeds, dist, deep)
        for cmd in rnd.sample(["parse", "ast", "stmt", "hist", "hist2"], rnd.choice([1, 2, 2, 3])):
            dist["noise-command:" + cmd.rstrip("2")] += 1
            if cmd == "hist":
                cases.append(("noise", hist_line(options(rnd, dist), "L0,P", [("n.yang", t)])))
            elif cmd == "hist2":                          # a bad text between good ones
                good = rnd.choice(made) if made else []
                texts = list(good) + [("n.yang", t)]
                cases.append(("noise", hist_line(options(rnd, dist), history(rnd, texts, dist), texts)))
            else:
                cases.append(("noise", "%s %s" % (cmd, hx(t))))
    return cases, dist


def plan(tier):
    if tier == "quick":
        return [(40, 140, 100, 100, 60)]        # (chunks, sets, mutations, noise texts, schema-path cases) per chunk
    return [(768, 140, 100, 100, 60)]


# ------------------------------------------------------------------ minimisation

def texts_of(line):
    c = decode_case(line)
    if "texts" in c:
        return [(n.decode("utf-8", "replace"), t.decode("utf-8", "replace")) for n, t in c["texts"]]
    return [("(text)", c["text"].decode("utf-8", "replace"))]


def minimise(line, sig, cwd, budget_s=120, max_runs=600):
    t0 = time.time()
    hang = sig.startswith("timeout") or "out of memory" in sig
    if hang:
        budget_s = min(budget_s, 75)      # every probe that still hangs costs its time limit
    runs = [0]

    def bad(l):
        if time.time() - t0 > budget_s or runs[0] >= max_runs or HARD_STOP.is_set():
            return False
        runs[0] += 1
        if hang:
            # a probe that gives no answer within 3 s or outgrows 768 MB counts as "still hangs"; the result
            # of the minimisation is checked with the real bounds below
            out, why, err = run_child([l], cwd, stall=3, total=3, as_bytes=768 << 20)
            return why is not None
        c, o = run_single(l, cwd, timeout=20)
        return c in BAD and sig in signatures(c, o)

    case = decode_case(line)

    def shrink_text(get, put):
        """greedy statement deletion (largest subtrees first), then hoisting of substatements"""
        raw = get()
        forest = parse_yang(raw.decode("utf-8", "surrogateescape"))
        if forest is None:
            data = raw
            n = 2
            while len(data) > 1 and n <= len(data) and time.time() - t0 < budget_s:
                step = max(1, len(data) // n)
                for i in range(0, len(data), step):
                    cand = data[:i] + data[i + step:]
                    put(cand)
                    if bad(encode_case(case)):
                        data = cand
                        n = max(2, n - 1)
                        break
                else:
                    if step == 1:
                        break
                    n *= 2
            put(data)
            return
        changed = True
        while changed and time.time() - t0 < budget_s:
            changed = False
            nodes = list(walk(forest))
            nodes.sort(key=lambda x: -len(render([x[2]])))
            for cont, _, nd in nodes:
                k = next((j for j, x in enumerate(cont) if x is nd), None)
                if k is None:
                    continue
                del cont[k]
                put(render(forest).encode("utf-8", "surrogateescape"))
                if bad(encode_case(case)):
                    changed = True
                    continue
                cont.insert(k, nd)
                if nd[2]:                      # replace a statement by its substatements
                    cont[k:k + 1] = nd[2]
                    put(render(forest).encode("utf-8", "surrogateescape"))
                    if bad(encode_case(case)):
                        changed = True
                        continue
                    cont[k:k + len(nd[2])] = [nd]
        put(render(forest).encode("utf-8", "surrogateescape"))

    if "texts" in case:
        # texts
        i = 0
        while i < len(case["texts"]) and len(case["texts"]) > 1:
            keep = dict(case)
            cand = dict(case, texts=case["texts"][:i] + case["texts"][i + 1:])
            ops = []
            for o in case["ops"]:
                if o[0] in "LG":
                    j = int(o[1:])
                    if j == i:
                        continue
                    o = o[0] + str(j - 1 if j > i else j)
                ops.append(o)
            cand["ops"] = ops
            if bad(encode_case(cand)):
                case = cand
            else:
                i += 1
        # ops, options
        i = 0
        while i < len(case["ops"]) and len(case["ops"]) > 1:
            cand = dict(case, ops=case["ops"][:i] + case["ops"][i + 1:])
            if bad(encode_case(cand)):
                case = cand
            else:
                i += 1
        for ch in list(case["opts"]):
            if ch != "-":
                cand = dict(case, opts=case["opts"].replace(ch, "") or "-")
                if bad(encode_case(cand)):
                    case = cand
        for i in range(len(case["texts"])):
            def get(i=i):
                return case["texts"][i][1]

            def put(b, i=i):
                case["texts"][i] = (case["texts"][i][0], b)
            shrink_text(get, put)
    else:
        def get():
            return case["text"]

        def put(b):
            case["text"] = b
        shrink_text(get, put)
    out = encode_case(case)
    c, o = run_single(out, cwd, timeout=STALL_S if hang else 20)      # ... the result is checked with the real bound
    if c in BAD and (sig in signatures(c, o) or (hang and c in ("timeout", "fatal"))):
        o = ([x for x in o.split(" ALSO ") if signature(c, x) == sig] + [o])[0]
        return out, c, o, runs[0]
    return line, None, None, runs[0]


# ------------------------------------------------------------------ the known runtime limit (D13)

def max_brace_depth(text):
    d = m = 0
    for ch in text:
        if ch == 0x7b:
            d += 1
            if d > m:
                m = d
        elif ch == 0x7d:
            d -= 1
    return m


def stack_depth_shape(line, obs):
    """the dying input nests braces a million deep or more and the child died of stack exhaustion"""
    if "stack overflow" not in obs and "stack exceeds" not in obs:
        return False
    c = decode_case(line)
    ts = [t for _, t in c["texts"]] if "texts" in c else [c["text"]]
    return any(len(t) >= 2000000 and max_brace_depth(t) >= 1000000 for t in ts)


# ------------------------------------------------------------------ entry points

def report(res, gen, line, cls, obs, cwd, min_budget, count, confirmed):
    sig = signature(cls, obs)
    lib.log("C01 failing case found (%s; %d case(s)), %s ..." % (sig, count, "minimising" if min_budget > 5 else "not minimised"))
    orig = line
    runs = 0
    if min_budget > 5:
        mline, c2, o2, runs = minimise(line, sig, cwd, budget_s=min_budget)
        if c2:
            line, cls, obs = mline, c2, o2
    texts = texts_of(line)
    c = decode_case(line)
    what = "%s on %s case (generator %s, %d failing case(s) with this signature%s): %s" % (
        cls.upper(), c["cmd"], gen, count, "" if confirmed else ", not confirmed in a run of its own", obs[:600])
    rep = dict(kind="crash", case=line, observation=obs[:4000], outcome=cls, signature=sig, generator=gen,
               minimised=bool(line != orig), minimiser_runs=runs, confirmed=confirmed, cases_with_this_signature=count,
               opts=c.get("opts"), ops=",".join(c["ops"]) if "ops" in c else None,
               texts=[[n, t[:20000]] for n, t in texts])
    if len(orig) < 200000 and orig != line:
        rep["original_case"] = orig
    res.violation(what, rep)
    lib.log("C01 %s\n  signature: %s" % (what[:400], sig))
    for n, t in texts[:4]:
        lib.log("  --- %s\n%s" % (n, "\n".join("  | " + x for x in t[:1500].splitlines())))


class Deadline(Exception):
    pass


def _alarm(signum, frame):
    raise Deadline()


def run(res, tier, seed, proof):
    t0 = time.time()
    cwd = tempfile.mkdtemp(prefix="c01-empty-")
    ctl = Control(tier, cwd)
    dist = collections.Counter()
    outcomes = collections.Counter()
    per_gen = collections.Counter()
    samples = []
    timing = {}
    evaluations = nontrivial = 0
    try:
        try:        # only possible in the main thread; the watchdog thread works everywhere
            signal.signal(signal.SIGALRM, _alarm)
            signal.alarm(int(ctl.budget) + 600)
        except Exception:
            pass

        def consume(cases):
            nonlocal evaluations, nontrivial
            obs = run_cases(ctl, cases)
            for (gen, line), (cls, o) in zip(cases, obs):
                outcomes[cls] += 1
                if cls == "not-run":
                    continue
                evaluations += 1
                per_gen[gen.split(":")[0]] += 1
                if cls == "known":
                    res.known("parser.stack-depth", "a text with a million or more nested braces: %s" % o[:160])
                elif cls == "ok":
                    if o.startswith("ok "):
                        if re.search(r"P\d", o) and "Lo" in o:
                            nontrivial += 1
                            outcomes["process-clean" if re.search(r"P0\b", o) else "process-with-errors"] += 1
                        elif "Le" in o:
                            outcomes["all-loads-rejected"] += 1
                    elif o.startswith("{"):
                        nontrivial += 1
                        outcomes["process-json"] += 1
                    elif o.startswith("err"):
                        outcomes["rejected-text"] += 1
                    if len(samples) < 4 and evaluations % 997 == 5:
                        samples.append(dict(generator=gen, case=line[:600], observation=o[:300]))

        corpus = load_corpus()
        dist["corpus-cases"] = len(corpus)
        consume(corpus)
        blow = blowup_cases(tier, seed)
        dist["blowup-cases"] = len(blow)
        run_blowup(ctl, blow, outcomes, timing)
        evaluations += len(blow) - outcomes["blowup:not-run"]
        per_gen["blowup"] += len(blow) - outcomes["blowup:not-run"]
        work = []
        k = 0
        for chunks, ns, nm, nn, npth in plan(tier):
            for _ in range(chunks):
                work.append((tier, seed, k, ns, nm, nn, npth))
                k += 1
        # chunks are generated by separate python processes (no fork of this threaded process, no pool to shut
        # down): "python3 c01.py gen <args> <out>" pickles (cases, distribution) into a file
        import pickle
        gendir = tempfile.mkdtemp(prefix="c01-gen-")

        def generate(arg):
            if ctl.stopped() or HARD_STOP.is_set():
                return None
            out = os.path.join(gendir, "chunk-%d.pickle" % arg[2])
            p = spawn([sys.executable, os.path.abspath(__file__), "gen"] + [str(x) for x in arg] + [out],
                      stdout=subprocess.DEVNULL, stderr=subprocess.PIPE, env=dict(os.environ, VERIF_REPO=lib.REPO))
            try:
                _, err = p.communicate(timeout=600)
            except subprocess.TimeoutExpired:
                p.kill()
                p.communicate()
                err = b"generator timed out"
            finally:
                reap(p)
            if p.returncode != 0 or not os.path.exists(out):
                if not ctl.stopped():
                    raise RuntimeError("case generator failed: " + err.decode("utf-8", "replace")[-800:])
                return None
            with open(out, "rb") as f:
                r = pickle.load(f)
            os.remove(out)
            return r

        batch = 64 if tier != "quick" else 20
        done_chunks = 0
        gen_ex = ThreadPoolExecutor(max_workers=max(2, lib.NCPU // 2))
        try:
            pending = None
            for b in list(range(0, len(work), batch)) + [None]:
                if ctl.stopped():
                    break
                nxt = [gen_ex.submit(generate, w) for w in work[b:b + batch]] if b is not None else None
                if pending is not None:
                    cs = []
                    for fu in pending:
                        r = fu.result(timeout=900)
                        if r is None:
                            continue
                        cs += r[0]
                        dist.update(r[1])
                        done_chunks += 1
                    consume(cs)
                pending = nxt
        finally:
            gen_ex.shutdown(wait=False, cancel_futures=True)
            shutil.rmtree(gendir, ignore_errors=True)
        dist["chunks-generated"] = done_chunks
        dist["chunks-planned"] = len(work)
        if tier != "quick" and not ctl.stopped():
            # D13: one input of the listed shape, alone, with 6 GB and the runtime's own stack limit
            n = 5000000
            line = "parse " + hx(b"a{" * n)
            cls, o = run_single(line, cwd, timeout=600, big=True)
            evaluations += 1
            outcomes["d13:" + cls] += 1
            if cls == "fatal" and stack_depth_shape(line, o):
                res.known("parser.stack-depth", "%d nested 'a{': %s" % (n, o[:160]))
            elif cls != "ok":
                res.violation("5*10^6 nested braces did not end in the listed stack exhaustion: %s %s" % (cls, o[:300]),
                              dict(kind="crash", case="parse <hex of 'a{' * %d>" % n, outcome=cls, observation=o[:2000]))
        # report: one violation per signature (confirmed ones first), the first three minimised within 240 s in all
        ctl.phase = "report"
        order = sorted(ctl.fail.items(), key=lambda kv: (not kv[1]["witnesses"],))
        tmin = time.time()
        for i, (sig, f) in enumerate(order):
            outcomes["distinct-failure-signatures"] += 1
            if i >= 5:
                continue
            if f["witnesses"]:
                gen, line, cls, o = min(f["witnesses"], key=lambda w: len(w[1]))
                left = 240 - (time.time() - tmin)
                report(res, gen, line, cls, o, cwd, min(120, left) if i < 3 else 0, f["count"], True)
            elif f.get("seen_alone_as") in ctl.fail and ctl.fail[f["seen_alone_as"]]["witnesses"]:
                continue               # the same cases, run alone, are reported under that signature
            else:
                res.violation("%d case(s) failed with signature %s but none was confirmed in a run of its own (budget)" % (f["count"], sig),
                              dict(kind="crash", signature=sig, confirmed=False), no_input=False)
    except Deadline:
        # last resort (signal.alarm): report what is known, without minimising
        ctl.stop_reason = (ctl.stop_reason or "") + " | alarm: the check was interrupted at its final deadline"
        HARD_STOP.set()
        kill_all()
        for sig, f in list(ctl.fail.items())[:5]:
            w = (f["witnesses"] or [None])[0]
            res.violation("%d case(s) failed with signature %s" % (f["count"], sig),
                          dict(kind="crash", signature=sig, case=w[1] if w else None, observation=w[3][:2000] if w else None))
    finally:
        try:
            signal.alarm(0)
        except Exception:
            pass
        ctl.finished.set()
        kill_all()
        shutil.rmtree(cwd, ignore_errors=True)
    stats = dict(ctl.stats)
    cut = ctl.stop_reason
    table_fields = sum(1 for k in dist if k.startswith("table-field:"))
    cov = dict(
        evaluations=evaluations, distinct_nontrivial=nontrivial,
        rule="every case runs in a child process of the Go harness (address space %.1f GB, Go stack limit %d MB, empty working "
             "directory); a child that answers no case for %d s is killed, the case it was on is run again alone with %d s, the "
             "rest of its chunk goes to a fresh child (at most %d restarts per chunk); outcome ok | panic | fatal | timeout | "
             "broken | not-run; non-trivial = at least one text was accepted and Process ran (hist), or a process dump was produced"
             % (CHILD_AS / 2.0 ** 30, STACK_MB, STALL_S, CONFIRM_STALL_S, MAX_RESTARTS),
        exhaustive=False, outcomes=dict(outcomes), cases_per_generator=dict(per_gen),
        budget=dict(seconds=ctl.budget, cut_short=cut is not None, reason=cut, cases_not_run=stats.get("not_run", 0),
                    note="the run was CUT SHORT: not every planned case was executed" if cut else "the whole plan was executed"),
        failing_signatures={s: dict(cases=f["count"], confirmed_witnesses=len(f["witnesses"]),
                                    **({"run_alone_it_shows_as": f["seen_alone_as"]} if f.get("seen_alone_as") else {}))
                            for s, f in ctl.fail.items()},
        runner=stats, table_fields_exercised=table_fields,
        blowup_seconds=dict(bound=BLOWUP_TIMEOUT, slowest_case=max(timing.values()) if timing else 0, per_case=timing),
        distribution={k: v for k, v in sorted(dist.items()) if not k.startswith("table-field:")},
        samples=samples, generation_and_run_s=round(time.time() - t0, 1))
    assumptions = [
        "testing, not proof: crash-freedom of the Go code is established only for the histories executed; the theorems "
        "of Properties/C01.v are about the Gallina models (lexer, parser, AST builder, number / range / enum functions)",
        "reads are done right after a Process (the documented order); ToEntry before the first Process is not exercised",
        "the harness children run in an empty directory with an empty module search path, except for the search-path family, "
        "whose files are written by the case itself (op D) into a directory of its own that is put on the path; the same family "
        "is the only one that reads trees (ToEntry) without a Process in between",
        "runtime limits (Go stack size, heap, scheduler, GC) are outside every model: nesting is kept to %s levels, grouping "
        "towers to 2^9 copies; the one listed input beyond that (D13) is run in the thorough tier only"
        % ("3000" if tier == "quick" else "20000"),
        "the AST lookups yang.ChildNode / yang.FindNode are part of every read (every node of every loaded module and "
        "submodule, names of the set, an unknown name, relative / absolute / prefixed paths; at most 800 calls per read, "
        "larger sets are sampled with every uses statement and every module kept); PrintNode and JSON marshalling of "
        "entries are not exercised",
        "identity resolution over incomplete module sets (generator identity-families: several identities of one name in "
        "modules, in submodules of loaded modules and in submodules whose belongs-to module is not loaded, meeting in one "
        "derived-identities list) is checked by the implementation-side oracle only - Process and the reads must return, "
        "with or without errors; no model is consulted here (the order and content of Identity.Values are C11's subject, "
        "Model/Identity.v)",
    ]
    return cov, assumptions


def replay(rep, res):
    cwd = tempfile.mkdtemp(prefix="c01-empty-")
    try:
        line = rep["case"]
        for n, t in texts_of(line):
            print("--- %s" % n)
            print(t[:6000])
        c = decode_case(line)
        if "ops" in c:
            print("command: %s  options: %s  operations: %s" % (c["cmd"], c["opts"], ",".join(c["ops"])))
        cls, o = run_single(line, cwd, timeout=CONFIRM_STALL_S)
        print("outcome:", cls)
        print("observation:", o[:3000])
        return 1 if cls in BAD else 0
    finally:
        shutil.rmtree(cwd, ignore_errors=True)


if __name__ == "__main__" and len(sys.argv) > 1 and sys.argv[1] == "gen":
    # python3 c01.py gen <tier> <seed> <k> <sets> <mutations> <noise> <paths> <out file>
    import pickle
    a = sys.argv[2:]
    r = gen_chunk((a[0], int(a[1]), int(a[2]), int(a[3]), int(a[4]), int(a[5]), int(a[6])))
    with open(a[7] + ".tmp", "wb") as f:
        pickle.dump(r, f, protocol=4)
    os.replace(a[7] + ".tmp", a[7])
