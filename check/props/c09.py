"""C09 — type names bind lexically and derived types inherit the whole chain.

Correspondence: random schemas (several modules and submodules, nested scopes that declare same-named typedefs,
every reference form, chains up to 6, random prefix renamings, every attribute at a random subset of the chain
links, groupings used locally and from importing modules, a rejected extra text, plus single-fault variants: unknown name, unknown prefix, name that exists but is not visible, cyclic
typedefs, fraction-digits faults, duplicate enum names) are rendered as YANG text for the implementation
(harness command `process`: Modules.Parse + Process + dump of every leaf's resolved YangType) and as the abstract
schema for the extracted model (command `c09`: Types.process).  Compared: whether there is any error, and --
when there is none -- per leaf the projected type (name, kind, units, default/hasdef, fraction-digits,
range/length text, pattern list, enum and bit members with their values, path, identityref base, union members
recursively) and DefaultValues().  A third, independent reading of the property text (the generator's own
binder) fixes the INTENT of every case (error / no error); the model has to agree with that as well.
Family "history": a schema is also run with one imported module arriving after a first, failing Process; the
second Process must give what the (stateless) model gives for the complete schema.
Family "pinned revision": several revisions of a library module loaded together, imports with / without
revision-date, all / many load orders; the implementation's leaf types are compared with expectations fixed by
construction (an oracle on the implementation alone), and with the revision-aware model."""
import json
import random
import tempfile

import lib

BUILTINS = ["int8", "int16", "int32", "int64", "uint8", "uint16", "uint32", "uint64", "binary", "bits", "boolean",
            "decimal64", "empty", "enumeration", "identityref", "instance-identifier", "leafref", "string", "union"]
INTS = BUILTINS[:8]
BUILTIN_RANGE = {"int8": "-128..127", "int16": "-32768..32767", "int32": "-2147483648..2147483647",
                 "int64": "-9223372036854775808..9223372036854775807", "uint8": "0..255", "uint16": "0..65535",
                 "uint32": "0..4294967295", "uint64": "0..18446744073709551615"}
NAMES = ["t0", "t1", "t2", "t3", "t4"]
SHADOW = ["string", "int8", "union"]
PREFIXES = ["p", "q", "r", "s"]
LONG = "long-" + "0123456789abcdef" * 40
# boundary values included: the empty string (an empty statement still overrides what is inherited), blanks, quotes
# and backslashes (need quoting), a very long string; small pools so that a link often repeats the inherited value
PATTERNS = ["a.*", "[0-9]+", "b+", "x|y", ".{3}", "c?d", "", "a b", 'q"x', "\\d+", "it's"]
MEMBERS = ["e0", "e1", "e2", "e3", "e4"]
ENUM_NAMES = MEMBERS + ["e 5", 'e"6', "e\\7", "it's"]
UNITS = ["u0", "u1", "u2", "", "", "u 3", 'u"4', "u\\5", LONG]
DEFAULTS = ["d0", "d1", "d2", "", "", "d 3", 'd"4', "d\\5", LONG]
PATHS = ["../x", "../y", "../z", "../w", "", "../a b", '../q"c']


# small enumerations (also used as bit sets) of equal size that differ only in one name -- at value 0, or at a later
# value -- or not at all: union member de-duplication (YangType.Equal on the name -> value maps of Enum and Bit) has
# to tell them apart exactly
ENUM_CLUSTER = [["up"], ["down"], ["on", "shared"], ["off", "shared"], ["shared", "on"], ["shared", "off"],
                ["a", "b"], ["a", "c"], ["x", "y", "z"], ["w", "y", "z"], ["x", "y", "w"], ["up"], ["on", "shared"]]


def yq(s):
    """a YANG double-quoted string"""
    return '"' + s.replace("\\", "\\\\").replace('"', '\\"') + '"'
MAXCHAIN = 6


def hx(s):
    return s.encode().hex() if s else "-"


def ohx(s):
    return "N" if s is None else hx(s)


# ------------------------------------------------------------------ abstract schema

class TRef:
    def __init__(self, name):
        self.name, self.fd, self.range, self.length = name, None, None, None
        self.pats, self.enums, self.bits, self.path, self.idbase, self.members = [], [], [], None, None, []
        self.exts = []      # extension substatements "pfx:ident [arg]" (text only: transparent for the resolved type)
        # steering info (not part of the input)
        self.kind, self.depth, self.target = None, 0, None

    def toks(self):
        t = [hx(self.name), "N" if self.fd is None else str(self.fd), ohx(self.range), ohx(self.length),
             str(len(self.pats))] + [hx(p) for p in self.pats] + [str(len(self.enums))] + \
            [hx(p) for p in self.enums] + [str(len(self.bits))] + [hx(p) for p in self.bits] + \
            [ohx(self.path), ohx(self.idbase), str(len(self.members))]
        for m in self.members:
            t += m.toks()
        return t

    def render(self, ind):
        subs = []
        if self.fd is not None:
            subs.append("fraction-digits %d;" % self.fd)
        if self.range is not None:
            subs.append('range "%s";' % self.range)
        if self.length is not None:
            subs.append('length "%s";' % self.length)
        for p in self.pats:
            subs.append("pattern %s;" % yq(p))
        for e in self.enums:
            subs.append("enum %s;" % yq(e))
        for e in self.bits:
            subs.append("bit %s;" % e)
        if self.path is not None:
            subs.append("path %s;" % yq(self.path))
        if self.idbase is not None:
            subs.append("base %s;" % self.idbase)
        for m in self.members:
            subs.append(m.render(ind + 1))
        for i, x in enumerate(self.exts):
            subs.insert(min(len(subs), 2 * i), x + ";")
        if not subs:
            return "type %s;" % self.name
        pad = "  " * (ind + 1)
        return "type %s {\n%s\n%s}" % (self.name, "\n".join(pad + s for s in subs), "  " * ind)

    def refs(self):
        yield self
        for m in self.members:
            yield from m.refs()


class Typedef:
    def __init__(self, name, scope):
        self.name, self.scope, self.type, self.units, self.default = name, scope, None, None, None
        self.done = False

    def toks(self):
        return [hx(self.name), ohx(self.units), ohx(self.default)] + self.type.toks()


class Leaf:
    def __init__(self, name):
        self.name, self.type, self.style = name, None, "leaf"


class Scope:
    def __init__(self, kind, name, mod, parent):
        self.kind, self.name, self.mod, self.parent = kind, name, mod, parent
        self.typedefs, self.kids, self.leaves = [], [], []

    def visible(self, name):
        r = None
        for td in self.typedefs:
            if td.name == name:
                r = td
        return r

    def ancestors(self):
        s = self
        while s is not None:
            yield s
            s = s.parent

    def all(self):
        yield self
        for k in self.kids:
            yield from k.all()

    def toks(self):
        t = [str(len(self.typedefs))]
        for td in self.typedefs:
            t += td.toks()
        t.append(str(len(self.kids)))
        for k in self.kids:
            t += k.toks()
        t.append(str(len(self.leaves)))
        for lf in self.leaves:
            t += [hx(lf.name)] + lf.type.toks()
        return t


class Module:
    def __init__(self, name, sub, prefix, belongs):
        self.name, self.sub, self.prefix, self.belongs = name, sub, prefix, belongs
        self.imports, self.includes = [], []
        self.import_rev = {}        # index in imports -> revision-date
        self.revisions = []         # revision statements; the greatest is the module's revision
        self.foreign_uses = []      # "pfx:grouping" of an imported module, instantiated at this module's top level
        self.top = Scope("top", name, self, None)

    @property
    def rev(self):
        return max(self.revisions) if self.revisions else ""

    def toks(self):
        t = [hx(self.name), "1" if self.sub else "0", hx(self.rev), hx(self.prefix), hx(self.belongs or ""),
             str(len(self.imports))]
        for i, (p, m) in enumerate(self.imports):
            t += [hx(p), hx(m), ohx(self.import_rev.get(i))]
        t += [str(len(self.includes))]
        for i in self.includes:
            t += [hx(i), "N"]
        return t + self.top.toks()


# ------------------------------------------------------------------ rendering

def render_typedef(td, ind):
    pad = "  " * ind
    out = [pad + "typedef %s {" % td.name, pad + "  " + td.type.render(ind + 1)]
    if td.units is not None:
        out.append(pad + "  units %s;" % yq(td.units))
    if td.default is not None:
        out.append(pad + "  default %s;" % yq(td.default))
    out.append(pad + "}")
    return out


def render_leaf(lf, ind):
    pad = "  " * ind
    t = lf.type.render(ind + 1)
    if lf.style == "leaf-list":
        return [pad + "leaf-list %s { %s }" % (lf.name, t)]
    if lf.style == "choice":
        return [pad + "choice %s_ch { case %s_ca { leaf %s { %s } } }" % (lf.name, lf.name, lf.name, t)]
    return [pad + "leaf %s { %s }" % (lf.name, t)]


def render_body(sc, ind):
    out = []
    for td in sc.typedefs:
        out += render_typedef(td, ind)
    for lf in sc.leaves:
        out += render_leaf(lf, ind)
    for k in sc.kids:
        out += render_scope(k, ind)
    return out


def render_scope(sc, ind):
    pad = "  " * ind
    k = sc.kind
    if k == "list":
        head = [pad + "list %s {" % sc.name, pad + '  key "%s_k";' % sc.name,
                pad + "  leaf %s_k { type string; }" % sc.name]
    elif k in ("input", "output"):
        head = [pad + "%s {" % k]
    else:
        head = [pad + "%s %s {" % (k, sc.name)]
    out = head + render_body(sc, ind + 1) + [pad + "}"]
    if k == "grouping" and not getattr(sc, "unused", False):
        out.append(pad + "uses %s;" % sc.name)
    return out


def render_module(m):
    out = []
    if m.sub:
        out.append("submodule %s {" % m.name)
        out.append("  yang-version 1.1;")
        out.append("  belongs-to %s { prefix %s; }" % (m.belongs, m.prefix))
    else:
        out.append("module %s {" % m.name)
        out.append("  yang-version 1.1;")
        out.append('  namespace "urn:%s";' % m.name)
        out.append("  prefix %s;" % m.prefix)
    for r in m.revisions:
        out.append("  revision %s;" % r)
    for i, (p, n) in enumerate(m.imports):
        if i in m.import_rev:
            out.append("  import %s { prefix %s; revision-date %s; }" % (n, p, m.import_rev[i]))
        else:
            out.append("  import %s { prefix %s; }" % (n, p))
    for n in m.includes:
        out.append("  include %s;" % n)
    out.append("  identity id_%s;" % m.name)
    out += render_body(m.top, 1)
    for u in m.foreign_uses:
        out.append("  uses %s;" % u)
    out.append("}")
    return "\n".join(out) + "\n"


# ------------------------------------------------------------------ the generator's own binder (property text)

class Schema:
    def __init__(self, mods):
        self.mods = mods

    def find_mod(self, sub, name):
        """the loaded (sub)module of that name: the latest revision"""
        best = None
        for m in self.mods:
            if m.sub == sub and m.name == name and (best is None or best.rev < m.rev):
                best = m
        return best

    def find_import(self, name, rev):
        """the module an import statement denotes: the pinned revision when it is loaded, else the latest"""
        if rev is not None:
            for m in self.mods:
                if not m.sub and m.name == name and m.rev == rev:
                    return m
        return self.find_mod(False, name)

    def whole(self, root):
        """root, the module it belongs to, and everything reachable through include statements"""
        mods = [root]
        if root.sub:
            o = self.find_mod(False, root.belongs)
            if o is not None:
                mods.append(o)
        done = []
        while mods:
            m = mods.pop(0)
            if m in done:
                continue
            done.append(m)
            for n in m.includes:
                i = self.find_mod(True, n)
                if i is not None and i not in done:
                    mods.append(i)
        return done

    def bind(self, scope, refname):
        """('builtin', kind) | ('td', Typedef) | None"""
        if refname in BUILTINS:
            return ("builtin", refname)
        if ":" in refname:
            pfx, name = refname.split(":", 1)
        else:
            pfx, name = "", refname
        mod = scope.mod
        if pfx == "" or pfx == mod.prefix:
            for s in scope.ancestors():
                td = s.visible(name)
                if td is not None:
                    return ("td", td)
            root = mod
        else:
            root = None
            for i, (p, n) in enumerate(mod.imports):
                if p == pfx:
                    root = self.find_import(n, mod.import_rev.get(i))
                    break
            if root is None:
                return None
        for m in self.whole(root):
            td = m.top.visible(name)
            if td is not None:
                return ("td", td)
        return None

    def toks(self):
        t = [str(len(self.mods))]
        for m in self.mods:
            t += m.toks()
        return t

    def scopes(self):
        for m in self.mods:
            yield from m.top.all()


# ------------------------------------------------------------------ generation

class Gen:
    def __init__(self, rnd, big=False):
        self.rnd, self.big, self.ctr = rnd, big, 0

    def fresh(self, p):
        self.ctr += 1
        return "%s%d" % (p, self.ctr)

    # ---- skeleton
    def skeleton(self):
        rnd = self.rnd
        nm = rnd.choice([1, 2, 2, 3, 3] if not self.big else [2, 3, 4])
        mods = []
        mains = []
        for i in range(nm):
            m = Module("m%d" % i, False, rnd.choice(PREFIXES), None)
            mains.append(m)
            mods.append(m)
            ns = rnd.choice([0, 0, 1, 2, 2, 3])
            subs = []
            for j in range(ns):
                s = Module("m%ds%d" % (i, j), True, rnd.choice(PREFIXES), m.name)
                subs.append(s)
                mods.append(s)
            # include structure: every submodule is reachable from the module
            for j, s in enumerate(subs):
                holders = [m] + subs[:j]
                h = rnd.choice(holders)
                h.includes.append(s.name)
                if h is not m and rnd.random() < 0.25:
                    m.includes.append(s.name)          # included directly and through another submodule
        for m in mods:
            for o in mains:
                if o.name != (m.belongs or m.name) and rnd.random() < 0.7:
                    pf = rnd.choice(PREFIXES)
                    if pf == m.prefix and rnd.random() < 0.8:
                        pf = rnd.choice(PREFIXES)
                    if m.sub and rnd.random() < 0.3:
                        # the prefix the owning module declares for ITSELF names an import here
                        own = [x.prefix for x in mains if x.name == m.belongs]
                        if own and own[0] != m.prefix and all(p_ != own[0] for p_, _ in m.imports):
                            pf = own[0]
                    m.imports.append((pf, o.name))
        rnd.shuffle(mods)                               # load order is arbitrary
        for m in mods:
            self.grow(m.top, 0)
        # a grouping is resolved where it is written, wherever it is used: use some top-level groupings of
        # imported modules from the importing (sub)module as well
        S = Schema(mods)
        used = set()
        for m in mods:
            seen = set()
            for pf, n in m.imports:
                if pf in seen or pf == m.prefix:
                    continue
                seen.add(pf)
                b = S.find_mod(False, n)
                gs = [k for k in b.top.kids if k.kind == "grouping"] if b is not None else []
                if gs and rnd.random() < 0.4:
                    g = rnd.choice(gs).name
                    fam = (m.belongs or m.name, g)      # once per module family: submodule trees are merged
                    if fam not in used:
                        used.add(fam)
                        m.foreign_uses.append(pf + ":" + g)
        return S

    def kid_kinds(self, sc):
        k = sc.kind
        if k == "top":
            return ["container", "list", "grouping", "rpc", "notification", "container", "grouping"]
        if k in ("container", "list", "grouping"):
            return ["container", "list", "grouping", "action", "notification", "container"]
        if k in ("rpc", "action"):
            return ["input", "output"]
        return ["container", "list", "grouping"]       # input, output, notification

    def grow(self, sc, depth):
        rnd = self.rnd
        names = NAMES + (SHADOW if rnd.random() < 0.15 else [])
        for _ in range(rnd.choice([0, 1, 1, 2, 2, 3])):
            n = rnd.choice(names)
            if sc.visible(n) is not None and rnd.random() < 0.9:
                continue
            sc.typedefs.append(Typedef(n, sc))
        if sc.kind not in ("rpc", "action"):
            for _ in range(rnd.choice([0, 1, 1, 2])):
                lf = Leaf(self.fresh("lf"))
                lf.style = rnd.choice(["leaf", "leaf", "leaf", "leaf-list", "choice"])
                sc.leaves.append(lf)
        if depth < (4 if not self.big else 5):
            kinds = self.kid_kinds(sc)
            if sc.kind in ("rpc", "action"):
                chosen = [k for k in ["input", "output"] if rnd.random() < 0.7]
            else:
                nk = rnd.choice([0, 1, 1, 2]) if depth > 0 else rnd.choice([1, 2, 3])
                chosen = [rnd.choice(kinds) for _ in range(nk)]
            for k in chosen:
                c = Scope(k, self.fresh(k[0]), sc.mod, sc)
                sc.kids.append(c)
                self.grow(c, depth + 1)

    # ---- references
    def forms(self, scope, name):
        fs = [name, scope.mod.prefix + ":" + name]
        for p, _ in scope.mod.imports:
            fs.append(p + ":" + name)
        return fs

    def candidates(self, S, scope, maxdepth):
        cs = []
        for name in NAMES + SHADOW:
            for f in self.forms(scope, name):
                b = S.bind(scope, f)
                if b and b[0] == "td" and b[1].done and b[1].type.depth < maxdepth:
                    cs.append((f, b[1]))
        return cs

    def builtin_ref(self, S, scope, nest):
        rnd = self.rnd
        k = rnd.choice(["string", "string", "int8", "int32", "uint16", "uint64", "int64", "decimal64", "enumeration",
                        "bits", "boolean", "binary", "leafref", "identityref", "union", "empty",
                        "instance-identifier", "int16", "uint8", "uint32"])
        if k == "union" and nest >= 2:
            k = "string"
        t = TRef(k)
        t.kind, t.depth, t.fdset = k, 0, False
        if k == "decimal64":
            t.fd = rnd.randint(1, 18)
            t.fdset = True
        elif k == "enumeration":
            t.enums = list(rnd.choice(ENUM_CLUSTER)) if rnd.random() < 0.5 else rnd.sample(ENUM_NAMES, rnd.randint(1, 4))
        elif k == "bits":
            t.bits = list(rnd.choice(ENUM_CLUSTER)) if rnd.random() < 0.3 else rnd.sample(MEMBERS, rnd.randint(1, 4))
        elif k == "leafref":
            t.path = rnd.choice(PATHS)
        elif k == "identityref":
            t.idbase = "id_" + scope.mod.name
        elif k == "union":
            for _ in range(rnd.randint(1, 3)):
                t.members.append(self.make_ref(S, scope, nest + 1))
            if rnd.random() < 0.4:
                # several enumeration / bits members of like shape, inline or through typedefs
                cs = [(f, td) for f, td in self.candidates(S, scope, MAXCHAIN) if td.type.kind in ("enumeration", "bits")]
                for _ in range(rnd.randint(2, 4)):
                    if cs and rnd.random() < 0.4:
                        f, td = rnd.choice(cs)
                        u = TRef(f)
                        u.target, u.kind, u.depth, u.fdset = td, td.type.kind, td.type.depth + 1, False
                    else:
                        u = TRef(rnd.choice(["enumeration", "enumeration", "bits"]))
                        u.kind, u.depth, u.fdset = u.name, 0, False
                        if u.name == "bits":
                            u.bits = list(rnd.choice(ENUM_CLUSTER))
                        else:
                            u.enums = list(rnd.choice(ENUM_CLUSTER))
                    t.members.append(u)
                rnd.shuffle(t.members)
        self.restrict(S, scope, t, nest, first=True)
        return t

    def restrict(self, S, scope, t, nest, first=False):
        """optional restrictions that fit the base kind; the texts are nested by chain depth"""
        rnd = self.rnd
        k, d = t.kind, t.depth
        if k in INTS and rnd.random() < 0.3:
            t.range = "%d..%d" % (d, 100 - d)
        if k in ("string", "binary") and rnd.random() < 0.3:
            t.length = "%d..%d" % (d, 100 - d)
        if k == "string" and rnd.random() < 0.45:
            t.pats = [rnd.choice(PATTERNS) for _ in range(rnd.choice([1, 1, 2, 3, 3]))]
        if not first:
            if k == "enumeration" and rnd.random() < 0.3:
                t.enums = rnd.sample(ENUM_NAMES, rnd.randint(1, 3))
            if k == "bits" and rnd.random() < 0.3:
                t.bits = rnd.sample(MEMBERS, rnd.randint(1, 3))
            if k == "leafref" and rnd.random() < 0.2:
                t.path = rnd.choice(PATHS)
            if k == "union" and nest < 2 and rnd.random() < 0.2:
                for _ in range(rnd.randint(1, 2)):
                    t.members.append(self.make_ref(S, scope, nest + 1))

    def add_exts(self, scope, t):
        """extension substatements of the type statement, with every prefix this text declares: its own (the
        belongs-to prefix in a submodule) and its imports'"""
        rnd = self.rnd
        if rnd.random() < 0.25:
            pfs = [scope.mod.prefix] * 2 + [p_ for p_, _ in scope.mod.imports]
            for _ in range(rnd.choice([1, 1, 2])):
                kw = rnd.choice(pfs) + ":" + rnd.choice(["note", "posix-pattern", "meta-1"])
                t.exts.append(kw + rnd.choice(["", ' "x"', ' "^a b$"']))
        return t

    def make_ref(self, S, scope, nest=0, maxdepth=MAXCHAIN):
        return self.add_exts(scope, self.make_ref0(S, scope, nest, maxdepth))

    def make_ref0(self, S, scope, nest=0, maxdepth=MAXCHAIN):
        rnd = self.rnd
        cs = self.candidates(S, scope, maxdepth) if rnd.random() < 0.75 else []
        if not cs:
            return self.builtin_ref(S, scope, nest)
        # spread over reference forms and chain depths
        forms = {}
        for f, td in cs:
            key = ("p" if ":" in f else "u", td.type.depth)
            forms.setdefault(key, []).append((f, td))
        f, td = rnd.choice(forms[rnd.choice(sorted(forms))])
        t = TRef(f)
        t.target = td
        t.kind, t.depth, t.fdset = td.type.kind, td.type.depth + 1, td.type.fdset
        self.restrict(S, scope, t, nest)
        return t

    def fill(self, S):
        rnd = self.rnd
        slots = [td for sc in S.scopes() for td in sc.typedefs]
        rnd.shuffle(slots)
        for td in slots:
            td.type = self.make_ref(S, td.scope)
            if rnd.random() < 0.3:
                td.units = rnd.choice(UNITS)
            if rnd.random() < 0.3:
                td.default = rnd.choice(DEFAULTS)
            td.done = td.scope.visible(td.name) is td      # an overwritten slot is nobody's target
        for sc in S.scopes():
            for lf in sc.leaves:
                lf.type = self.make_ref(S, sc, maxdepth=MAXCHAIN + 1)
                if lf.type.kind in INTS and rnd.random() < 0.5:
                    lf.type.range = self.rich_range(lf.type)

    def parent_bounds(self, t):
        """the set the range of t's parent denotes (chains carry the canonical a..b texts)"""
        x = t.target
        while x is not None:
            if x.type.range is not None:
                a, b = x.type.range.split("..")
                return int(a), int(b)
            x = x.type.target
        a, b = BUILTIN_RANGE[t.kind].split("..")
        return int(a), int(b)

    def rich_range(self, t):
        """a range statement within the parent's range in one of the forms parseChildRanges has to cope with
        (only on leaf type statements: nothing refers to them, so Equal on texts is not at stake)"""
        lo, hi = self.parent_bounds(t)
        return self.rnd.choice([
            "min..max",
            "min..%d | %d..max" % (lo + 5, hi - 5),
            "%d..%d|%d" % (lo + 1, lo + 3, lo + 7),
            " %d .. %d " % (lo + 2, hi - 2),
            "%d..%d|%d..%d" % (lo + 1, lo + 3, lo + 4, lo + 6),
            "%d..%d | %d..%d" % (hi - 1, hi, lo, lo + 1),
            "%d" % (lo + 9),
            "%d..%d" % (lo, hi),
            "min..%d|%d|%d..max" % (lo + 2, lo + 4, lo + 6),
        ])

    # ---- faults
    def sites(self, S):
        """(scope, holder, attribute/index) of every type statement"""
        out = []
        for sc in S.scopes():
            for td in sc.typedefs:
                if sc.visible(td.name) is td:
                    out.append((sc, td))
            for lf in sc.leaves:
                out.append((sc, lf))
        return out

    def depends(self, S, td, seen=None):
        """typedefs td's resolution runs through"""
        seen = seen if seen is not None else set()
        for r in td.type.refs():
            b = S.bind(td.scope, r.name)
            if b and b[0] == "td" and b[1] not in seen:
                seen.add(b[1])
                self.depends(S, b[1], seen)
        return seen

    def fault(self, S, kind):
        rnd = self.rnd
        sites = self.sites(S)
        if not sites:
            return False
        sc, holder = rnd.choice(sites)

        def put(t):
            # as the whole type or as a member of a new union
            if rnd.random() < 0.25:
                u = TRef("union")
                u.members = [TRef("string"), t]
                rnd.shuffle(u.members)
                holder.type = u
            else:
                holder.type = t
            return True
        if kind == "unknown-name":
            f = rnd.choice(["nosuch", sc.mod.prefix + ":nosuch"] + [p + ":nosuch" for p, _ in sc.mod.imports])
            return put(TRef(f))
        if kind == "unknown-prefix":
            return put(TRef("zz:" + rnd.choice(NAMES)))
        if kind == "parent-prefix":
            # in a submodule: a prefix that only the module it belongs to (or a sibling submodule) declares --
            # the parent's own prefix where the belongs-to prefix differs, or one of their imports
            cs = []
            for sc_, h in sites:
                m = sc_.mod
                if not m.sub:
                    continue
                mine = {m.prefix} | {p_ for p_, _ in m.imports}
                family = [x for x in S.mods if x is not m and (x.name == m.belongs and not x.sub or
                                                               x.sub and x.belongs == m.belongs)]
                for x in family:
                    declared = [p_ for p_, _ in x.imports] + ([x.prefix] if not x.sub else [])
                    for pf in declared:
                        if pf in mine:
                            continue
                        for n in NAMES + SHADOW:
                            b = S.bind(x.top, pf + ":" + n)
                            if b and b[0] == "td" and S.bind(sc_, pf + ":" + n) is None:
                                cs.append((sc_, h, pf + ":" + n))
            if not cs:
                return False
            sc, holder, f = rnd.choice(cs)
            return put(TRef(f))
        if kind == "invisible":
            # a name that is declared somewhere in the schema but that this form does not reach from here
            declared = sorted({td.name for s in S.scopes() for td in s.typedefs if td.name not in BUILTINS})
            cs = [f for n in declared for f in self.forms(sc, n) if S.bind(sc, f) is None]
            if not cs:
                return False
            return put(TRef(rnd.choice(cs)))
        if kind == "cycle":
            tds = [h for s, h in sites if isinstance(h, Typedef)]
            rnd.shuffle(tds)
            for td in tds:
                cs = []
                for n in NAMES + SHADOW:
                    for f in self.forms(td.scope, n):
                        b = S.bind(td.scope, f)
                        if b and b[0] == "td" and (b[1] is td or td in self.depends(S, b[1])):
                            cs.append(f)
                if cs:
                    holder = td
                    return put(TRef(rnd.choice(cs)))
            return False
        if kind == "fd-override":
            cs = [(s, h) for s, h in sites if h.type.kind == "decimal64" and h.type.target is not None]
            if not cs:
                return False
            sc, holder = rnd.choice(cs)
            holder.type.fd = rnd.randint(1, 18)
            return True
        if kind == "fd-missing":
            t = TRef("decimal64")
            return put(t)
        if kind == "fd-range":
            t = TRef("decimal64")
            t.fd = rnd.choice([0, 19, 20, 255, 256])
            return put(t)
        if kind == "fd-other":
            t = TRef(rnd.choice(["string", "int32", "boolean"]))
            t.fd = 2
            return put(t)
        if kind == "dup-enum":
            t = TRef(rnd.choice(["enumeration", "bits"]))
            ms = ["e0", "e1", "e0"]
            if t.name == "bits":
                t.bits = ms
            else:
                t.enums = ms
            return put(t)
        if kind == "idref-nobase":
            return put(TRef("identityref"))
        if kind in ("range-widen", "range-bad"):
            cs = [(s_, h) for s_, h in sites if h.type.kind in INTS and not h.type.members]
            if not cs:
                return False
            sc, holder = rnd.choice(cs)
            lo, hi = self.parent_bounds(holder.type)
            if kind == "range-widen":
                holder.type.range = rnd.choice(["%d..%d" % (lo - 1, hi), "%d..%d" % (lo, hi + 1),
                                                "%d..%d | %d" % (lo, lo + 3, hi + 2), "%d" % (lo - 3)])
            else:
                holder.type.range = rnd.choice(["%d..%d" % (lo + 5, lo + 1), "%d..%d..%d" % (lo, lo + 1, lo + 2),
                                                "%d.." % lo, "%d | | %d" % (lo, lo + 2)])
            return True
        raise ValueError(kind)

    def case(self, fault=None):
        S = self.skeleton()
        self.fill(S)
        if fault and not self.fault(S, fault):
            fault = None
        return S, fault


FAULTS = ["unknown-name", "unknown-prefix", "invisible", "cycle", "fd-override", "fd-missing", "fd-range",
          "fd-other", "dup-enum", "idref-nobase", "range-widen", "range-bad", "parent-prefix"]

BAD_TEXT = ("bad.yang", "module bad { prefix b; typedef t0 { type nosuch; } leaf x { type t0; } }\n")


def late_module(S, rnd):
    """index of a module that others import (preferably one a typedef is based on through a prefix), or None"""
    imported = {n for m in S.mods for _, n in m.imports}
    best, other = [], []
    for i, m in enumerate(S.mods):
        if m.sub or m.name not in imported:
            continue
        other.append(i)
        for sc in S.scopes():
            if sc.mod is m or sc.mod.belongs == m.name:
                continue
            for td in sc.typedefs:
                for r in td.type.refs():
                    if ":" in r.name and r.target is not None and \
                            (r.target.scope.mod is m or r.target.scope.mod.belongs == m.name):
                        best.append(i)
    if best:
        return rnd.choice(best)
    return rnd.choice(other) if other else None


def lines_of(S, extra_bad=False, late=None):
    texts = [(m.name + ("@" + m.rev if m.rev else "") + ".yang", render_module(m)) for m in S.mods]
    if extra_bad:
        texts.insert(len(texts) // 2, BAD_TEXT)
    if late is not None:
        # history on one Modules value: everything but one imported module, Process (fails), that module, Process
        ops = ",".join("L%d" % i for i in range(len(texts)) if i != late) + ",P,L%d,P" % late
    else:
        ops = ",".join("L%d" % i for i in range(len(texts))) + ",P"
    go = "process - %s %d %s" % (ops, len(texts), " ".join("%s %s" % (hx(n), hx(t)) for n, t in texts))
    ml = "c09 " + " ".join(S.toks())
    return go, ml, texts


# ------------------------------------------------------------------ hand-written corpus

def corpus():
    """(name, intent: True = error expected, Schema)"""
    out = []

    def mod(name, prefix="p", sub=False, belongs=None):
        return Module(name, sub, prefix, belongs)

    def td(sc, name, t, units=None, default=None):
        d = Typedef(name, sc)
        d.type, d.units, d.default = t, units, default
        sc.typedefs.append(d)
        return d

    def lf(sc, name, t):
        x = Leaf(name)
        x.type = t
        sc.leaves.append(x)

    def ref(name, **kw):
        t = TRef(name)
        for k, v in kw.items():
            setattr(t, k, v)
        return t

    def kid(sc, kind, name):
        c = Scope(kind, name, sc.mod, sc)
        sc.kids.append(c)
        return c

    # the witness of the pattern / union-member slice aliasing defect (fixed in /repo): two types derived from
    # one typedef with three patterns (len 3, cap 4) must keep their own fourth pattern
    m = mod("m0")
    td(m.top, "s1", ref("string", pats=["a", "b", "c"]))
    td(m.top, "s2", ref("s1", pats=["d"]))
    td(m.top, "s3", ref("s1", pats=["e"]))
    lf(m.top, "l2", ref("s2"))
    lf(m.top, "l3", ref("s3"))
    lf(m.top, "l4", ref("s1", pats=["f"]))
    lf(m.top, "l5", ref("s1", pats=["g"]))
    td(m.top, "u1", ref("union", members=[ref("string"), ref("int8"), ref("int16")]))
    lf(m.top, "l6", ref("u1", members=[ref("boolean")]))
    lf(m.top, "l7", ref("u1", members=[ref("empty")]))
    out.append(("alias-witness", False, Schema([m])))

    # a typedef named like a built-in type: the bare name is the built-in, the prefixed name the typedef
    m = mod("m0")
    td(m.top, "string", ref("int8"))
    lf(m.top, "l1", ref("string"))
    lf(m.top, "l2", ref("p:string"))
    out.append(("shadow-builtin", False, Schema([m])))

    # same name at four nested scopes, every scope kind once
    m = mod("m0")
    td(m.top, "t0", ref("int8"), units="top")
    c = kid(m.top, "container", "c1")
    td(c, "t0", ref("int16"), units="c1")
    lf(c, "la", ref("t0"))
    li = kid(c, "list", "li1")
    td(li, "t0", ref("int32"), units="li1")
    lf(li, "lb", ref("p:t0"))
    g = kid(li, "grouping", "g1")
    td(g, "t0", ref("int64"), units="g1")
    lf(g, "lc", ref("t0"))
    c2 = kid(g, "container", "c2")
    lf(c2, "ld", ref("t0"))
    r = kid(m.top, "rpc", "r1")
    td(r, "t0", ref("uint8"), units="r1")
    i = kid(r, "input", "in1")
    lf(i, "le", ref("t0"))
    o = kid(r, "output", "out1")
    td(o, "t0", ref("uint16"), units="out1")
    lf(o, "lf_", ref("t0"))
    n = kid(m.top, "notification", "n1")
    td(n, "t0", ref("uint32"), units="n1")
    lf(n, "lg", ref("t0"))
    lf(m.top, "lh", ref("t0"))
    a = kid(c, "action", "a1")
    td(a, "t0", ref("uint64"), units="a1")
    ai = kid(a, "input", "ain")
    lf(ai, "li_", ref("t0"))
    out.append(("nested-scopes", False, Schema([m])))

    # submodules: nested include, owner's typedef from a submodule, imported module's submodule
    m0 = mod("m0", "p")
    m0.includes = ["m0s0"]
    s0 = mod("m0s0", "pp", True, "m0")
    s0.includes = ["m0s1"]
    s1 = mod("m0s1", "ppp", True, "m0")
    td(m0.top, "a", ref("int8"))
    td(s0.top, "b", ref("int16"))
    td(s1.top, "c", ref("int32"))
    lf(m0.top, "l1", ref("c"))          # nested include
    lf(m0.top, "l2", ref("p:b"))
    lf(s1.top, "l3", ref("a"))          # owner's typedef from a submodule that includes nothing
    lf(s1.top, "l4", ref("ppp:b"))      # sibling submodule
    lf(s0.top, "l5", ref("pp:c"))
    m1 = mod("m1", "p")
    m1.imports = [("x", "m0")]
    lf(m1.top, "l6", ref("x:c"))        # imported module's nested submodule
    lf(m1.top, "l7", ref("x:a"))
    td(m1.top, "a", ref("string"))
    lf(m1.top, "l8", ref("a"))          # own a, not m0's
    lf(m1.top, "l9", ref("p:a"))        # p is m1's own prefix here, although m0 calls itself p
    out.append(("submodules", False, Schema([s1, m1, m0, s0])))

    # a foreign prefix never reaches a nested or a same-named foreign typedef elsewhere
    m0 = mod("m0", "p")
    c = kid(m0.top, "container", "c1")
    td(c, "inner", ref("int8"))
    m1 = mod("m1", "q")
    m1.imports = [("x", "m0")]
    lf(m1.top, "l1", ref("x:inner"))
    out.append(("foreign-nested-invisible", True, Schema([m0, m1])))
    m0 = mod("m0", "p")
    m2 = mod("m2", "r")
    td(m2.top, "t0", ref("int8"))
    m1 = mod("m1", "q")
    m1.imports = [("x", "m0"), ("y", "m2")]
    lf(m1.top, "l1", ref("x:t0"))       # t0 exists in m2 only
    out.append(("foreign-other-module", True, Schema([m0, m1, m2])))
    m0 = mod("m0", "p")
    c = kid(m0.top, "container", "c1")
    td(c, "t0", ref("int8"))
    c2 = kid(m0.top, "container", "c2")
    lf(c2, "l1", ref("t0"))             # sibling scope
    out.append(("sibling-invisible", True, Schema([m0])))
    for cyc in (["t0"], ["t0", "t1"], ["t0", "t1", "t2"]):
        m0 = mod("m0", "p")
        for i, n in enumerate(cyc):
            td(m0.top, n, ref(cyc[(i + 1) % len(cyc)]))
        lf(m0.top, "l1", ref("string"))
        out.append(("cycle%d" % len(cyc), True, Schema([m0])))
    m0 = mod("m0", "p")
    td(m0.top, "t0", ref("union", members=[ref("string"), ref("p:t0")]))
    out.append(("cycle-through-union", True, Schema([m0])))
    # a cycle that is not reached from the start: t2 -> t0 <-> t1
    m0 = mod("m0", "p")
    td(m0.top, "t0", ref("t1"))
    td(m0.top, "t1", ref("t0"))
    c = kid(m0.top, "container", "c1")
    td(c, "t2", ref("t0"))
    out.append(("cycle-tail", True, Schema([m0])))
    # an inner typedef based on the outer one of the same name is not a cycle
    m0 = mod("m0", "p")
    td(m0.top, "t0", ref("int8"), units="outer")
    c = kid(m0.top, "container", "c1")
    td(c, "t1", ref("t0"), default="5")
    lf(c, "l1", ref("t1"))
    c2 = kid(c, "container", "c2")
    td(c2, "t0", ref("p:t1"))
    lf(c2, "l2", ref("t0"))
    out.append(("same-name-no-cycle", False, Schema([m0])))
    # chain of six, attributes at alternating links
    m0 = mod("m0", "p")
    td(m0.top, "a1", ref("string", length="1..99", pats=["a.*"]), units="u1")
    td(m0.top, "a2", ref("a1", pats=["b+", "a.*"]), default="d2")
    td(m0.top, "a3", ref("p:a2", length="3..97"), units="u3")
    td(m0.top, "a4", ref("a3", pats=["b+", "x|y"]))
    td(m0.top, "a5", ref("a4"), default="d5")
    td(m0.top, "a6", ref("a5", pats=["a.*", "c?d"]))
    lf(m0.top, "l1", ref("a6", length="7..93"))
    td(m0.top, "d1", ref("decimal64", fd=3))
    td(m0.top, "d2", ref("d1"))
    lf(m0.top, "l2", ref("d2"))
    td(m0.top, "e1", ref("enumeration", enums=["e0", "e1", "e2"]))
    td(m0.top, "e2", ref("e1", enums=["e1"]))
    lf(m0.top, "l3", ref("e2"))
    lf(m0.top, "l4", ref("e1"))
    td(m0.top, "b1", ref("bits", bits=["e0", "e1", "e2"]))
    lf(m0.top, "l5", ref("b1", bits=["e2"]))
    td(m0.top, "r1", ref("leafref", path="../x"))
    lf(m0.top, "l6", ref("r1"))
    lf(m0.top, "l7", ref("r1", path="../y"))
    td(m0.top, "i1", ref("identityref", idbase="id_m0"))
    lf(m0.top, "l8", ref("i1"))
    lf(m0.top, "l9", ref("union", members=[ref("a1"), ref("a1"), ref("string"), ref("b1"), ref("bits", bits=["zz"]),
                                          ref("e1"), ref("e2"), ref("int8"), ref("int8", range="1..9")]))
    out.append(("chain6", False, Schema([m0])))
    # an EMPTY units / default / pattern / path statement is a statement: it overrides what is inherited
    m0 = mod("m0", "p")
    td(m0.top, "a", ref("int8"), units="seconds", default="5")
    td(m0.top, "b", ref("a"), units="", default="")
    td(m0.top, "c", ref("b"))
    td(m0.top, "d", ref("c"), units="seconds")
    lf(m0.top, "l1", ref("b"))
    lf(m0.top, "l2", ref("c"))
    lf(m0.top, "l3", ref("a"))
    lf(m0.top, "l4", ref("d"))
    td(m0.top, "s", ref("string", pats=["", "x y", 'q"r', "back\\slash"]))
    lf(m0.top, "l5", ref("s", pats=["", "z"]))
    td(m0.top, "r", ref("leafref", path="../x"))
    lf(m0.top, "l6", ref("r", path=""))
    td(m0.top, "e", ref("enumeration", enums=["e 5", 'e"6', "plain"]))
    lf(m0.top, "l7", ref("e"))
    td(m0.top, "lng", ref("string"), units=LONG, default=LONG)
    lf(m0.top, "l8", ref("lng"))
    out.append(("empty-overrides", False, Schema([m0])))
    # union members that are enumerations of equal size differing in one name (at value 0 / at a later value),
    # inline, through typedef chains and from an imported module; true duplicates are dropped, nothing else
    m0 = mod("m0", "p")
    td(m0.top, "up", ref("enumeration", enums=["up"]))
    td(m0.top, "down", ref("enumeration", enums=["down"]))
    td(m0.top, "down2", ref("down"), units="u")
    td(m0.top, "ud", ref("union", members=[ref("up"), ref("down")]))
    td(m0.top, "ud2", ref("ud"))
    lf(m0.top, "chained", ref("ud2"))
    lf(m0.top, "direct", ref("union", members=[ref("enumeration", enums=["on", "shared"]),
                                               ref("enumeration", enums=["off", "shared"]), ref("up"),
                                               ref("enumeration", enums=["on", "shared"]),
                                               ref("enumeration", enums=["shared", "on"]), ref("p:down"),
                                               ref("enumeration", enums=["up"])]))
    lf(m0.top, "later", ref("union", members=[ref("enumeration", enums=["a", "b"]), ref("enumeration", enums=["a", "c"]),
                                              ref("enumeration", enums=["x", "y", "z"]),
                                              ref("enumeration", enums=["w", "y", "z"])]))
    lf(m0.top, "added", ref("ud2", members=[ref("down2"), ref("enumeration", enums=["left"]), ref("down")]))
    lf(m0.top, "bits", ref("union", members=[ref("bits", bits=["up"]), ref("bits", bits=["down"])]))
    m1 = mod("m1", "q")
    m1.imports = [("x", "m0")]
    td(m1.top, "up", ref("enumeration", enums=["other"]))
    lf(m1.top, "imported", ref("union", members=[ref("x:up"), ref("up"), ref("x:down"), ref("x:ud")]))
    out.append(("union-of-small-enums", False, Schema([m0, m1])))
    # prefixes are per text: a submodule knows its belongs-to prefix and its OWN imports, nothing else
    def family():
        main = mod("main", "m")
        main.includes = ["sub", "sib"]
        main.imports = [("o", "other")]
        td(main.top, "size", ref("int8"), units="main")
        sub = mod("sub", "self", True, "main")
        sub.imports = [("m", "other")]          # the module's own prefix names an import here
        sib = mod("sib", "self", True, "main")
        sib.imports = [("k", "third")]
        other = mod("other", "x")
        td(other.top, "size", ref("uint32"), units="other")
        third = mod("third", "t")
        td(third.top, "size", ref("boolean"), units="third")
        return main, sub, sib, other, third
    main, sub, sib, other, third = family()
    g = kid(sub.top, "grouping", "g1")
    lf(g, "l1", ref("m:size"))                  # other's, not main's
    lf(g, "l2", ref("self:size"))               # main's
    lf(g, "l3", ref("size"))
    td(g, "gt", ref("m:size"), default="1")
    lf(g, "l4", ref("gt"))
    lf(sub.top, "l5", ref("union", members=[ref("m:size"), ref("self:size")]))
    out.append(("submodule-prefix-table", False, Schema([sub, main, other, sib, third])))
    for nm, bad in (("parent-import", "o:size"), ("sibling-import", "k:size")):
        main, sub, sib, other, third = family()
        lf(sub.top, "l1", ref(bad))             # declared by the parent / a sibling only: unknown prefix
        out.append(("submodule-" + nm + "-prefix", True, Schema([sub, main, other, sib, third])))
    main, sub, sib, other, third = family()
    sub.imports = []
    td(sub.top, "u", ref("m:size"))             # the parent's own prefix, the belongs-to prefix differs
    out.append(("submodule-parent-own-prefix", True, Schema([sub, main, other, sib, third])))
    # own-prefixed names are looked up in the enclosing scopes like unprefixed ones; top-level decoys
    m0 = mod("m0", "d")
    td(m0.top, "percent", ref("string"), units="decoy")
    g = kid(m0.top, "grouping", "g1")
    td(g, "percent", ref("uint8", range="0..100"), units="g1")
    lf(g, "l1", ref("d:percent"))
    g2 = kid(g, "grouping", "g2")
    td(g2, "inner", ref("d:percent"), default="7")
    lf(g2, "l2", ref("d:inner"))
    c = kid(g2, "container", "c1")
    td(c, "percent", ref("int16"), units="c1")
    lf(c, "l3", ref("d:percent"))
    lf(c, "l4", ref("union", members=[ref("d:inner"), ref("d:percent")]))
    r = kid(m0.top, "rpc", "r1")
    i = kid(r, "input", "in1")
    td(i, "only", ref("int64"))
    lf(i, "l5", ref("d:only"))                  # no top-level typedef of that name at all
    s0 = mod("s0", "me", True, "m0")
    m0.includes = ["s0"]
    n = kid(s0.top, "notification", "n1")
    td(n, "percent", ref("uint64"), units="n1")
    lf(n, "l6", ref("me:percent"))              # belongs-to prefix in a submodule
    lf(s0.top, "l7", ref("me:percent"))         # top level of the whole module: m0's
    out.append(("own-prefix-scoped", False, Schema([m0, s0])))
    # extension substatements of type statements: own prefix, belongs-to prefix in a submodule, imported prefix
    m0 = mod("m0", "p")
    m0.includes = ["s0"]
    m0.imports = [("oc-ext", "ext")]
    td(m0.top, "base", ref("string", pats=["a"], exts=['p:note "x"', 'oc-ext:posix-pattern "^a$"']), units="u")
    lf(m0.top, "l1", ref("base", exts=["p:note"]))
    s0 = mod("s0", "sp", True, "m0")
    s0.imports = [("e", "ext")]
    td(s0.top, "sub", ref("sp:base", exts=['sp:note "x"']), default="d")
    lf(s0.top, "l2", ref("sub", exts=['e:posix-pattern "^b$"', "sp:meta"]))
    lf(s0.top, "l3", ref("union", members=[ref("sp:sub", exts=["sp:note"]), ref("int8", exts=['sp:note "y"'])]))
    ext = mod("ext", "x")
    out.append(("type-extensions", False, Schema([m0, s0, ext])))
    # a later typedef of the same name in the same scope replaces the earlier one in the dictionary
    m0 = mod("m0", "p")
    td(m0.top, "t0", ref("nosuch"))
    td(m0.top, "t0", ref("int8"))
    lf(m0.top, "l1", ref("t0"))
    out.append(("duplicate-in-scope", False, Schema([m0])))
    return out


# ------------------------------------------------------------------ family "pinned revision"
# Several revisions of one library module are loaded together; import statements pin a revision or not.  The
# expected binding is fixed by construction (expect_of below is the generator's own reading: pinned => exactly that
# revision's typedef, unpinned => the latest loaded revision, a name only another revision defines => error) and the
# implementation's leaf types are compared with it directly; the model (revision-aware FindModule) is compared too.

REVS = ["2017-11-30", "2018-05-05", "2019-03-01", "2020-01-01", "2021-06-15", "2021-06-16"]
REV_KINDS = ["string", "uint32", "int8", "boolean", "int64", "binary", "uint8", "empty"]


def expect_of(S, scope, t):
    """the projected type a plain reference denotes, by the property text; None = error"""
    b = S.bind(scope, t.name)
    if b is None:
        return None
    if b[0] == "builtin":
        return dict(kind=b[1], name=b[1], units="", default="", hasdef=False)
    td = b[1]
    e = expect_of(S, td.scope, td.type)
    if e is None:
        return None
    e = dict(e, name=td.name)
    if td.units is not None:
        e["units"] = td.units
    if td.default is not None:
        e["default"], e["hasdef"] = td.default, True
    return e


def pinned_variant(rnd, small=False):
    """returns (modules, expectations {leaf: projected type}, description)"""
    def mk_td(sc, name, tname, units=None, default=None):
        d = Typedef(name, sc)
        d.type, d.units, d.default = TRef(tname), units, default
        sc.typedefs.append(d)
        return d

    def mk_leaf(sc, name, tname):
        x = Leaf(name)
        x.type = TRef(tname)
        sc.leaves.append(x)
        return x

    def mk_kid(sc, kind, name):
        c = Scope(kind, name, sc.mod, sc)
        sc.kids.append(c)
        return c
    nrev = 2 if small else rnd.choice([2, 3, 3])
    revs = sorted(rnd.sample(REVS, nrev))
    kinds = rnd.sample(REV_KINDS, nrev + 1)
    libs = []
    by_construction = {}
    for i, r in enumerate(revs):
        lib = Module("lib", False, rnd.choice(["lib", "l", "p"]), None)
        lib.revisions = [r] + [x for x in revs[:i] if rnd.random() < 0.5]
        rnd.shuffle(lib.revisions)
        mk_td(lib.top, "id", kinds[i], units="u-" + r, default=("d%d" % i if rnd.random() < 0.5 else None))
        mk_td(lib.top, "tag", kinds[i + 1], units="t-" + r)
        mk_td(lib.top, "wrapped", rnd.choice(["id", lib.prefix + ":id"]), default="w-" + r)   # lib's own id of THIS revision
        mk_td(lib.top, "only%d" % i, "int16", units="only-" + r)
        libs.append(lib)
    mods = list(libs)
    n = [0]

    def leafname(tag):
        n[0] += 1
        return "%s%d" % (tag, n[0])

    def user(name, pins, sub_of=None, prefix=None):
        """pins: list of (prefix, revision or None)"""
        m = Module(name, sub_of is not None, prefix or rnd.choice(["p", "q", "u"]), sub_of)
        for i, (pf, pin) in enumerate(pins):
            m.imports.append((pf, "lib"))
            if pin is not None:
                m.import_rev[i] = pin
        for pf, pin in pins:
            idx = revs.index(pin) if pin is not None else len(revs) - 1
            r = revs[idx]
            x = mk_leaf(m.top, leafname("direct"), pf + ":id")
            by_construction[x.name] = dict(kind=kinds[idx], name="id", units="u-" + r)
            x = mk_leaf(m.top, leafname("wrapped"), pf + ":wrapped")
            by_construction[x.name] = dict(kind=kinds[idx], name="wrapped", units="u-" + r, default="w-" + r)
            x = mk_leaf(m.top, leafname("only"), pf + ":only%d" % idx)
            by_construction[x.name] = dict(kind="int16", name="only%d" % idx, units="only-" + r)
            loc = "loc_" + pf
            mk_td(m.top, loc, pf + ":tag", default="L")
            mk_td(m.top, loc + "2", rnd.choice([loc, m.prefix + ":" + loc]), units="chain")
            x = mk_leaf(m.top, leafname("chained"), loc + "2")
            by_construction[x.name] = dict(kind=kinds[idx + 1], name=loc + "2", units="chain", default="L")
            c = mk_kid(m.top, "container", leafname("c"))
            li = mk_kid(c, rnd.choice(["list", "container", "grouping"]), leafname("k"))
            mk_td(li, "id", pf + ":id", units="inner")           # same name as the library's, nearer
            x = mk_leaf(li, leafname("inner"), "id")
            by_construction[x.name] = dict(kind=kinds[idx], name="id", units="inner")
            x = mk_leaf(li, leafname("innerp"), pf + ":tag")
            by_construction[x.name] = dict(kind=kinds[idx + 1], name="tag", units="t-" + r)
            r_ = mk_kid(m.top, "rpc", leafname("r")) if sub_of is None and rnd.random() < 0.5 else None
            if r_ is not None:
                inp = mk_kid(r_, "input", leafname("in"))
                x = mk_leaf(inp, leafname("rpcleaf"), pf + ":id")
                by_construction[x.name] = dict(kind=kinds[idx], name="id", units="u-" + r)
        return m
    pins_all = [None] + revs
    if small:
        mods.append(user("pinned", [("l", revs[0])]))
        mods.append(user("floating", [("anything", None)]))
    else:
        for j, pin in enumerate(pins_all):
            mods.append(user("u%d" % j, [(rnd.choice(["l", "x", "lib"]), pin)]))
        # two prefixes for two revisions of one module in one user
        mods.append(user("two", [("a", revs[0]), ("b", revs[-1])]))
        # a submodule with its own import statement, pinned differently from its module's
        owner = user("own", [("l", rnd.choice(pins_all))])
        sub = user("ownsub", [("l", rnd.choice(pins_all))], sub_of="own",
                   prefix=(owner.prefix if rnd.random() < 0.5 else None))
        owner.includes.append("ownsub")
        mods += [owner, sub]
    return mods, by_construction, "revs=%s" % ",".join(revs)


def pinned_cases(rnd, tier):
    import itertools
    out = []
    nvar, nord = (5, 5) if tier == "quick" else (60, 16)
    variants = [pinned_variant(rnd, small=True)] + [pinned_variant(rnd) for _ in range(nvar)]
    for vi, (mods, byc, desc) in enumerate(variants):
        if vi == 0:
            orders = [list(p) for p in itertools.permutations(range(len(mods)))]      # all load orders
        else:
            base = list(range(len(mods)))
            orders = [base, base[::-1]]
            for _ in range(nord):
                o = base[:]
                rnd.shuffle(o)
                orders.append(o)
        for o in orders:
            S = Schema([mods[i] for i in o])
            exp = {}
            for sc in S.scopes():
                for lf in sc.leaves:
                    e = expect_of(S, sc, lf.type)
                    assert e is not None, lf.name
                    exp[lf.name] = e
            for name, e in byc.items():      # the evaluator and the construction agree
                for k, v in e.items():
                    assert exp[name][k] == v, (name, k, v, exp[name])
            go, ml, texts = lines_of(S)
            out.append(("pinned:ok", False, go, ml, texts, 0, exp))
        # single faults: a typedef that only another revision defines
        S = Schema(list(mods))
        users = [m for m in mods if m.name != "lib"]
        for _ in range(2 if tier == "quick" else 4):
            m = rnd.choice(users)
            i = rnd.randrange(len(m.imports))
            pf = m.imports[i][0]
            bound = S.find_import("lib", m.import_rev.get(i))
            others = [td.name for l in mods if l.name == "lib" and l is not bound for td in l.top.typedefs
                      if bound.top.visible(td.name) is None]
            if not others:
                continue
            x = Leaf("faulty")
            x.type = TRef(pf + ":" + rnd.choice(others))
            m.top.leaves.append(x)
            o = list(range(len(mods)))
            rnd.shuffle(o)
            S2 = Schema([mods[j] for j in o])
            assert expect_of(S2, m.top, x.type) is None
            go, ml, texts = lines_of(S2)
            out.append(("pinned:other-revision-only", True, go, ml, texts, 0, None))
            m.top.leaves.pop()
    return out


def check_expect(goline, exp):
    """the implementation's leaf types against the expectation fixed by construction"""
    g = json.loads(goline)
    run = g["runs"][0]
    if run["errors"]:
        return "errors where every reference is bound: %s" % run["errors"][:2]
    found = {}
    for md in run.get("modules") or []:
        go_leaves(md["tree"], found)
    for name, e in exp.items():
        if name not in found:
            return "leaf %s is not in the implementation's trees" % name
        for gt, _dv in found[name]:
            got = canon_go(gt)
            proj = {k: got[k] for k in e}
            if proj != e:
                return "leaf %s: impl %s, expected by construction %s" % (name, json.dumps(proj, sort_keys=True),
                                                                          json.dumps(e, sort_keys=True))
    return None


# ------------------------------------------------------------------ family "long chains"
# Derived types inherit the whole chain at any length: chains of 63 ... 500 typedefs whose DERIVED end sorts first
# (resolveTypedefs enters it before anything is memoised), in one module, across an import (the importing module
# sorts first) and with the derived part in nested scopes (entered before the top-level typedefs it is based on).

def long_chain(rnd, n, shape):
    a = Module("a0", False, "a", None)
    b = Module("b0", False, "b", None)
    mods = [a]
    names = ["t%04d" % i for i in range(n)]          # t0000 is the most derived
    where = []                                        # scope of every typedef
    if shape == "import":
        a.imports.append(("bb", "b0"))
        mods.append(b)
        cut = rnd.randint(1, n - 1)
        where = [a.top] * cut + [b.top] * (n - cut)
    elif shape == "nested":
        c = Scope("container", "c1", a, a.top)
        a.top.kids.append(c)
        g = Scope(rnd.choice(["list", "container", "grouping"]), "c2", a, c)
        c.kids.append(g)
        c1, c2 = sorted(rnd.sample(range(1, n), 2))
        where = [g] * c1 + [c] * (c2 - c1) + [a.top] * (n - c2)
    else:
        where = [a.top] * n
    for i, nm in enumerate(names):
        sc = where[i]
        d = Typedef(nm, sc)
        if i == n - 1:
            d.type = TRef("string")
            d.type.pats = ["base"]
        else:
            nxt = names[i + 1]
            if where[i + 1].mod is not sc.mod:
                d.type = TRef("bb:" + nxt)
            else:
                d.type = TRef(rnd.choice([nxt, sc.mod.prefix + ":" + nxt]))
        if i % 37 == 5:
            d.units = "u%d" % i
        if i % 41 == 7:
            d.default = "d%d" % i
        if i % 29 == 3:
            d.type.pats = d.type.pats + ["p%d" % (i % 58)]
        sc.typedefs.append(d)
    for sc in {id(w): w for w in where}.values():
        rnd.shuffle(sc.typedefs)                      # the order in the text does not matter
    inner = where[0]
    for j, i in enumerate([0, n // 2, n - 1]):
        x = Leaf("leaf%d" % j)
        tgt = names[i]
        x.type = TRef(tgt if where[i].mod is inner.mod else "bb:" + tgt)
        inner.leaves.append(x)
    rnd.shuffle(mods)
    return Schema(mods)


def long_cases(rnd, tier):
    out = []
    lens = [63, 64, 65, 66, 100]
    for n in lens:
        for shape in ("flat", "import", "nested"):
            go, ml, texts = lines_of(long_chain(rnd, n, shape))
            out.append(("long:%s" % shape, False, go, ml, texts, 0, None))
    for shape in (["flat"] if tier == "quick" else ["flat", "import", "nested"]):
        go, ml, texts = lines_of(long_chain(rnd, 500, shape))
        out.append(("long:%s" % shape, False, go, ml, texts, 0, None))
    return out


# ------------------------------------------------------------------ family "unused nested groupings"
# The type statements of a grouping are resolved where the grouping is written, used or not: a faulty type reference
# on a leaf of an UNUSED grouping nested in a container, list, rpc, input, output, notification, action or another
# grouping has to be reported (error presence as the model gives it; and, on the implementation alone, an error
# located inside the faulty leaf statement -- a second, used faulty leaf elsewhere must not hide it).

LEAF_FAULTS = ["unknown-name", "unknown-prefix", "invisible", "fd-missing", "fd-range", "fd-other", "dup-enum",
               "idref-nobase", "range-bad", "cyclic-typedef", "member"]


def unused_grouping_variant(rnd, holder, fault, second):
    m = Module("m0", False, "p", None)
    other = Module("m1", False, "q", None)
    m.imports.append(("o", "m1"))
    d = Typedef("hidden", None)

    def scope(parent, kind, nm):
        c = Scope(kind, nm, m, parent)
        parent.kids.append(c)
        return c
    side = scope(m.top, "container", "side")
    d.scope = side
    d.type = TRef("int8")
    side.typedefs.append(d)
    if holder in ("input", "output"):
        par = scope(scope(m.top, "rpc", "r1"), holder, holder)
    elif holder == "action-input":
        par = scope(scope(scope(m.top, "container", "c0"), "action", "a1"), "input", "input")
    elif holder == "grouping":
        par = scope(m.top, "grouping", "outer")            # used
    elif holder == "unused-grouping":
        par = scope(m.top, "grouping", "outer")
        par.unused = True
    elif holder == "deep":
        par = scope(scope(scope(m.top, "container", "c0"), "list", "l0"), "grouping", "g0")
    else:
        par = scope(m.top, holder, "h1")
    ug = scope(par, "grouping", "ug")
    ug.unused = True
    if rnd.random() < 0.5:
        ug = scope(ug, rnd.choice(["container", "list"]), "in1")     # the leaf sits deeper in the unused grouping

    def faulty(fault):
        if fault == "unknown-name":
            return TRef(rnd.choice(["nosuch", "p:nosuch", "o:nosuch"]))
        if fault == "unknown-prefix":
            return TRef("zz:hidden")
        if fault == "invisible":
            return TRef("hidden")
        if fault == "fd-missing":
            return TRef("decimal64")
        t = TRef("int8")
        if fault == "fd-range":
            t = TRef("decimal64")
            t.fd = 0
        elif fault == "fd-other":
            t.fd = 3
        elif fault == "dup-enum":
            t = TRef("enumeration")
            t.enums = ["e0", "e0"]
        elif fault == "idref-nobase":
            t = TRef("identityref")
        elif fault == "range-bad":
            t.range = "9..1"
        elif fault == "cyclic-typedef":
            c = Typedef("loop", ug)
            c.type = TRef("loop")
            ug.typedefs.append(c)
            t = TRef("loop")
        elif fault == "member":
            t = TRef("union")
            t.members = [TRef("string"), TRef("nosuch")]
        return t
    x = Leaf("faulty_leaf")
    x.type = faulty(fault)
    ug.leaves.append(x)
    # the error of a reference to a typedef that is based on itself is located at the typedef
    bad = [ug.typedefs[-1] if fault == "cyclic-typedef" else x]
    if second:
        y = Leaf("second_faulty")
        y.type = TRef("nosuch2")
        m.top.leaves.append(y)
        bad.append(y)
    ok = Leaf("ok_leaf")
    ok.type = TRef("string")
    m.top.leaves.append(ok)
    return Schema([m, other] if rnd.random() < 0.5 else [other, m]), bad


def leaf_lines(m, leaf):
    lines = render_module(m).split("\n")
    for i, l in enumerate(lines):
        if l.strip().startswith("leaf %s {" % leaf.name):
            return i + 1, i + len("\n".join(render_leaf(leaf, 0)).split("\n"))
    raise AssertionError(leaf.name)


def unused_grouping_cases(rnd, tier):
    out = []
    holders = ["container", "list", "notification", "input", "output", "action-input", "grouping", "unused-grouping",
               "deep"]
    combos = [(h, rnd.choice(LEAF_FAULTS), s_) for h in holders for s_ in (False, True)]
    combos += [(rnd.choice(holders), f, rnd.random() < 0.5) for f in LEAF_FAULTS]
    if tier != "quick":
        combos += [(h, f, s_) for h in holders for f in LEAF_FAULTS for s_ in (False, True)]
    for h, f, second in combos:
        S, bad = unused_grouping_variant(rnd, h, f, second)
        go, ml, texts = lines_of(S)
        m = [x for x in S.mods if x.name == "m0"][0]
        tl = typedef_lines(m)
        if any(isinstance(x, Typedef) for x in bad):
            # Process stops after the typedef sweep when that reports errors: leaf errors are not due then
            bad = [x for x in bad if isinstance(x, Typedef)]
        pos = [["m0.yang"] + list(tl[id(x)] if isinstance(x, Typedef) else leaf_lines(m, x)) for x in bad]
        out.append(("unused-grouping:%s" % h, True, go, ml, texts, 0, {"__errpos__": pos}))
    return out


# ------------------------------------------------------------------ family "unused typedefs under same-named scopes"
# resolveTypedefs is the only place where a typedef that nothing uses gets resolved: every one of them has to be
# swept.  Two scopes with the same path of names (a grouping and a container / list / rpc / notification of one name,
# or groupings under same-named parents) each declare a typedef of the same name that nobody uses; one or both are
# faulty.  Every faulty typedef must be reported: error presence is compared with the model (which resolves every
# typedef) and, on the implementation alone, an error position inside EACH faulty typedef statement is required.
# Every case is run several times (map iteration order varies from run to run).

TWIN_FAULTS = ["unknown-name", "unknown-prefix", "self", "self-union", "invisible", "fd-missing", "fd-other",
               "dup-enum", "idref-nobase", "range-bad", "fd-range"]


def twin_variant(rnd, which, fa, fb):
    """which: kind of the data node twin; fa / fb: fault class of the typedef in the grouping / in the twin, or None"""
    m = Module("m0", False, "p", None)
    other = Module("m1", False, "q", None)
    m.imports.append(("o", "m1"))
    name = rnd.choice(["x", "box", "t0"])
    tname = rnd.choice(NAMES)

    def scope(parent, kind, nm):
        c = Scope(kind, nm, m, parent)
        parent.kids.append(c)
        return c

    def faulty(sc, fault):
        d = Typedef(tname, sc)
        if fault is None:
            d.type = TRef(rnd.choice(["int8", "string", "boolean"]))
        elif fault == "unknown-name":
            d.type = TRef(rnd.choice(["nosuch", "p:nosuch", "o:nosuch"]))
        elif fault == "unknown-prefix":
            d.type = TRef("zz:" + tname)
        elif fault == "self":
            d.type = TRef(rnd.choice([tname, "p:" + tname]))
        elif fault == "self-union":
            d.type = TRef("union")
            d.type.members = [TRef("string"), TRef(tname)]
        elif fault == "invisible":
            d.type = TRef("hidden")                 # declared in a sibling scope only
        elif fault == "fd-missing":
            d.type = TRef("decimal64")
        elif fault == "fd-range":
            d.type = TRef("decimal64")
            d.type.fd = 19
        elif fault == "fd-other":
            d.type = TRef("int32")
            d.type.fd = 2
        elif fault == "dup-enum":
            d.type = TRef("enumeration")
            d.type.enums = ["e0", "e1", "e0"]
        elif fault == "idref-nobase":
            d.type = TRef("identityref")
        elif fault == "range-bad":
            d.type = TRef("int8")
            d.type.range = "5..1"
        if rnd.random() < 0.3:
            d.units = rnd.choice(UNITS[:3])
        sc.typedefs.append(d)
        return d
    side = Scope("container", "side", m, m.top)
    m.top.kids.append(side)
    h = Typedef("hidden", side)
    h.type = TRef("int8")
    side.typedefs.append(h)
    if which.startswith("nested-"):
        # groupings of one name under a grouping and a data node of one name
        pa = scope(m.top, "grouping", name)
        pb = scope(m.top, which[len("nested-"):], name)
        a = scope(pa, "grouping", "g")
        b = scope(pb, "grouping", "g")
    elif which == "input":
        # rpc x { input { typedef t } }  and  grouping x { grouping input { typedef t } }
        pa = scope(m.top, "grouping", name)
        a = scope(pa, "grouping", "input")
        pb = scope(m.top, "rpc", name)
        b = scope(pb, "input", "input")
    else:
        a = scope(m.top, "grouping", name)
        b = scope(m.top, which, name)
    if rnd.random() < 0.5:
        m.top.kids.reverse()
    da, db = faulty(a, fa), faulty(b, fb)
    lf_ = Leaf("ok_leaf")
    lf_.type = TRef("string")
    m.top.leaves.append(lf_)
    S = Schema([m, other] if rnd.random() < 0.5 else [other, m])
    return S, [d for d, f in ((da, fa), (db, fb)) if f is not None]


def typedef_lines(m):
    """{id(typedef): (first line, last line)} in the rendered text of module m (1-based)"""
    import re
    lines = render_module(m).split("\n")
    starts = [i + 1 for i, l in enumerate(lines) if re.match(r"^\s*typedef \S+ \{$", l)]
    tds = [td for sc in m.top.all() for td in sc.typedefs]
    assert len(starts) == len(tds), (len(starts), len(tds))
    return {id(td): (ln, ln + len("\n".join(render_typedef(td, 0)).split("\n")) - 1) for td, ln in zip(tds, starts)}


def twin_cases(rnd, tier):
    out = []
    kinds = ["container", "list", "notification", "rpc", "input", "nested-container", "nested-list", "nested-grouping"]
    reps = 6 if tier == "quick" else 12
    combos = []
    for k in kinds:
        f1, f2 = rnd.choice(TWIN_FAULTS), rnd.choice(TWIN_FAULTS)
        combos += [(k, f1, None), (k, None, f2), (k, f1, f2)]
    for f in TWIN_FAULTS:
        combos.append((rnd.choice(kinds), f, f))
    if tier != "quick":
        combos += [(rnd.choice(kinds), rnd.choice(TWIN_FAULTS + [None]), rnd.choice(TWIN_FAULTS)) for _ in range(150)]
    for k, fa, fb in combos:
        if k == "nested-grouping":
            k = "nested-container" if rnd.random() < 0.5 else "nested-notification"
        S, bad = twin_variant(rnd, k, fa, fb)
        go, ml, texts = lines_of(S)
        pos = []
        for m in S.mods:
            tl = typedef_lines(m)
            for d in bad:
                if id(d) in tl:
                    pos.append([m.name + ".yang", tl[id(d)][0], tl[id(d)][1]])
        assert len(pos) == len(bad)
        for _ in range(reps):
            out.append(("twins:%d-faulty" % len(bad), True, go, ml, texts, 0, {"__errpos__": pos}))
    return out


def check_errpos(goline, exp):
    """every faulty typedef statement has an error located inside it"""
    g = json.loads(goline)
    run = g["runs"][-1]
    got = []
    for p_ in run.get("errpos") or []:
        f = p_.split(":")
        if len(f) >= 3 and f[1].lstrip("-").isdigit():
            got.append((f[0], int(f[1])))
    for fn, a, b in exp["__errpos__"]:
        if not any(g_[0] == fn and a <= g_[1] <= b for g_ in got):
            return "no error is reported for the faulty statement at %s:%d-%d (errors: %s)" % (fn, a, b, run["errors"][:4])
    return None


# ------------------------------------------------------------------ comparison

def unhex(h):
    return "" if h == "-" else bytes.fromhex(h).decode()


def show_enum(names):
    return ",".join("%s=%d" % (n, i) for n, i in sorted((n, i) for i, n in enumerate(names))) + ";" + \
        ",".join("%d=%s" % (i, n) for i, n in enumerate(names))


def canon_model(t):
    kind = t["kind"]
    rng = None if t["range"] is None else unhex(t["range"])
    return dict(name=unhex(t["name"]), kind=kind, units=unhex(t["units"]), default=unhex(t["default"]),
                hasdef=t["hasdef"], fd=t["fd"],
                range=rng if rng is not None else BUILTIN_RANGE.get(kind, "?" if kind == "decimal64" else ""),
                length="" if t["length"] is None else unhex(t["length"]),
                pattern=[unhex(p) for p in t["pattern"]],
                enum="" if t["enum"] is None else show_enum([unhex(x) for x in t["enum"]]),
                bit="" if t["bit"] is None else show_enum([unhex(x) for x in t["bit"]]),
                path=unhex(t["path"]), idbase=None if t["idbase"] is None else unhex(t["idbase"]),
                union=[canon_model(u) for u in t["union"]])


def canon_go(t):
    kind = t.get("kind", "")
    ib = t.get("idbase")
    return dict(name=t.get("name", ""), kind=kind, units=t.get("units", ""), default=t.get("default", ""),
                hasdef=t.get("hasdef", False), fd=t.get("fd", 0),
                range="?" if kind == "decimal64" else t.get("range", ""),
                length=t.get("length", ""), pattern=t.get("pattern") or [], enum=t.get("enum", ""),
                bit=t.get("bit", ""), path=t.get("path", ""),
                idbase=None if not ib else ib.split(":", 1)[1],
                union=[canon_go(u) for u in t.get("union") or []])


def go_leaves(node, out):
    if node.get("kind") == "Leaf" and node.get("type") is not None:
        out.setdefault(node["name"], []).append((node["type"], node.get("defvals") or []))
    for c in node.get("children") or []:
        go_leaves(c, out)
    for k in ("input", "output"):
        if node.get(k):
            go_leaves(node[k], out)


def compare(goline, mlline, intent, nbad=0):
    """returns (None | text of the disagreement, observation summary)"""
    try:
        g = json.loads(goline)
        m = json.loads(mlline)
    except ValueError:
        return "unparsable output: impl=%s model=%s" % (goline[:200], mlline[:200]), "broken"
    run = g["runs"][-1]         # histories: the last Process is the one that counts
    loads = g["loads"]
    if sum(1 for x in loads if x.startswith("err")) != nbad or len(loads) == 0:
        return "a generated text was rejected by Parse: %s %s" % (loads, run["errors"][:2]), "broken"
    go_err = len(run["errors"]) > 0
    leaves = m["leaves"]
    bad = [x for x in leaves if x["type"] in ("PANIC", "FUEL")]
    if bad:
        return "model returned %s" % bad[0]["type"], "broken"
    rngs = {unhex(x["leaf"]): x["rng"] for x in m.get("ranges", [])}
    if any(v in ("PANIC", "UNMODELLED") for v in rngs.values()):
        return "model range_of returned %s" % [v for v in rngs.values() if v in ("PANIC", "UNMODELLED")][0], "broken"
    ml_err = m["tderr"] or m.get("rngerr", False) or any(x["type"] is None for x in leaves)
    if ml_err != go_err:
        return "error presence: impl %s (%s) model %s" % (go_err, run["errors"][:2], ml_err), "errdiff"
    if intent is not None and intent != ml_err:
        return "model %s an error, the case was built to %s" % (
            "reports" if ml_err else "does not report", "fail" if intent else "resolve"), "intent"
    if go_err:
        return None, "error"
    found = {}
    for md in run.get("modules") or []:
        go_leaves(md["tree"], found)
    for x in leaves:
        name = unhex(x["leaf"])
        want = canon_model(x["type"])
        if rngs.get(name) is not None:
            want["range"] = rngs[name]      # integer kinds: the range list composed with C10's parseChildRanges
        if name not in found:
            return "leaf %s is not in the implementation's trees" % name, "missing"
        for gt, dv in found[name]:
            got = canon_go(gt)
            if got != want:
                return "leaf %s: impl %s model %s" % (name, json.dumps(got, sort_keys=True),
                                                      json.dumps(want, sort_keys=True)), "typediff"
            wdv = [want["default"]] if want["hasdef"] else []
            if dv != wdv:
                return "leaf %s: DefaultValues impl %s model %s" % (name, dv, wdv), "defdiff"
    return None, "ok"


# ------------------------------------------------------------------ statistics of a case

def stats(S, hist):
    depth_max, forms, attrs = 0, set(), set()
    nest = {}
    for sc in S.scopes():
        for td in sc.typedefs:
            # how many enclosing scopes declare the same name
            n = sum(1 for a in sc.ancestors() if a.visible(td.name) is not None)
            nest[td.name] = max(nest.get(td.name, 0), n)
        for h in list(sc.typedefs) + list(sc.leaves):
            for r in h.type.refs():
                depth_max = max(depth_max, r.depth)
                if r.name in BUILTINS:
                    forms.add("builtin")
                elif ":" not in r.name:
                    forms.add("unprefixed")
                elif r.name.split(":")[0] == sc.mod.prefix:
                    forms.add("own-prefix")
                else:
                    forms.add("foreign-prefix")
                    if r.target is not None and r.target.scope.mod.sub:
                        forms.add("foreign-submodule")
                if r.target is not None and r.target.scope.mod is not sc.mod and ":" not in r.name:
                    forms.add("other-text-of-own-module")
                for a in ("fd", "range", "length", "path"):
                    if getattr(r, a) is not None and r.depth > 0:
                        attrs.add(a + "@derived")
                for a in ("pats", "enums", "bits", "members"):
                    if getattr(r, a) and r.depth > 0:
                        attrs.add(a + "@derived")
    hist["chain_max"] = max(hist.get("chain_max", 0), depth_max)
    hist["cases_chain>=4"] = hist.get("cases_chain>=4", 0) + (1 if depth_max >= 4 else 0)
    hist["cases_same_name_3_nested"] = hist.get("cases_same_name_3_nested", 0) + \
        (1 if nest and max(nest.values()) >= 3 else 0)
    for f in forms:
        hist["form:" + f] = hist.get("form:" + f, 0) + 1
    for a in attrs:
        hist["attr:" + a] = hist.get("attr:" + a, 0) + 1
    hist["submodules"] = hist.get("submodules", 0) + sum(1 for m in S.mods if m.sub)
    hist["foreign_uses"] = hist.get("foreign_uses", 0) + sum(len(m.foreign_uses) for m in S.mods)


def build_cases(tier, seed):
    rnd = random.Random(seed)
    cases = []   # (label, intent, goline, mlline, texts, nbad)
    hist = {}
    for name, intent, S in corpus():
        go, ml, texts = lines_of(S)
        cases.append(("corpus:" + name, intent, go, ml, texts, 0, None))
    n_ok, n_fault = (260, 26) if tier == "quick" else (6000, 400)
    n_hist = 150 if tier == "quick" else 2000
    for i in range(n_ok):
        g = Gen(rnd, big=(i % 10 == 9))
        S, _ = g.case()
        stats(S, hist)
        bad = rnd.random() < 0.1
        go, ml, texts = lines_of(S, extra_bad=bad)
        cases.append(("random", False, go, ml, texts, 1 if bad else 0, None))
        if i < n_hist:
            late = late_module(S, rnd)
            if late is not None:
                go2, ml2, texts2 = lines_of(S, late=late)
                cases.append(("history:late-import", False, go2, ml2, texts2, 0, None))
                hist["history:late-import"] = hist.get("history:late-import", 0) + 1
    for f in FAULTS:
        made = 0
        tries = 0
        while made < n_fault and tries < 20 * n_fault:
            tries += 1
            g = Gen(rnd)
            S, ff = g.case(f)
            if ff is None:
                continue
            made += 1
            go, ml, texts = lines_of(S)
            cases.append(("fault:" + f, True, go, ml, texts, 0, None))
        hist["fault:" + f] = made
    lc = long_cases(rnd, tier)
    cases += lc
    hist["long-chains"] = len(lc)
    uc = unused_grouping_cases(rnd, tier)
    cases += uc
    hist["unused-groupings"] = len(uc)
    tc = twin_cases(rnd, tier)
    cases += tc
    hist["twins:runs"] = len(tc)
    pc = pinned_cases(rnd, tier)
    cases += pc
    hist["pinned:ok"] = sum(1 for c in pc if c[0] == "pinned:ok")
    hist["pinned:other-revision-only"] = sum(1 for c in pc if c[0] != "pinned:ok")
    return cases, hist


def run(res, tier, seed, proof):
    cases, hist = build_cases(tier, seed)
    tmp = tempfile.mkdtemp(prefix="c09cwd")
    go = lib.run_go([c[2] for c in cases], cwd=tmp)
    ml = lib.run_ml([c[3] for c in cases])
    mism = 0
    obs = {}
    nleaves = 0
    # read-then-scribble: the enum / bit containers a resolved type hands out are the caller's; writing to them must
    # not change what any leaf of the family carries (oracle on the implementation alone)
    scr = [c for c in cases if c[1] is False and c[5] == 0 and not c[0].startswith(("history", "pinned"))]
    scr = scr[:(220 if tier == "quick" else 3000)]
    scr_lines = ["c09scribble %d %s" % (len(c[4]), " ".join("%s %s" % (hx(n_), hx(t_)) for n_, t_ in c[4])) for c in scr]
    nscr = 0
    for c, o in zip(scr, lib.run_go(scr_lines, cwd=tmp)):
        if o.startswith("same"):
            nscr += int(o.split()[2])
            continue
        mism += 1
        if mism <= 3:
            res.violation("scribbling on NameMap()/ValueMap() of a resolved type changed a leaf's type (%s): %s"
                          % (c[0], o[:500]),
                          dict(kind="scribble", label=c[0], go_case=scr_lines[scr.index(c)], texts=c[4], why=o[:2000]))
    for c, g, m in zip(cases, go, ml):
        label, intent, gl, mll, texts, nbad, exp = c
        why, o = compare(g, m, intent, nbad)
        if exp is not None and "__errpos__" in exp:
            if why is None and not g.startswith(("PANIC", "CRASH", "NOT-RUN")):
                w2 = check_errpos(g, exp)
                if w2 is not None:
                    why, o = "error position oracle: " + w2, "errpos-oracle"
        elif exp is not None:
            # oracle on the implementation alone (not model-backed): the binding is known by construction
            w2 = check_expect(g, exp) if not g.startswith(("PANIC", "CRASH", "NOT-RUN")) else "implementation: " + g[:100]
            if w2 is not None:
                why, o = "pinned revision oracle: " + w2, "pinned-oracle"
        elif label.startswith("pinned:") and why is None and o != "error":
            why, o = "a name that only another revision defines was resolved", "pinned-oracle"
        obs[o] = obs.get(o, 0) + 1
        if o == "ok":
            nleaves += len(json.loads(m)["leaves"])
        if why is not None:
            mism += 1
            if mism <= 3:
                res.violation("model-vs-implementation disagree (%s): %s" % (label, why[:600]),
                              dict(kind="correspondence", label=label, intent=intent, go_case=gl, ml_case=mll,
                                   texts=texts, nbad=nbad, why=why, expect=exp))
    mid = len(cases) // 2
    cov = dict(
        evaluations=len(cases), distinct_nontrivial=len({c[3] for c in cases}),
        rule="hand-written corpus (alias witness, shadowed built-in, 4 nested scopes of every kind, submodule "
             "visibility, invisible names, cycles) + random schemas (1-4 modules, 0-3 submodules each with nested "
             "includes, scope trees up to depth 5 over container/list/grouping/rpc/input/output/notification/action, "
             "typedef names from a pool of 5 (+ built-in names), references unprefixed / own prefix / import prefix / "
             "built-in, chains up to 6, attributes at random links) + single-fault variants; every generated schema "
             "is non-trivial (at least one derived type is resolved)",
        exhaustive=False, mismatches=mism, leaves_compared=nleaves, scribbled_schemas=len(scr), scribbled_maps=nscr,
        distribution=dict(hist, observations=obs),
        samples=[cases[0][4][0][1][:600], cases[mid][4][0][1][:600]],
        sample_observations=[go[0][:400], ml[0][:400]],
    )
    assumptions = [
        "the YANG texts handed to Modules.Parse and the abstract schema handed to the model are renderings of the "
        "same generated schema; scopes are the Typedefer nodes (choice/case/leaf-list wrappers are transparent)",
        "range/length restrictions are opaque texts in the resolver model ('nearest restriction on the chain'); on "
        "typedefs and union members the generator writes texts that narrow with the chain depth and are equal exactly "
        "when they denote equal sets; for integer kinds the model's range_of (C10's parseChildRanges composed along "
        "the chain) gives the resolved range list, which is compared with the implementation's, including min/max, "
        "multi-part, unsorted, adjacent and blank-padded texts on leaf type statements and rejected (widening / "
        "malformed) ranges; decimal64 ranges and length stay opaque",
        "enum values / bit positions are positions in the member list (C14 covers explicit values); identityref "
        "bases name an identity of the same text (C11)",
        "family 'pinned revision': the expected leaf types are fixed by construction in the generator (pinned import => "
        "that revision's typedef, unpinned => latest loaded revision, name defined only by another revision => error) "
        "and compared with the implementation directly -- an oracle on the implementation, not model-backed; the "
        "model (FindModule with revision-date) is compared on the same cases too",
        "every submodule is reachable through include statements from its module, every import names a loaded module",
        "extension substatements of type statements use only prefixes the text declares; they do not change the "
        "resolved type (the model does not carry them)",
    ]
    return cov, assumptions


def replay(rep, res):
    tmp = tempfile.mkdtemp(prefix="c09cwd")
    if rep.get("kind") == "scribble":
        o = lib.run_go([rep["go_case"]], cwd=tmp)[0]
        for n, t in rep.get("texts", []):
            print("---- " + n)
            print(t)
        print("impl :", o[:3000])
        return 0 if o.startswith("same") else 1
    go = lib.run_go([rep["go_case"]], cwd=tmp)[0]
    ml = lib.run_ml([rep["ml_case"]])[0]
    for n, t in rep.get("texts", []):
        print("---- " + n)
        print(t)
    print("impl :", go[:3000])
    print("model:", ml[:3000])
    why, o = compare(go, ml, rep.get("intent"), rep.get("nbad", 0))
    if rep.get("expect") and "__errpos__" in rep["expect"]:
        w2 = check_errpos(go, rep["expect"])
        if w2 is not None:
            why, o = "unused typedef not swept: " + w2, "twins-oracle"
    elif rep.get("expect"):
        w2 = check_expect(go, rep["expect"])
        if w2 is not None:
            why, o = "pinned revision oracle: " + w2, "pinned-oracle"
    print("verdict:", o, why or "")
    return 0 if why is None else 1
