"""shared grids for C10 / C14 / C15"""
import random

P63, P64 = 1 << 63, 1 << 64


def magnitudes():
    m = {0, 1, 2, 5, 9, 10, 11, 99, 100, 101, 255, 256, P63 - 1, P63, P63 + 1, P64 - 1, P64 - 2}
    for k in range(1, 20):
        for d in (-1, 0, 1):
            v = 10 ** k + d
            if 0 <= v < P64:
                m.add(v)
    for k in (7, 8, 15, 16, 31, 32, 62):
        for d in (-1, 0, 1):
            m.add((1 << k) + d)
    return sorted(m)


def canon_num(tok):
    """v:fd:neg with -0 normalised"""
    v, fd, neg = tok.split(":")
    if v == "0":
        neg = "0"
    return "%s:%s:%s" % (v, fd, neg)


def canon_numline(line):
    t = line.split()
    return " ".join(canon_num(x) if x.count(":") == 2 and "~" not in x else
                    ",".join("~".join(canon_num(n) for n in part.split("~")) for part in x.split(",")) if "~" in x else x
                    for x in t)


def hexs(s):
    if isinstance(s, str):
        s = s.encode()
    return s.hex() if s else "-"


def simple_run(lib, res, cases, canon=None):
    go = lib.run_go(cases)
    ml = lib.run_ml(cases)
    mism = skipped = 0
    for c, g, m in zip(cases, go, ml):
        if m == "unmodelled":
            skipped += 1
            continue
        g2, m2 = (canon(g), canon(m)) if canon else (g, m)
        if g2 != m2:
            mism += 1
            if mism <= 3:
                res.violation("implementation and proved model disagree on case: %s  impl=%s model=%s" % (c[:300], g[:300], m[:300]),
                              dict(kind="correspondence", case=c, impl=g, model=m))
    return go, ml, mism, skipped
