"""C11 — each identity lists exactly its transitive derivations, once, in fixed order.

Correspondence: random schemas (modules, submodules with nested includes, identities with several bases, diamonds,
equal names in different modules, arbitrary prefixes, identityref leaves directly and through typedefs; cyclic,
dangling and free-form variants; variant rev: two or three loaded revisions of one module -- and sometimes of a
submodule -- defining the same and different identities, derived identities in each, submodules included by one or
several of them, imports from other modules with and without revision-date, also of revisions that are not loaded)
are rendered as YANG text for the implementation (harness command `idproc`, harness/go/c11.go: Modules.Parse +
Process + every Identity.Values and every identityref leaf's YangType.IdentityBase, identities named by the full
name -- name@revision -- of the (sub)module that declares them) and as the abstract schema for the extracted model
(Model/Identity.v, command `idres`).  Compared: error presence; for clean runs the Values list of every declaration
(as ordered lists) and base + values of every identityref leaf.  Every Go case is run three times (map iteration
order differs per run) and the model under several iteration oracles: all must agree.  For the variants whose
derivation graph the generator knows (clean ones) the expected lists are also computed here, independently of the
model, and compared with the implementation.  Two metamorphic families re-run a schema with a different history
(parts fetched by Process from the search path; submodules parsed between two Process calls) and demand the same
result."""
import json
import random
import shutil
import subprocess
import tempfile

import lib

NAMES = ["a", "b", "c", "m", "ab", "a-b", "x", "mod1", "z9", "b.c"]
IDNAMES = ["x", "y", "z", "a", "b", "id1", "x-y", "X", "x1", "aa", "B", "y.z", "_u"]
PREFIXES = ["p", "q", "a", "b", "x", "pp", "m", "ab", "P", "r-1"]


def hx(s):
    return lib.hexs(s.encode())


# ------------------------------------------------------------------ schema generation

DATES = ["2019-03-09", "2020-01-01", "2021-06-15", "2022-12-31"]


class Mod:
    def __init__(self, name, sub, prefix, belongs="", rev=""):
        self.name, self.sub, self.prefix, self.belongs, self.rev = name, sub, prefix, belongs, rev
        self.revs = []         # all revision statements in written order (rev is the greatest); [] = just rev
        self.imports = []      # (prefix, module name, revision-date or "")
        self.includes = []     # (submodule name, revision-date or "")
        self.idents = []       # [name, [base strings]]
        self.typedefs = []     # (name, base string): typedef name { type identityref { base ..; } }
        self.aliases = []      # (name, type name): typedef name { type <type name>; }
        # (name, 'ref', base string) | (name, 'td', typename-with-prefix, ctx Mod, base string)
        # | (name, 'union', [member]) with member = ('ref', base) | ('td', typename, ctx Mod, base) | ('plain', type)
        self.leaves = []


class Schema:
    def __init__(self):
        self.mods = []
        self.variant = "clean"
        self.edges = None      # known derivation graph: list of (child key, base key), or None
        self.auto = []         # parts that the auto-loaded run leaves to Process to load from the search path
        self.late = []         # submodules that the history run parses only after a first Process

    def reg_get(self, sub, key):
        """ms.Modules[key] / ms.SubModules[key]: a bare name denotes the latest revision"""
        best = None
        for m in self.mods:
            if m.sub == sub and m.name == key and (best is None or full(best) < full(m)):
                best = m
        if best is not None:
            return best
        for m in self.mods:
            if m.sub == sub and m.rev and full(m) == key:
                return m
        return None

    def find_module(self, sub, name, date):
        return self.reg_get(sub, name + "@" + date if date else name) or self.reg_get(sub, name)

    def find(self, sub, name):
        return self.reg_get(sub, name)

    def in_maps(self, m):
        """m is a value of ms.Modules / ms.SubModules (a module without revision statement loses its only key,
        the bare name, to a loaded revision of the same name)"""
        return self.reg_get(m.sub, m.name) is m or (m.rev != "" and self.reg_get(m.sub, full(m)) is m)

    def multi(self, m):
        """another revision of m is part of the schema"""
        return any(o is not m and o.sub == m.sub and o.name == m.name for o in self.mods)

    def owner_name(self, m):
        if m.sub:
            o = self.find(False, m.belongs)
            return o.name if o else m.name
        return m.name

    def key(self, m, idname):
        return self.owner_name(m) + ":" + idname

    def whole(self, root):
        """reference reading of wholeModule: root plus everything reachable through resolvable includes"""
        out, todo = [], [root]
        while todo:
            x = todo.pop(0)
            if any(y is x for y in out):
                continue
            out.append(x)
            for n, d in x.includes:
                s = self.find_module(True, n, d)
                if s is not None:
                    todo.append(s)
        return out

    def filing(self):
        """reference reading of the registration loop: dictionary key -> set of declarations (part, identity name)"""
        keys = []
        for m in self.mods:
            if not m.sub:
                keys.append(m.name)
                if m.rev:
                    keys.append(full(m))
        seen, files = [], {}
        for k in sorted(set(keys), key=lambda x: x.encode()):
            md = self.reg_get(False, k)
            if md is None or any(md is x for x in seen):
                continue
            seen.append(md)
            for m in self.whole(md):
                o = md
                if m.sub and m.belongs != md.name:
                    o = self.reg_get(False, m.belongs) or m
                for n, _ in m.idents:
                    files.setdefault(full(o) + ":" + n, set()).add((id(m), n))
        return files

    def visible_parts(self):
        out = []
        for m in self.mods:
            if not m.sub and self.in_maps(m):
                for p in self.whole(m):
                    if not any(p is q for q in out):
                        out.append(p)
        return out


def full(m):
    return m.name + "@" + m.rev if m.rev else m.name


def did(m, idname):
    """the name of a declaration: full name of the declaring (sub)module : identity name"""
    return full(m) + ":" + idname


def leaf_members(m, lf):
    """the identityref type statements behind leaf lf of (sub)module m, in order: (module the statement is in, base)"""
    if lf[1] == "ref":
        return [(m, lf[2])]
    if lf[1] == "td":
        return [(lf[3], lf[4])]
    out = []
    for mem in lf[2]:
        if mem[0] == "ref":
            out.append((m, mem[1]))
        elif mem[0] == "td":
            out.append((mem[2], mem[3]))
    return out


def leaf_text(lf):
    if lf[1] == "ref":
        return "type identityref { base %s; }" % lf[2]
    if lf[1] == "td":
        return "type %s;" % lf[2]
    ms = []
    for mem in lf[2]:
        ms.append("type identityref { base %s; }" % mem[1] if mem[0] == "ref" else "type %s;" % mem[1])
    return "type union { %s }" % " ".join(ms)


def local_only(m, lf):
    """the leaf without typedef indirection through other modules (None when nothing is left)"""
    if lf[1] == "ref":
        return lf
    if lf[1] == "td":
        return (lf[0], "ref", lf[4]) if lf[3] is m else None
    mems = [mem for mem in lf[2] if mem[0] != "td"]
    return (lf[0], "union", mems) if any(mem[0] == "ref" for mem in mems) else None


def ref_string(rnd, sc, src, target_part, idname, fresh_prefix=True):
    """a base argument, written inside (sub)module src, that names identity idname declared in target_part;
    adds an import to src when one is needed"""
    town = sc.owner_name(target_part)
    if town == sc.owner_name(src):
        return rnd.choice(["", src.prefix + ":"]) + idname
    firsts = {}
    for p, n, _ in src.imports:
        firsts.setdefault(p, n)
    for p, n in firsts.items():
        if n == town and p != src.prefix and p != "" and rnd.random() < 0.7:
            return p + ":" + idname
    used = {src.prefix} | {p for p, _, _ in src.imports}
    cand = [p for p in PREFIXES if p not in used]
    p = rnd.choice(cand) if cand else "zz%d" % len(src.imports)
    src.imports.append((p, town, ""))
    return p + ":" + idname


def choose_auto(rnd, sc):
    """family 'auto-loaded': some modules stay explicitly parsed; of the parts Process reaches from them through
    import and include statements (loading what is missing from the search path) a subset is only put on the path"""
    modules = [m for m in sc.mods if not m.sub and sc.in_maps(m)]
    roots = rnd.sample(modules, rnd.randint(1, len(modules)))
    reach, todo = [], list(roots)
    while todo:
        x = todo.pop()
        if any(x is y for y in reach):
            continue
        reach.append(x)
        for _, n, d in x.imports:
            t = sc.find_module(False, n, d)
            if t is not None:
                todo.append(t)
        for n, d in x.includes:
            t = sc.find_module(True, n, d)
            if t is not None:
                todo.append(t)
    # (of a name with several revisions Process would fetch one only: such parts stay parsed)
    cand = [m for m in reach if not any(m is r for r in roots) and not sc.multi(m)]
    if not cand:
        return []
    return rnd.sample(cand, rnd.randint(1, len(cand)))


def consistent(sc):
    """no two identity statements are filed under the same dictionary key, none is declared twice in one part,
    no two parts share a full name"""
    if any(len(v) > 1 for v in sc.filing().values()):
        return False
    if any(len({n for n, _ in p.idents}) != len(p.idents) for p in sc.mods):
        return False
    return len({full(p) for p in sc.mods}) == len(sc.mods)


def gen_schema(rnd):
    while True:
        sc = gen_schema1(rnd)
        if sc.variant == "clean" and rnd.random() < 0.45:
            revisionize(rnd, sc)
        elif rnd.random() < 0.5:
            date_some(rnd, sc)
        old_revisions(rnd, sc)
        rnd.shuffle(sc.mods)
        vis = sc.visible_parts()
        for m in sc.mods:      # see gen_schema1: what Modules.include never visits keeps its includes unresolved
            if m.sub and not any(m is q for q in vis):
                m.includes = []
        if consistent(sc):
            sc.auto = choose_auto(rnd, sc) if rnd.random() < 0.7 else []
            # parsed only after a first Process: submodules, and revisions of a module of which another is there
            subs = [m for m in sc.mods if m.sub or sc.multi(m)]
            sc.late = rnd.sample(subs, rnd.randint(1, len(subs))) if subs and rnd.random() < 0.7 else []
            return sc


def date_some(rnd, sc):
    """revision statements on some parts; imports / includes of them with a revision-date (the loaded one, or one
    that is not loaded: FindModule then falls back to the bare name)"""
    for m in sc.mods:
        if rnd.random() < 0.5:
            m.rev = rnd.choice(DATES)
    pin_some(rnd, sc)


OLD_DATES = ["2001-01-01", "2010-05-05", "2015-07-07", "2018-06-01"]


def old_revisions(rnd, sc):
    """several revision statements per module in arbitrary order (the newest mostly not first)"""
    for m in sc.mods:
        if m.rev and rnd.random() < 0.6:
            older = rnd.sample(OLD_DATES, rnd.choice([1, 1, 2, 3]))
            if rnd.random() < 0.8:
                rnd.shuffle(older)
                m.revs = older[:1] + sorted(older[1:] + [m.rev], key=lambda _: rnd.random())
            else:
                m.revs = [m.rev] + older


def pin_some(rnd, sc):
    for m in sc.mods:
        for lst, sub in ((m.imports, False), (m.includes, True)):
            for j, it in enumerate(lst):
                name = it[-2]
                revs = [o.rev for o in sc.mods if o.sub == sub and o.name == name and o.rev]
                r = rnd.random()
                date = rnd.choice(revs) if revs and r < 0.45 else "1999-09-09" if r < 0.55 else ""
                lst[j] = it[:-1] + (date,)


def revisionize(rnd, sc):
    """two or three loaded revisions of one module (and sometimes of a submodule): the same and different identities
    in each, derived identities in each, submodules included by one or several of them, imports of them from other
    modules with and without revision-date"""
    sc.variant = "rev"
    sc.edges = None
    for m in sc.mods:      # typedef indirection off (cf. the free-form variant)
        m.leaves = [local_only(m, lf) for lf in m.leaves]
        m.leaves = [lf for lf in m.leaves if lf is not None]
        m.typedefs = []
    date_some(rnd, sc)
    modules = [m for m in sc.mods if not m.sub]
    subs = [m for m in sc.mods if m.sub]
    nleaf = [0]

    def clone(src, k):
        dates = [d for d in DATES + [""] if d != src.rev and d not in [o.rev for o in sc.mods if o.sub == src.sub and o.name == src.name]]
        c = Mod(src.name, src.sub, src.prefix if rnd.random() < 0.7 else rnd.choice(PREFIXES), src.belongs, rnd.choice(dates))
        c.imports = list(src.imports)
        c.includes = [i for i in src.includes if rnd.random() < 0.75]
        c.idents = [[n, list(b)] for n, b in src.idents if rnd.random() < 0.8]
        names = [n for n, _ in c.idents]
        for _ in range(rnd.choice([0, 1, 1, 2])):
            fresh = [n for n in IDNAMES if n not in names]
            if not fresh:
                break
            n = rnd.choice(fresh)
            bases = [rnd.choice(["", c.prefix + ":"]) + b for b in rnd.sample(names, min(len(names), rnd.choice([0, 1, 1, 2])))]
            c.idents.append([n, bases])
            names.append(n)
        for lf in src.leaves:
            nleaf[0] += 1
            c.leaves.append(("%sr%d" % (lf[0], nleaf[0]),) + tuple(lf[1:]))
        # the same prefix bound to another module than in the other revision(s)
        others = [o for o in modules if o.name != src.name]
        if not src.sub and others and c.imports and rnd.random() < 0.8:
            j = rnd.randrange(len(c.imports))
            p, _n, _d = c.imports[j]
            tgt = rnd.choice(others)
            c.imports[j] = (p, tgt.name, "")
            avail = [n for part in sc.whole(sc.reg_get(False, tgt.name) or tgt) for n, _ in part.idents]
            ok = lambda b: not b.startswith(p + ":") or b.split(":", 1)[1] in avail
            for ident in c.idents:
                ident[1] = [b for b in ident[1] if ok(b)]
            c.leaves = [lf for lf in c.leaves if all(ok(b) for _, b in leaf_members(c, lf))]
            fresh = [n for n in IDNAMES if n not in [x for x, _ in c.idents]]
            if avail and fresh:
                b = p + ":" + rnd.choice(avail)
                c.idents.append([rnd.choice(fresh), [b]])
                nleaf[0] += 1
                c.leaves.append(("lp%d" % nleaf[0], "ref", b))
        return c
    target = rnd.choice(modules)
    for k in range(rnd.choice([1, 1, 2])):
        sc.mods.append(clone(target, k))
    if subs and rnd.random() < 0.35:
        sc.mods.append(clone(rnd.choice(subs), 0))
    pin_some(rnd, sc)
    # identityref typedefs in another module over identities of the latest revision, reached through an import
    # without revision-date: leaves typed by the typedef directly, through a second typedef, as a union member
    users = [m for m in modules if m.name != target.name]
    latest = sc.reg_get(False, target.name)
    avail = [n for n, _ in latest.idents]
    if users and avail and rnd.random() < 0.6:
        u = rnd.choice(users)
        free = [p for p, n, d in u.imports if n == target.name and d == "" and p != u.prefix and
                [q for q, _, _ in u.imports].index(p) == u.imports.index((p, n, d))]
        if free:
            p = free[0]
        else:
            used = {u.prefix} | {q for q, _, _ in u.imports}
            p = rnd.choice([q for q in PREFIXES + ["zq"] if q not in used])
            u.imports.append((p, target.name, ""))
        base = p + ":" + rnd.choice(avail)
        nleaf[0] += 1
        k = nleaf[0]
        u.typedefs.append(("tr%d" % k, base))
        u.aliases.append(("ta%d" % k, "tr%d" % k))
        u.leaves.append(("lt%d" % k, "td", "tr%d" % k, u, base))
        u.leaves.append(("lu%d" % k, "td", "ta%d" % k, u, base))
        u.leaves.append(("lv%d" % k, "union", [("plain", "string"), ("td", "tr%d" % k, u, base)]))


def gen_schema1(rnd):
    sc = Schema()
    nmod = rnd.choice([1, 1, 2, 2, 2, 3])
    nsub = rnd.choice([0, 0, 1, 1, 2, 2, 3])
    names = rnd.sample(NAMES, nmod)
    for n in names:
        sc.mods.append(Mod(n, False, rnd.choice(PREFIXES)))
    # (a submodule named like a module trips ToEntry's include-cycle test, which goes by name: not an identity matter)
    subnames = rnd.sample([n for n in NAMES if n not in names], nsub)
    modules = list(sc.mods)
    subs = []
    for n in subnames:
        o = rnd.choice(modules)
        s = Mod(n, True, rnd.choice(PREFIXES + [o.prefix] * 4), o.name)
        subs.append(s)
        sc.mods.append(s)
    # includes: a DAG among the submodules of one module; the module includes some of them
    for o in modules:
        mine = [s for s in subs if s.belongs == o.name]
        rnd.shuffle(mine)
        for i, s in enumerate(mine):
            for t in mine[i + 1:]:
                if rnd.random() < 0.5:
                    s.includes.append((t.name, ""))
        for i, s in enumerate(mine):
            nested = any(s.name in [n for n, _ in t.includes] for t in mine)
            if rnd.random() < (0.35 if nested else 0.9):
                o.includes.append((s.name, ""))
    # a submodule that nobody includes is never visited by Modules.include: its own include statements stay
    # unresolved, which ToEntry reports (not an identity matter) -- give it none
    reach = sc.visible_parts()
    for s in subs:
        if not any(s is q for q in reach):
            s.includes = []
    rnd.shuffle(sc.mods)
    # identities
    nid = rnd.choice([0, 1, 2, 3, 4, 5, 6, 7, 8, 9, 10, 11, 12, 12])
    used = set()
    allids = []   # (part, name)
    for _ in range(nid):
        part = rnd.choice(sc.mods)
        for _try in range(20):
            nm = rnd.choice(IDNAMES[:5] if rnd.random() < 0.6 else IDNAMES)
            if sc.key(part, nm) not in used:
                break
        else:
            continue
        used.add(sc.key(part, nm))
        part.idents.append([nm, []])
        allids.append((part, nm))
    vis = sc.visible_parts()
    visible = [(p, n) for p, n in allids if any(p is q for q in vis)]
    order = list(visible)
    rnd.shuffle(order)
    edges = []
    dense = rnd.choice([0.15, 0.3, 0.5, 0.8])
    for j, (part, nm) in enumerate(order):
        ident = [i for i in part.idents if i[0] == nm][0]
        for (bp, bn) in order[:j]:
            if rnd.random() < dense / (1 + 0.15 * j):
                s = ref_string(rnd, sc, part, bp, bn)
                ident[1].append(s)
                edges.append(((part, nm), (bp, bn)))
                if rnd.random() < 0.08:
                    ident[1].append(s if rnd.random() < 0.5 else ref_string(rnd, sc, part, bp, bn))
        rnd.shuffle(ident[1])
    sc.edges = edges
    # identityref leaves and typedefs
    base_of = {}
    if visible:
        for li in range(rnd.choice([0, 1, 1, 2, 3])):
            holder = rnd.choice(vis) if rnd.random() < 0.9 else rnd.choice(sc.mods)
            bp, bn = rnd.choice(visible)
            base_of["l%d" % li] = (bp, bn)
            r_kind = rnd.random()
            if r_kind < 0.3:
                # a union of identityref members (directly, through typedefs), bases preferably of one bare name
                mems = []
                for j in range(rnd.choice([2, 2, 3])):
                    same = [(q, n) for q, n in visible if n == bn and not any(q is x and n == y for x, y in [(bp, bn)])]
                    tp, tn = (bp, bn) if j == 0 else rnd.choice(same) if same and rnd.random() < 0.7 else rnd.choice(visible)
                    k = rnd.random()
                    if k < 0.55:
                        mems.append(("ref", ref_string(rnd, sc, holder, tp, tn)))
                    elif k < 0.9:
                        tpart = rnd.choice(vis)
                        tname = "t%d_%d" % (li, j)
                        tbase = ref_string(rnd, sc, tpart, tp, tn)
                        tpart.typedefs.append((tname, tbase))
                        mems.append(("td", ref_string(rnd, sc, holder, tpart, tname), tpart, tbase))
                    else:
                        mems.append(("plain", "string"))
                if any(mem[0] != "plain" for mem in mems):
                    holder.leaves.append(("l%d" % li, "union", mems))
                    base_of.pop("l%d" % li, None)
            elif r_kind < 0.75:
                holder.leaves.append(("l%d" % li, "ref", ref_string(rnd, sc, holder, bp, bn)))
            else:
                # typedef in some visible part; the leaf uses it (with an import when it lives elsewhere)
                tpart = rnd.choice(vis)
                tname = "t%d" % li
                tbase = ref_string(rnd, sc, tpart, bp, bn)
                tpart.typedefs.append((tname, tbase))
                tref = ref_string(rnd, sc, holder, tpart, tname)
                holder.leaves.append(("l%d" % li, "td", tref, tpart, tbase))
    # variants
    r = rnd.random()
    if r < 0.55 or not visible:
        sc.variant = "clean"
    elif r < 0.70:
        sc.variant = "cyclic"
        sc.edges = None
        desc = {}
        for (cp_, cn_), (bp_, bn_) in edges:
            desc.setdefault(sc.key(bp_, bn_), set()).add(sc.key(cp_, cn_))

        def closure(k):
            seen, todo = set(), [k]
            while todo:
                x = todo.pop()
                for y in desc.get(x, ()):
                    if y not in seen:
                        seen.add(y)
                        todo.append(y)
            return seen
        bp, bn = rnd.choice(visible)
        below = [(p, n) for p, n in visible if sc.key(p, n) in closure(sc.key(bp, bn))]
        cp, cn = rnd.choice(below) if below and rnd.random() < 0.8 else (bp, bn)
        # make (bp,bn) derive from (cp,cn), which derives from it already (or is it)
        ident = [i for i in bp.idents if i[0] == bn][0]
        ident[1].insert(rnd.randint(0, len(ident[1])), ref_string(rnd, sc, bp, cp, cn))
    elif r < 0.85:
        sc.variant = "dangling"
        sc.edges = None
        part, nm = rnd.choice(visible)
        ident = [i for i in part.idents if i[0] == nm][0]
        k = rnd.random()
        if k < 0.3:
            s = "nosuch"
        elif k < 0.5:
            s = part.prefix + ":nosuch"
        elif k < 0.7:
            s = "zq:" + rnd.choice(IDNAMES)
        elif k < 0.85 and part.imports:
            s = rnd.choice(part.imports)[0] + ":nosuch"
        else:
            part.imports.append(("gh", "ghost", ""))
            s = "gh:x"
        ident[1].insert(rnd.randint(0, len(ident[1])), s)
    else:
        sc.variant = "free"
        sc.edges = None
        # the mutations below can break the lookup of a typedef (not an identity matter): read the base directly
        for m in sc.mods:
            m.leaves = [(lf[0], "ref", ref_string(rnd, sc, m, *base_of[lf[0]])) if lf[1] == "td" else local_only(m, lf)
                        for lf in m.leaves]
            m.leaves = [lf for lf in m.leaves if lf is not None]
            m.typedefs = []
        for _ in range(rnd.choice([1, 2, 3])):
            k = rnd.random()
            part = rnd.choice(sc.mods)
            if k < 0.25:
                # second import with a prefix already used (first match wins), or the module's own prefix
                tgt = rnd.choice([m.name for m in sc.mods if not m.sub])
                p = rnd.choice([part.prefix] + [q for q, _, _ in part.imports] + PREFIXES[:3])
                part.imports.insert(rnd.randint(0, len(part.imports)), (p, tgt, ""))
            elif k < 0.75 and allids:
                ip, inm = rnd.choice(allids)
                ident = [i for i in ip.idents if i[0] == inm][0]
                pf = rnd.choice(["", ip.prefix + ":"] + [q + ":" for q, _, _ in ip.imports] + [rnd.choice(PREFIXES) + ":"])
                ident[1].append(pf + rnd.choice(IDNAMES[:6]))
            elif k < 0.85 and subs:
                s = rnd.choice(subs)
                s.belongs = rnd.choice(["ghost"] + [m.name for m in sc.mods if not m.sub])
            elif k < 0.95 and subs:
                # a submodule included by somebody else as well (possibly by a module it does not belong to)
                rnd.choice(modules).includes.append((rnd.choice(subs).name, ""))
            else:
                rnd.choice(sc.visible_parts()).includes.append(("ghostsub", ""))
    return sc


# ------------------------------------------------------------------ renderings

def yang_text(m):
    out = []
    if m.sub:
        out.append("submodule %s {" % m.name)
        out.append("  belongs-to %s { prefix %s; }" % (m.belongs, m.prefix))
    else:
        out.append("module %s {" % m.name)
        out.append('  namespace "urn:%s";' % m.name)
        out.append("  prefix %s;" % m.prefix)
    for p, n, d in m.imports:
        out.append("  import %s { prefix %s;%s }" % (n, p, " revision-date %s;" % d if d else ""))
    for n, d in m.includes:
        out.append("  include %s%s" % (n, " { revision-date %s; }" % d if d else ";"))
    for r in (m.revs if m.rev and m.revs else [m.rev] if m.rev else []):
        out.append("  revision %s;" % r)
    for n, bases in m.idents:
        if bases:
            out.append("  identity %s { %s }" % (n, " ".join("base %s;" % b for b in bases)))
        else:
            out.append("  identity %s;" % n)
    for t in m.typedefs:
        out.append("  typedef %s { type identityref { base %s; } }" % t)
    for t in m.aliases:
        out.append("  typedef %s { type %s; }" % t)
    for lf in m.leaves:
        out.append("  leaf %s { %s }" % (lf[0], leaf_text(lf)))
    out.append("}")
    return "\n".join(out) + "\n"


def go_line(sc, auto=False, late=False):
    """auto: the parts in sc.auto are put on the search path (op D) instead of being parsed (op L); Process
    loads them itself when an import or include statement names them.
    late: the submodules in sc.late are parsed only after a first Process; the dump compared is that of a second
    Process (the harness dumps after every P; the last dump is read)"""
    on_path = sc.auto if auto else []
    held = sc.late if late else []
    ops = ["D%d" % i for i, m in enumerate(sc.mods) if any(m is a for a in on_path)] + \
          ["L%d" % i for i, m in enumerate(sc.mods) if not any(m is a for a in on_path + held)]
    if held:
        ops += ["P"] + ["L%d" % i for i, m in enumerate(sc.mods) if any(m is a for a in held)]
    toks = ["idproc", ",".join(ops + ["P"]), str(len(sc.mods))]
    for m in sc.mods:
        toks += [hx(m.name + ".yang"), hx(yang_text(m))]
    return " ".join(toks)


def refs_of(sc):
    """the leaves with identityref types: (leaf, is union, member kinds, [(sub, full name of the module of the type
    statement, base string) per identityref member]); member kinds: True = identityref, else the plain type"""
    out = []
    for m in sc.mods:
        if not sc.in_maps(m):
            continue       # never converted to an Entry tree
        for lf in m.leaves:
            mems = [(c.sub, full(c), b) for c, b in leaf_members(m, lf)]
            kinds = [True] if lf[1] != "union" else [True if mem[0] != "plain" else mem[1] for mem in lf[2]]
            out.append((lf[0], lf[1] == "union", kinds, mems))
    return out


def ml_line(sc, oracles):
    toks = ["idres"] + [str(o) for o in oracles] + [str(len(sc.mods))]
    for m in sc.mods:
        toks += [hx(m.name), "1" if m.sub else "0", hx(m.rev), hx(m.prefix), hx(m.belongs), str(len(m.imports))]
        for p, n, d in m.imports:
            toks += [hx(p), hx(n), hx(d)]
        toks.append(str(len(m.includes)))
        for n, d in m.includes:
            toks += [hx(n), hx(d)]
        toks.append(str(len(m.idents)))
        for n, bases in m.idents:
            toks += [hx(n), str(len(bases))] + [hx(b) for b in bases]
    refs = [mem for r in refs_of(sc) for mem in r[3]]
    toks.append(str(len(refs)))
    for sub, mn, b in refs:
        toks += ["1" if sub else "0", hx(mn), hx(b)]
    return " ".join(toks)


# ------------------------------------------------------------------ observations

def unhex(h):
    return "" if h == "-" else bytes.fromhex(h).decode()


def parse_ml(line):
    """-> ('err'|'fuel'|'bad:..', None, None) or ('ok', {declaration: [values]}, [base declarations])
    (the model prints, per dictionary key, the declaration filed there and its Values)"""
    if not line.startswith("ok"):
        return (line if line in ("err", "fuel") else "bad:" + line[:80]), None, None
    left, right = line[2:].split("|")
    vals = {}
    for t in left.split():
        _k, dc, v = t.split("=")
        v = [unhex(x) for x in v.split(",")] if v else []
        if vals.setdefault(unhex(dc), v) != v:
            return "bad:one declaration with two lists", None, None
    return "ok", vals, [unhex(x) for x in right.split()]


def conv_decl(gd):
    """the harness names a declaration '<M|S>/<full name>:<identity>'"""
    return gd.split("/", 1)[1]


def parse_go(sc, line):
    """-> ('err'|'ok'|'broken:..', {declaration: [values]}, {leaf: [[base, [values]], ..]})"""
    if not line.startswith("{"):
        return "broken:" + line[:200], None, None
    o = json.loads(line)
    if "err" in o["loads"]:
        return "broken:parse-failed", None, None
    if o["errors"]:
        return "err", None, None
    vals, leaves = {}, {}
    for i in o["ids"]:
        dc = conv_decl(i["decl"])
        if dc in vals:
            return "broken:two declarations named " + dc, None, None
        vals[dc] = [conv_decl(v) for v in i["values"]]
    for lf in o["leaves"]:
        # (a submodule included by two modules is merged into the tree of only one of them, which one depends
        # on map order -- C05/C13 matter: only the distinct observations of a leaf are kept)
        def member(x):
            if x["base"] == "<nil>":
                return [None, []]
            if x["base"].startswith("-"):
                return [x["base"], []]
            return [conv_decl(x["base"]), [conv_decl(v) for v in x["values"]]]
        ob = ["union", [member(u) for u in lf.get("union") or []]] if lf["base"] == "-union" else member(lf)
        if ob not in leaves.setdefault(lf["name"], []):
            leaves[lf["name"]].append(ob)
    for n in leaves:
        leaves[n].sort(key=json.dumps)
    return "ok", vals, leaves


def expected(sc):
    """for a schema whose derivation graph is known: declaration -> sorted list of derived declarations"""
    keys = {}
    for p in sc.visible_parts():
        for n, _ in p.idents:
            keys[did(p, n)] = (n, sc.owner_name(p) + ":" + n, full(p))
    kids = {}
    for (cp, cn), (bp, bn) in sc.edges:
        kids.setdefault(did(bp, bn), set()).add(did(cp, cn))
    exp = {}
    for k in keys:
        seen, todo = set(), [k]
        while todo:
            x = todo.pop()
            for y in kids.get(x, ()):
                if y not in seen:
                    seen.add(y)
                    todo.append(y)
        exp[k] = sorted(seen, key=lambda y: tuple(f.encode() for f in keys[y]))
    return exp


def judge(sc, go3, mls, auto=None, late=None):
    """returns None or a description of the disagreement"""
    why = judge_explicit(sc, go3, mls)
    if why:
        return why
    g = parse_go(sc, go3[0])
    for other, what in ((auto, "%s are loaded by Process from the search path" % [m.name for m in sc.auto]),
                        (late, "%s are parsed between a first and a second Process" % [full(m) for m in sc.late])):
        if other is None:
            continue
        a = parse_go(sc, other)
        if a[0].startswith("broken"):
            return "when %s: implementation crashed, did not finish, or the harness is broken: %s" % (what, a[0][7:])
        if a[0] != g[0]:
            return "error presence differs when %s: %s, all parsed before one Process: %s" % (what, a[0], g[0])
        if json.dumps(a, sort_keys=True) != json.dumps(g, sort_keys=True):
            return "Values / identityref bases differ when %s: %s, all parsed before one Process: %s" % (what, a[1:], g[1:])
    return None


def judge_explicit(sc, go3, mls):
    gos = [parse_go(sc, g) for g in go3]
    for g in gos:
        if g[0].startswith("broken"):
            return "implementation crashed, did not finish, or the harness is broken: " + g[0][7:]
    if len({json.dumps(g, sort_keys=True) for g in gos}) != 1:
        return "implementation output differs between runs of the same schema (map order leaks)"
    g = gos[0]
    ms = [parse_ml(m) for m in mls]
    for m in ms:
        if m[0] not in ("ok", "err"):
            return "model: " + m[0]
    if len({json.dumps(m, sort_keys=True) for m in ms}) != 1:
        return "model output depends on the iteration oracle"
    m = ms[0]
    if g[0] != m[0]:
        return "error presence: impl=%s model=%s" % (g[0], m[0])
    if sc.variant == "clean" and g[0] != "ok":
        return "generator: a clean schema is rejected"
    if sc.variant in ("cyclic", "dangling") and g[0] != "err":
        return "a %s schema is accepted" % sc.variant
    if g[0] != "ok":
        return None
    gvals, gleaves = g[1], g[2]
    mvals, mbases = m[1], m[2]
    for k, v in mvals.items():
        if k not in gvals:
            return "identity %s of the model's dictionary is not declared in the implementation's dump" % k
        if gvals[k] != v:
            return "Values of %s: impl=%s model=%s" % (k, gvals[k], v)
    for k, v in gvals.items():
        if k not in mvals and v:
            return "identity %s, which is not in the model's dictionary, has Values %s" % (k, v)
    at = 0
    for leaf, is_union, kinds, mems in refs_of(sc):
        bks = mbases[at:at + len(mems)]
        at += len(mems)
        if is_union:
            # Type.resolve drops a member type that equals an earlier one: identityref members are equal exactly
            # when they point at the same identity
            want, it = [], iter(bks)
            for kd in kinds:
                ob = [next(it), None] if kd is True else ["-" + kd, []]
                if ob[1] is None:
                    ob[1] = mvals.get(ob[0])
                if ob not in want:
                    want.append(ob)
            want = [["union", want]]
        else:
            want = [[bks[0], mvals.get(bks[0])]]
        if leaf not in gleaves:
            return "identityref leaf %s not found in the dump" % leaf
        if gleaves[leaf] != want:
            return "identityref leaf %s: impl=%s, the model's bases and lists give %s" % (leaf, gleaves[leaf], want)
    if sc.edges is not None:
        exp = expected(sc)
        if exp != {k: v for k, v in gvals.items() if k in exp} or set(exp) != set(mvals):
            return "implementation differs from the expected closure: expected=%s impl=%s" % (exp, gvals)
    return None


# ------------------------------------------------------------------ fixed cases

def fixed_schemas():
    out = []

    def mk(variant, *mods):
        sc = Schema()
        sc.mods = list(mods)
        sc.variant = variant
        return sc
    # diamond over two modules and a nested include
    a = Mod("a", False, "pa")
    s1 = Mod("s1", True, "pa", "a")
    s2 = Mod("s2", True, "zz", "a")
    a.includes = [("s1", "")]
    s1.includes = [("s2", "")]
    a.idents = [["top", []], ["l", ["top"]]]
    s1.idents = [["r", ["pa:top"]]]
    s2.idents = [["bot", ["zz:l", "r"]]]
    b = Mod("b", False, "pb")
    b.imports = [("x", "a", "")]
    b.idents = [["bot", ["x:bot"]], ["l", ["x:top"]]]
    b.leaves = [("l0", "ref", "x:top")]
    sc = mk("clean", a, s1, s2, b)
    sc.edges = [((a, "l"), (a, "top")), ((s1, "r"), (a, "top")), ((s2, "bot"), (a, "l")), ((s2, "bot"), (s1, "r")),
                ((b, "bot"), (s2, "bot")), ((b, "l"), (a, "top"))]
    sc.late = [s1, s2]
    out.append(sc)
    # the module is processed before the submodule it includes is parsed; then again
    m = Mod("m", False, "m")
    sub = Mod("sub", True, "m", "m")
    m.includes = [("sub", "")]
    m.idents = [["root", []], ["kid", ["root"]], ["grandkid", ["kid"]], ["uses-sub", ["sub-root"]]]
    m.leaves = [("l0", "ref", "root")]
    sub.idents = [["sub-root", []], ["from-sub", ["sub-root"]], ["kid2", ["m:root"]]]
    sc = mk("clean", m, sub)
    sc.edges = [((m, "kid"), (m, "root")), ((m, "grandkid"), (m, "kid")), ((m, "uses-sub"), (sub, "sub-root")),
                ((sub, "from-sub"), (sub, "sub-root")), ((sub, "kid2"), (m, "root"))]
    sc.late = [sub]
    out.append(sc)
    # a parsed module derives from, and refers to, identities of a module only Process loads; and a chain of two
    root = Mod("root", False, "r")
    root.idents = [["ROOT", []], ["INNER", ["ROOT"]]]
    mid = Mod("mid", False, "m")
    mid.imports = [("rt", "root", "")]
    mid.idents = [["MID", ["rt:ROOT"]]]
    top = Mod("top", False, "t")
    top.imports = [("root", "root", "")]
    top.idents = [["LOCAL", ["root:ROOT"]], ["LOCAL2", ["LOCAL"]]]
    top.leaves = [("l0", "ref", "root:ROOT")]
    sc = mk("clean", root, top)
    sc.edges = [((root, "INNER"), (root, "ROOT")), ((top, "LOCAL"), (root, "ROOT")), ((top, "LOCAL2"), (top, "LOCAL"))]
    sc.auto = [root]
    out.append(sc)
    top2 = Mod("top2", False, "t2")
    top2.imports = [("mid", "mid", "")]
    sc = mk("clean", root, mid, top2)
    sc.edges = [((root, "INNER"), (root, "ROOT")), ((mid, "MID"), (root, "ROOT"))]
    sc.auto = [root, mid]
    out.append(sc)
    # self base, two-cycle, cycle through two modules
    m = Mod("a", False, "p")
    m.idents = [["x", ["x"]]]
    out.append(mk("cyclic", m))
    m = Mod("a", False, "p")
    m.idents = [["x", ["y"]], ["y", ["p:x"]], ["z", ["x"]]]
    out.append(mk("cyclic", m))
    m = Mod("a", False, "p")
    n = Mod("b", False, "p")
    m.imports = [("q", "b", "")]
    n.imports = [("q", "a", "")]
    m.idents = [["x", ["q:x"]]]
    n.idents = [["x", ["q:x"]]]
    out.append(mk("cyclic", m, n))
    # dangling: undefined local, undefined remote, unknown prefix, identity of a submodule nobody includes
    for bases in (["nosuch"], ["q:nosuch"], ["zz:x"]):
        m = Mod("a", False, "p")
        n = Mod("b", False, "p")
        m.imports = [("q", "b", "")]
        m.idents = [["x", bases]]
        n.idents = [["x", []]]
        out.append(mk("dangling", m, n))
    m = Mod("a", False, "p")
    s = Mod("s", True, "p", "a")
    s.idents = [["y", []]]
    m.idents = [["x", ["y"]]]
    out.append(mk("dangling", m, s))
    # two loaded revisions of one module define the same and different identities; an import without
    # revision-date sees the latest, one with revision-date that revision; a submodule included by both
    for with_sub in (False, True):
        m0 = Mod("m", False, "m", rev="2020-01-01")
        m1 = Mod("m", False, "mm", rev="2021-06-15")
        m0.idents = [["b", []], ["c", ["b"]], ["only0", ["m:c"]]]
        m1.idents = [["b", []], ["d", ["b"]], ["c", ["mm:d"]]]
        m0.leaves = [("l0", "ref", "b")]
        m1.leaves = [("l1", "ref", "mm:b")]
        u = Mod("u", False, "u")
        u.imports = [("new", "m", ""), ("old", "m", "2020-01-01"), ("gone", "m", "1999-09-09")]
        u.idents = [["un", ["new:b"]], ["uo", ["old:b", "old:c"]], ["ug", ["gone:d"]], ["b", ["new:c"]]]
        u.leaves = [("l2", "ref", "old:b"), ("l3", "ref", "new:b")]
        mods = [m1, u, m0]
        if with_sub:
            s = Mod("s", True, "m", "m", rev="2019-03-09")
            s.idents = [["x", ["b"]], ["y", ["m:x", "c"]]]
            s.leaves = [("l4", "ref", "b")]
            m0.includes = [("s", "")]
            m1.includes = [("s", "2019-03-09")]
            u.idents.append(["ux", ["old:x"]])
            mods.append(s)
        out.append(mk("rev", *mods))
    # revision statements written oldest first: the full name goes by the greatest date
    r1 = Mod("r", False, "r", rev="2020-09-01")
    r1.revs = ["2018-06-01", "2020-09-01"]
    r0 = Mod("r", False, "r", rev="2019-03-01")
    r1.idents = [["ROOT", []], ["new-kid", ["ROOT"]]]
    r0.idents = [["ROOT", []], ["old-kid", ["r:ROOT"]]]
    u = Mod("u", False, "u")
    u.imports = [("p", "r", ""), ("q", "r", "2019-03-01"), ("n", "r", "2020-09-01")]
    u.idents = [["d", ["p:ROOT"]], ["e", ["q:ROOT"]], ["f", ["n:ROOT"]]]
    u.leaves = [("l0", "ref", "p:ROOT"), ("l1", "ref", "q:ROOT")]
    out.append(mk("rev", r0, u, r1))
    # wholeModule: a submodule queued twice, followed by one with an include nobody else has
    m = Mod("m", False, "m")
    sa, sb, sd, se, sf = [Mod(n, True, "m", "m") for n in ("sa", "sb", "sd", "se", "sf")]
    m.includes = [("sa", ""), ("sb", "")]
    sa.includes = [("sd", "")]
    sb.includes = [("sd", ""), ("se", "")]
    se.includes = [("sf", "")]
    m.idents = [["ROOT", []]]
    for part in (sa, sb, sd, se, sf):
        part.idents = [["in-" + part.name, ["ROOT"]]]
    m.leaves = [("l0", "ref", "ROOT")]
    sc = mk("clean", m, sa, sb, sd, se, sf)
    sc.edges = [((part, "in-" + part.name), (m, "ROOT")) for part in (sa, sb, sd, se, sf)]
    out.append(sc)
    # two revisions of one module bind one prefix to different modules
    a = Mod("a", False, "a")
    b = Mod("b", False, "b")
    a.idents = [["foo", []], ["a1", ["foo"]]]
    b.idents = [["foo", []], ["b1", ["foo"]], ["b2", ["b:b1"]]]
    c0 = Mod("c", False, "c", rev="2020-01-01")
    c1 = Mod("c", False, "c", rev="2021-06-15")
    c0.imports = [("p", "a", "")]
    c1.imports = [("p", "b", "")]
    c0.idents = [["x", ["p:foo"]]]
    c1.idents = [["x", ["p:foo"]], ["y", ["p:b1"]]]
    c0.leaves = [("l0", "ref", "p:foo")]
    c1.leaves = [("l1", "ref", "p:foo")]
    out.append(mk("rev", c1, a, c0, b))
    # unions of identityref members whose bases have one bare name in different modules; typedef members
    a = Mod("a", False, "a")
    b = Mod("b", False, "b")
    a.idents = [["foo", []], ["a1", ["foo"]]]
    b.idents = [["foo", []], ["b1", ["foo"]], ["b2", ["b:foo"]]]
    a.typedefs = [("ta", "foo")]
    b.typedefs = [("tb", "b:foo")]
    c = Mod("c", False, "c")
    c.imports = [("pa", "a", ""), ("pb", "b", "")]
    c.idents = [["c1", ["pa:foo", "pb:foo"]]]
    c.leaves = [("u1", "union", [("ref", "pa:foo"), ("ref", "pb:foo")]),
                ("u2", "union", [("td", "pa:ta", a, "foo"), ("td", "pb:tb", b, "b:foo"), ("plain", "string")]),
                ("u3", "union", [("ref", "pb:foo"), ("td", "pb:tb", b, "b:foo"), ("plain", "string"), ("ref", "pa:foo")])]
    sc = mk("clean", a, b, c)
    sc.edges = [((a, "a1"), (a, "foo")), ((b, "b1"), (b, "foo")), ((b, "b2"), (b, "foo")), ((c, "c1"), (a, "foo")),
                ((c, "c1"), (b, "foo"))]
    out.append(sc)
    # a newer revision of a module whose identity is the base of an identityref typedef is parsed after a first Process
    b0 = Mod("b", False, "b", rev="2020-01-01")
    b1 = Mod("b", False, "b", rev="2021-06-15")
    b0.idents = [["foo", []]]
    b1.idents = [["foo", []], ["kid", ["foo"]]]
    t = Mod("t", False, "t")
    t.imports = [("b", "b", "")]
    t.idents = [["d", ["b:foo"]]]
    t.typedefs = [("ref", "b:foo")]
    t.aliases = [("ref2", "ref")]
    t.leaves = [("l0", "td", "ref", t, "b:foo"), ("l1", "td", "ref2", t, "b:foo"),
                ("l2", "union", [("td", "ref", t, "b:foo"), ("plain", "string")]), ("l3", "ref", "b:foo")]
    sc = mk("rev", b0, t, b1)
    sc.late = [b1]
    out.append(sc)
    return out


# ------------------------------------------------------------------ run

ORACLES = [(0, 0), (1, 1), (1, 3), (2, 0)]
GO_RUNS = 3


def go_runs(golines, tmp, timeout):
    """GO_RUNS runs of every case; a run that does not finish in time yields 'TIMEOUT' observations"""
    def one():
        try:
            return lib.run_go(golines, cwd=tmp, timeout=timeout)
        except subprocess.TimeoutExpired:
            return ["TIMEOUT"] * len(golines)
    go = [one() for _ in range(GO_RUNS)]

    # a fatal error (stack overflow) kills the harness process and loses the buffered output of its whole
    # shard: re-run what was lost in small shards, then the remaining few one per process, so that the
    # replay names a case that really crashes (bounded: crashing is slow)
    def lost_of(g):
        return [i for i, o in enumerate(g) if o.startswith("CRASH") or o == "NOT-RUN"]
    g = go[0]
    lost = lost_of(g)[:1500]
    try:
        if lost:
            again = lib.run_go([golines[i] for i in lost], cwd=tmp, shards=max(1, len(lost) // 8), timeout=300)
            for i, o in zip(lost, again):
                g[i] = o
            for i in lost_of(g)[:24]:
                g[i] = lib.run_go([golines[i]], cwd=tmp, shards=1, timeout=120)[0]
    except subprocess.TimeoutExpired:
        pass
    for g2 in go[1:]:          # what the other runs lost to a crash of a neighbour is not held against the case
        for i in lost_of(g2):
            g2[i] = g[i]
    return go


def run_all(schemas, timeout=900):
    golines = [go_line(sc) for sc in schemas]
    tmp = tempfile.mkdtemp(prefix="c11cwd")
    try:
        go = go_runs(golines, tmp, timeout)
    finally:
        shutil.rmtree(tmp, ignore_errors=True)
    mllines = [ml_line(sc, o) for sc in schemas for o in getattr(sc, "oracles", ORACLES)]
    ml = lib.run_ml(mllines)
    mls, at = [], 0
    for sc in schemas:
        k = len(getattr(sc, "oracles", ORACLES))
        mls.append(ml[at:at + k])
        at += k
    return [[g[i] for g in go] for i in range(len(schemas))], mls


def run_family(schemas, family, timeout=900):
    """the auto-loaded / late-submodule run of every schema that has one (None otherwise)"""
    idx = [i for i, sc in enumerate(schemas) if getattr(sc, family)]
    kw = {family: True}
    tmp = tempfile.mkdtemp(prefix="c11cwd")
    try:
        try:
            out = lib.run_go([go_line(schemas[i], **kw) for i in idx], cwd=tmp, timeout=timeout)
        except subprocess.TimeoutExpired:
            out = ["TIMEOUT"] * len(idx)
        for j, o in enumerate(out):     # see go_runs: find the case that really crashes
            if o.startswith("CRASH") or o == "NOT-RUN":
                try:
                    out[j] = lib.run_go([go_line(schemas[idx[j]], **kw)], cwd=tmp, shards=1, timeout=120)[0]
                except subprocess.TimeoutExpired:
                    out[j] = "TIMEOUT"
    finally:
        shutil.rmtree(tmp, ignore_errors=True)
    res = [None] * len(schemas)
    for i, o in zip(idx, out):
        res[i] = o
    return res


def gen_wide(rnd, n=None):
    """large derivation graphs with several bases per identity: ROOT, a few identities derived from it, and n
    identities each derived from several of those (so that the closure of ROOT reaches most of its members along
    more than one path), optionally with chains below; over one or two modules"""
    sc = Schema()
    a = Mod("w", False, "w")
    sc.mods = [a]
    parts = [a]
    if rnd.random() < 0.4:
        b = Mod("w2", False, "x")
        b.imports = [("w", "w", "")]
        sc.mods.append(b)
        parts.append(b)
    n = n if n is not None else rnd.choice([30, 31, 32, 33, 34, 40, 64, 100, rnd.randint(20, 70)])
    edges = []
    a.idents.append(["ROOT", []])
    decls = [(a, "ROOT")]
    mids = []
    for j in range(rnd.choice([2, 2, 3])):
        p = rnd.choice(parts)
        nm = "MID-%s" % "ABC"[j]
        p.idents.append([nm, [("w:" if p is not a or rnd.random() < 0.5 else "") + "ROOT"]])
        edges.append(((p, nm), (a, "ROOT")))
        mids.append((p, nm))

    def ref(src, tp, tn):
        if tp is src:
            return rnd.choice(["", src.prefix + ":"]) + tn
        return "w:" + tn        # only w2 refers to w
    names = ["n%03d" % i for i in range(n)]
    rnd.shuffle(names)
    kids = []
    for nm in names:
        p = rnd.choice(parts)
        cand = [m for m in mids if m[0] is p or m[0] is a]
        bases = rnd.sample(cand, min(len(cand), rnd.choice([2, 2, 2, 3, 1])))
        p.idents.append([nm, [ref(p, bp, bn) for bp, bn in bases]])
        edges += [((p, nm), bb) for bb in bases]
        kids.append((p, nm))
    # deep and wide: chains and diamonds below some of them
    for i in range(rnd.choice([0, 0, 3, 10])):
        p = rnd.choice(parts)
        cand = [k for k in kids if k[0] is p or k[0] is a]
        bases = rnd.sample(cand, min(len(cand), rnd.choice([1, 2, 2])))
        nm = "deep%d" % i
        p.idents.append([nm, [ref(p, bp, bn) for bp, bn in bases]])
        edges += [((p, nm), bb) for bb in bases]
        kids.append((p, nm))
    for p in parts:
        rnd.shuffle(p.idents)
    leaf_holder = rnd.choice(parts)
    leaf_holder.leaves.append(("lw", "ref", ref(leaf_holder, a, "ROOT")))
    sc.edges = edges
    sc.variant = "clean"
    rnd.shuffle(sc.mods)
    return sc


def gen_chain(rnd, length):
    """a derivation chain of the given length (plus a few side branches) winding through modules and submodules"""
    sc = Schema()
    mods = [Mod(n, False, p) for n, p in zip(rnd.sample(NAMES, rnd.choice([1, 2, 3])), rnd.sample(PREFIXES, 3))]
    sc.mods = list(mods)
    for n in rnd.sample([x for x in NAMES if x not in [m.name for m in mods]], rnd.choice([0, 1, 2])):
        o = rnd.choice(mods)
        s = Mod(n, True, o.prefix, o.name)
        o.includes.append((n, ""))
        sc.mods.append(s)
    names = ["c%03d" % i for i in range(length + 8)]
    rnd.shuffle(names)
    chain, edges = [], []
    for i in range(length):
        part = rnd.choice(sc.mods) if rnd.random() < 0.3 or not chain else chain[-1][0]
        ident = [names[i], []]
        part.idents.append(ident)
        if chain:
            ident[1].append(ref_string(rnd, sc, part, chain[-1][0], chain[-1][1]))
            edges.append(((part, names[i]), chain[-1]))
        chain.append((part, names[i]))
    for j in range(rnd.choice([0, 2, 8])):     # side branches, some with two bases
        part = rnd.choice(sc.mods)
        ident = [names[length + j], []]
        part.idents.append(ident)
        for bp, bn in rnd.sample(chain, rnd.choice([1, 2])):
            ident[1].append(ref_string(rnd, sc, part, bp, bn))
            edges.append(((part, ident[0]), (bp, bn)))
    for part in sc.mods:
        rnd.shuffle(part.idents)
    h = rnd.choice(sc.mods)
    h.leaves.append(("lc", "ref", ref_string(rnd, sc, h, chain[0][0], chain[0][1])))
    sc.edges = edges
    sc.variant = "clean"
    rnd.shuffle(sc.mods)
    if length > 150:
        sc.oracles = ORACLES[:1]       # (the model's sort looks every name up in the dictionary: quadratic-cubic)
    return sc


def gen_includes(rnd):
    """one module and 4-6 submodules whose include statements form a random DAG (diamonds, duplicates in
    wholeModule's queue followed by chains), identities in every submodule"""
    sc = Schema()
    names = rnd.sample(NAMES, rnd.choice([5, 6, 7]))
    m = Mod(names[0], False, rnd.choice(PREFIXES))
    subs = [Mod(n, True, rnd.choice([m.prefix, m.prefix, rnd.choice(PREFIXES)]), m.name) for n in names[1:]]
    dens = rnd.choice([0.25, 0.4, 0.6])
    for i, s in enumerate(subs):
        for t in subs[i + 1:]:
            if rnd.random() < dens:
                s.includes.append((t.name, ""))
        rnd.shuffle(s.includes)
    tops = [s for s in subs if rnd.random() < 0.4] or [subs[0]]
    m.includes = [(s.name, "") for s in tops]
    rnd.shuffle(m.includes)
    if len(subs) >= 5 and rnd.random() < 0.5:
        # planted: a submodule queued twice by wholeModule, the duplicate followed by one with an include of its own
        pa, pb, pd, pe, pf = subs[:5]
        extra = [inc for s in subs for inc in s.includes if rnd.random() < 0.15]
        for s in subs:
            s.includes = [inc for inc in s.includes if inc in extra]
        def add(x, y):
            if (y.name, "") not in x.includes:
                x.includes.append((y.name, ""))
        m.includes = [(pa.name, ""), (pb.name, "")] + [(s.name, "") for s in subs[5:] if rnd.random() < 0.3]
        add(pa, pd)
        add(pb, pd)
        add(pb, pe)
        add(pe, pf)
        if rnd.random() < 0.3:
            rnd.shuffle(pb.includes)
    sc.mods = [m] + subs
    vis = sc.visible_parts()
    for s in subs:
        if not any(s is q for q in vis):
            s.includes = []
    decls, edges = [], []
    for pi, part in enumerate([m] + subs):
        for k in range(rnd.choice([1, 1, 2])):
            nm = rnd.choice(["i%d-%d", "z%d-%d", "A%d.%d"]) % (pi, k)
            bases = []
            if any(part is q for q in vis):
                for bp, bn in rnd.sample(decls, min(len(decls), rnd.choice([0, 1, 1, 2]))):
                    if any(bp is q for q in vis):
                        bases.append(rnd.choice(["", part.prefix + ":"]) + bn)
                        edges.append(((part, nm), (bp, bn)))
            part.idents.append([nm, bases])
            decls.append((part, nm))
    if vis:
        h = rnd.choice(vis)
        bp, bn = rnd.choice([dd for dd in decls if any(dd[0] is q for q in vis)])
        h.leaves.append(("li", "ref", rnd.choice(["", h.prefix + ":"]) + bn))
    sc.edges = edges
    sc.variant = "clean"
    rnd.shuffle(sc.mods)
    sc.late = rnd.sample(subs, rnd.randint(1, len(subs))) if rnd.random() < 0.5 else []
    return sc


def gen(tier, seed):
    rnd = random.Random(seed)
    n = 4000 if tier == "quick" else 60000
    wide = [gen_wide(rnd, k) for k in (30, 31, 32, 33, 34, 40, 64, 100)] + \
           [gen_wide(rnd) for _ in range(30 if tier == "quick" else 300)]
    incl = [gen_includes(rnd) for _ in range(400 if tier == "quick" else 6000)]
    chains = [gen_chain(rnd, k) for k in ((60, 64, 65, 66, 67, 70, 100, 100, 100, 130, 160) if tier == "quick" else
                                          tuple(range(60, 71)) + (100,) * 6 + (130,) * 4 + (200, 200, 250))]
    return fixed_schemas() + wide + chains + incl + [gen_schema(rnd) for _ in range(n)]


def replay_of(sc):
    return dict(kind="correspondence", variant=sc.variant, go_case=go_line(sc),
                auto_case=go_line(sc, auto=True) if sc.auto else None, auto_parts=[m.name for m in sc.auto],
                late_case=go_line(sc, late=True) if sc.late else None, late_parts=[m.name for m in sc.late],
                ml_cases=[ml_line(sc, o) for o in getattr(sc, "oracles", ORACLES)],
                texts={full(m) + (".sub" if m.sub else "") + ".yang": yang_text(m) for m in sc.mods})


def run(res, tier, seed, proof):
    schemas = gen(tier, seed)
    go, ml = run_all(schemas, timeout=240 if tier == "quick" else 1500)
    auto = run_family(schemas, "auto", timeout=240 if tier == "quick" else 1500)
    late = run_family(schemas, "late", timeout=240 if tier == "quick" else 1500)
    hist = dict(auto_loaded=sum(1 for a in auto if a is not None), late_submodules=sum(1 for a in late if a is not None),
                rev=0, rev_accepted=0, clean=0, cyclic=0, dangling=0, free=0, accepted=0, rejected=0, with_submodule=0, with_leaf=0,
                max_values=0, identities=0)
    nontrivial = set()
    mism = 0
    for sc, g3, ms, au, la in zip(schemas, go, ml, auto, late):
        hist[sc.variant] += 1
        why = judge(sc, g3, ms, au, la)
        if why:
            mism += 1
            if mism <= 3:
                res.violation("C11 %s schema: %s" % (sc.variant, why), replay_of(sc))
            continue
        st, vals, _ = parse_ml(ms[0])
        hist["accepted" if st == "ok" else "rejected"] += 1
        hist["rev_accepted"] += (sc.variant == "rev" and st == "ok")
        hist["with_submodule"] += any(m.sub for m in sc.mods)
        hist["with_leaf"] += any(m.leaves for m in sc.mods)
        if st == "ok":
            hist["identities"] += len(vals)
            mv = max([len(v) for v in vals.values()] + [0])
            hist["max_values"] = max(hist["max_values"], mv)
            if mv >= 2:
                nontrivial.add(go_line(sc))
        else:
            nontrivial.add(go_line(sc))
    mid = len(schemas) // 2
    cov = dict(
        evaluations=len(schemas) * (GO_RUNS + len(ORACLES)) + hist["auto_loaded"] + hist["late_submodules"], schemas=len(schemas), distinct_nontrivial=len(nontrivial),
        rule="random schemas: 1-3 modules, 0-3 submodules (includes form a DAG, nested includes, submodules nobody "
             "includes), revision statements and revision-dates on imports/includes (loaded or not), 0-12 identities with equal names in different modules, several bases per identity (DAG, "
             "diamonds, repeated base statements), arbitrary and clashing prefixes, identityref leaves directly and "
             "through typedefs in other modules; variants: clean / derivation cycle added / unresolvable base added / "
             "free-form mutations (duplicate import prefixes, foreign includes, unloaded belongs-to, random bases) / rev: "
             "2-3 loaded revisions of one module (sometimes of a submodule too) with the same and different "
             "identities, submodules included by one or several revisions, pinned and unpinned imports -- no "
             "expectation, the model decides (rev_accepted counts the accepted ones); two more generators: wide "
             "derivation graphs (ROOT, 2-3 identities derived from it, 30..100 identities derived from several of "
             "those, chains below) and include graphs (one module, 4-6 submodules, random include DAG with diamonds "
             "and chains, identities in every submodule) and derivation chains of 60..160 (thorough: 250) identities winding "
             "through modules and submodules; several revision statements per module in arbitrary order; "
             "each schema: %d implementation runs, %d model runs with different iteration oracles; family auto-loaded: "
             "for most schemas one more implementation run in which a subset of the imported modules / included "
             "submodules is not parsed but put on the search path, so that Process loads it itself -- the result "
             "must equal the all-parsed run (and the model, which does not care how modules arrive); family late "
             "(history): a subset of the submodules and of the revisions of multi-revision modules is parsed only "
             "after a first Process, and the dump of a second Process must equal the run in which everything is "
             "parsed before one Process; unions with identityref members (bases of one bare name in different "
             "modules, directly and through typedefs), identityref typedefs used directly, through a second typedef "
             "and as union members; "
             "non-trivial = rejected, or some identity with at least two derived identities" % (GO_RUNS, len(ORACLES)),
        exhaustive=False, mismatches=mism, distribution=hist,
        samples=[yang_text(m) for m in schemas[0].mods][:2] + [yang_text(m)[:400] for m in schemas[mid].mods][:2],
        sample_observations=[ml[0][0][:400], ml[mid][0][:400]],
    )
    assumptions = [
        "the YANG texts given to Modules.Parse and the abstract schema given to the model are renderings of the same "
        "generated schema (module names without '@'; harness runs in an empty directory)",
        "no two identity statements are filed under one dictionary key, none is declared twice in one (sub)module, no "
        "module shares its full name with a submodule (the model names an *Identity by declaring (sub)module and name)",
        "Modules.include's early return on the first missing import/include is modelled only as 'an error is reported'",
        "sort.SliceStable is modelled as a stable insertion sort; string comparison as bytewise lexicographic order",
    ]
    return cov, assumptions


def replay(rep, res):
    tmp = tempfile.mkdtemp(prefix="c11cwd")
    try:
        gos = [lib.run_go([rep["go_case"]], cwd=tmp)[0] for _ in range(GO_RUNS)]
        if rep.get("auto_case"):
            print("(last impl line: %s not parsed but loaded by Process from the search path)" % rep.get("auto_parts"))
            gos.append(lib.run_go([rep["auto_case"]], cwd=tmp)[0])
        if rep.get("late_case"):
            print("(last impl line: submodules %s parsed after a first Process; dump of the second Process)" % rep.get("late_parts"))
            gos.append(lib.run_go([rep["late_case"]], cwd=tmp)[0])
    finally:
        shutil.rmtree(tmp, ignore_errors=True)
    mls = lib.run_ml(rep["ml_cases"])
    for n, t in sorted(rep.get("texts", {}).items()):
        print("---- %s\n%s" % (n, t))

    obs = []
    for g in gos:
        st, vals, leaves = parse_go(None, g)
        if st == "ok":
            print("impl : ok", json.dumps(vals, sort_keys=True), json.dumps(leaves, sort_keys=True))
        elif st == "err":
            print("impl : err", json.loads(g).get("errtext"))
        else:
            print("impl :", st[:300])
        obs.append((st, vals, leaves))
    same = len({json.dumps(o, sort_keys=True) for o in obs}) == 1
    okm = True
    for m in mls:
        st, vals, bases = parse_ml(m)
        print("model:", st, json.dumps(vals, sort_keys=True) if vals is not None else "", bases or "")
        if st != obs[0][0]:
            okm = False
        elif st == "ok":
            for k, v in vals.items():
                if obs[0][1].get(k) != v:
                    okm = False
    return 0 if same and okm else 1
