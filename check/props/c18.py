"""C18 -- re-processing, incremental loading and failed loads do not skew results.

Three parts (DESIGN.md section 5, C18):

  metamorphic (implementation only, this is where regressions are caught)
      random op histories (L<i> = Modules.Parse of text i, P = Modules.Process + full dump) of length <= 10 over pools of
      good texts (random resolver schemas, typedef chains, identities, imports whose target arrives later, newer revisions
      arriving later, submodules arriving later, equal namespaces) and bad texts (syntax error, rejected statement after
      typedefs were registered, top-level non-module with typedefs, duplicate module, good module followed by a bad
      statement = the known shape).  EVERY P's dump of the history is compared (complete JSON: errors as list, error
      positions, trees, types, identities with the order of their values, tree invariant clauses) with a FRESH batch run
      (L..,P) on exactly the texts the history had accepted up to that P.  Any difference is a VIOLATION unless it is
      explained exactly by the listed shape load.partial-text (the batch that additionally loads the accepted prefix of
      every partially failed text reproduces the history's dump).
  queries twice   option q / op D of the c18hist command: dumping (ToEntry, Namespace, InstantiatingModule, ReadOnly,
      DefaultValues, Find) twice after one Process gives the same dump.
  correspondence  the extracted machine of coq/Model/History.v is driven with the same op sequences (texts abstracted to
      items in Python) and must agree with the implementation (command c18hist, harness/go/c18.go) on the verdict of every
      load, on the keys of ms.Modules / ms.SubModules after every op (which accepted item each key denotes), on the
      import/include bindings after every Process and on every FindModuleByNamespace answer.
"""
import json
import os
import random
import shutil
import sys
import tempfile

import lib
from props import schema_gen as sg

KNOWN_SIG = "load.partial-text"


def hx(s):
    b = s.encode() if isinstance(s, str) else s
    return b.hex() if b else "-"


# ------------------------------------------------------------------------------------------------ texts
# A text is a dict(name=<file name>, items=[item], syntax=<bool: the whole text is a syntax error>, src=<str>)
# item = dict(good=<bool>, src=<str>, and for good items: kind 'm'|'s', mod=<name>, revs=[..], ns=<str>,
#             tds=[typedef names], imports=[(name, rev|None)], includes=[(name, rev|None)], belongs=<str|None>)

def item_good(kind, mod, revs, src, ns="", tds=(), imports=(), includes=(), belongs=None):
    return dict(good=True, kind=kind, mod=mod, revs=list(revs), src=src, ns=ns, tds=list(tds),
                imports=list(imports), includes=list(includes), belongs=belongs)


def item_bad(src, tds=()):
    return dict(good=False, src=src, tds=list(tds))


def text_of(name, items, syntax=False, src=None):
    return dict(name=name, items=items, syntax=syntax, src=src if src is not None else "\n".join(i["src"] for i in items))


def module(name, body="", rev=None, ns=None, prefix=None, imports=(), includes=(), belongs=None, tds=()):
    """imports: (module, prefix, revision-date|None); includes: (submodule, revision-date|None)"""
    prefix = prefix or name
    if belongs is None:
        s = 'module %s {\n  namespace "%s";\n  prefix %s;\n' % (name, ns or ("urn:" + name), prefix)
    else:
        s = "submodule %s {\n  belongs-to %s { prefix %s; }\n" % (name, belongs, prefix)
    for m, p, rd in imports:
        s += "  import %s { prefix %s; %s}\n" % (m, p, ("revision-date %s; " % rd) if rd else "")
    for m, rd in includes:
        s += "  include %s%s\n" % (m, (" { revision-date %s; }" % rd) if rd else ";")
    for r in ([rev] if isinstance(rev, str) else (rev or [])):
        s += "  revision %s;\n" % r
    s += body + "}\n"
    revs = [rev] if isinstance(rev, str) else list(rev or [])
    return item_good("s" if belongs else "m", name, revs, s, ns="" if belongs else (ns or ("urn:" + name)), tds=tds,
                     imports=[(m, rd) for m, p, rd in imports], includes=list(includes), belongs=belongs)


def schema_item(m):
    """a schema_gen module dict as an item"""
    return item_good("s" if m["belongs"] else "m", m["name"], [], sg.render_module(m), ns=m["ns"] if not m["belongs"] else "",
                     imports=[(mn, None) for p, mn in m["imports"]], includes=[(s, None) for s in m["includes"]],
                     belongs=m["belongs"])


# bad items (all register typedefs whose resolution would fail or clash if they leaked)
def bad_items(tag):
    return [
        # rejected statement inside an otherwise fine module, after typedefs (top-level and nested) were registered
        item_bad('module zz%s {\n  namespace "urn:zz%s";\n  prefix zz;\n  typedef leak1 { type nosuchtype; }\n'
                 '  container c { typedef leak2 { type leak1 { range 1..2; } } leaf l { type leak2; } }\n'
                 '  identity leakid;\n  bogus-statement x;\n}\n' % (tag, tag), tds=["leak1", "leak2"]),
        # required field missing (no namespace/prefix is accepted by the builder; an enum without name is not)
        item_bad('module zy%s {\n  namespace "urn:zy%s";\n  prefix zy;\n  typedef leak3 { type leak3; }\n'
                 '  leaf l { type string; type string; }\n}\n' % (tag, tag), tds=["leak3"]),
        # top-level non-module containing typedefs
        item_bad('container top%s {\n  typedef leak4 { type missing:t; }\n  leaf l { type leak4; }\n}\n' % tag, tds=["leak4"]),
        item_bad('typedef leak5 { type nosuchtype; }\n', tds=["leak5"]),
        item_bad('grouping g%s {\n  typedef leak6 { type uint8 { range 300..400; } }\n}\n' % tag, tds=["leak6"]),
        # unknown top-level keyword
        item_bad('frobnicate x%s;\n' % tag),
    ]


def syntax_bad(name, src, rnd):
    """the whole text does not parse: cut inside, unbalanced brace, or bad escape"""
    k = rnd.randrange(3)
    if k == 0:
        cut = src.rstrip()
        cut = cut[:cut.rfind("}")]
        return text_of(name, [], syntax=True, src=cut)
    if k == 1:
        return text_of(name, [], syntax=True, src=src + "}\n")
    return text_of(name, [], syntax=True, src=src.replace(";", ' "unterminated;', 1))


# ------------------------------------------------------------------------------------------------ families
D1, D2, D3 = "2019-01-01", "2020-02-02", "2021-03-03"


def fam_typedefs():
    """typedef chains through imports; the base arrives in two revisions"""
    tb1 = module("tb", rev=D1, tds=["t0", "t1"], body=
                 "  typedef t0 { type string { length 1..10; } }\n  typedef t1 { type t0 { length 2..5; } default ab; }\n")
    tb2 = module("tb", rev=D2, tds=["t0", "t1", "t9"], body=
                 "  typedef t0 { type int32 { range 1..10; } }\n  typedef t1 { type t0 { range 2..5; } }\n  typedef t9 { type t1; }\n")
    tm = module("tm", imports=[("tb", "b", None)], tds=["t2", "loc"], body=
                "  typedef t2 { type b:t1; units u; }\n  container c { typedef loc { type t2; } leaf l { type loc; } leaf k { type b:t0; } }\n")
    tt = module("tt", imports=[("tm", "m", None), ("tb", "b", D1)], body=
                "  leaf a { type m:t2; }\n  leaf b { type b:t0; }\n  leaf u { type union { type m:t2; type int8; } }\n")
    tu = module("tu", imports=[("tb", "b", None)], tds=["bad"], body=
                "  typedef bad { type b:t9; }\n  leaf x { type bad; }\n  leaf y { type uint8 { range 1..300; } }\n")
    return [tb1, tb2, tm, tt, tu]


def fam_identities():
    ib = module("ib", tds=[], body="  identity root;\n  identity mid { base root; }\n")
    i1 = module("i1", imports=[("ib", "b", None)], body=
                "  identity leaf1 { base b:mid; }\n  leaf r { type identityref { base b:root; } }\n")
    i2 = module("i2", imports=[("ib", "b", None), ("i1", "i", None)], tds=["ir"], body=
                "  identity leaf2 { base b:root; }\n  identity leaf3 { base i:leaf1; }\n  identity zz { base leaf2; }\n"
                "  typedef ir { type identityref { base b:mid; } }\n  leaf q { type ir; }\n")
    i3 = module("i3", imports=[("ib", "b", None)], body=
                "  identity aa { base b:root; }\n  identity orphan { base b:nosuch; }\n  leaf w { type identityref { base aa; } }\n")
    return [ib, i1, i2, i3]


def fam_revisions():
    """a module in three revisions (and without one), importers with and without revision-date"""
    def r(rev, leafname, extra=""):
        return module("rv", rev=rev, tds=["rt"], body=
                      "  typedef rt { type string { length %d; } }\n  grouping g { leaf %s { type rt; } }\n"
                      "  identity id-%s;\n  container top { leaf %s { type rt; } }\n%s" % (
                          len(leafname), leafname, leafname, leafname, extra))
    r1, r2, r3 = r(D1, "one"), r(D2, "second"), r([D1, D3], "third")
    r0 = r(None, "norev")
    u1 = module("ru", imports=[("rv", "r", None)], body="  uses r:g;\n  leaf t { type r:rt; }\n  augment /r:top { leaf aug { type string; } }\n")
    u2 = module("rw", imports=[("rv", "r", D1)], body="  uses r:g;\n  leaf t { type r:rt; }\n")
    u3 = module("rx", imports=[("rv", "r", D2)], tds=["xt"], body="  typedef xt { type r:rt; }\n  leaf t { type xt; }\n  identity d { base r:id-second; }\n")
    return [r1, r2, r3, r0, u1, u2, u3]


def fam_submodules():
    """submodules that arrive later, in two revisions, nested includes, a user of their definitions"""
    sm = module("sm", includes=[("ss", None)], tds=["mt"], body="  typedef mt { type st; }\n  leaf m { type mt; }\n  uses sg;\n")
    s1 = module("ss", belongs="sm", prefix="sm", rev=D1, includes=[("s2", None)], tds=["st"], body=
                "  typedef st { type string; }\n  grouping sg { leaf from-old { type st; } }\n  identity old-id;\n  leaf in-ss { type s2t; }\n")
    s1b = module("ss", belongs="sm", prefix="sm", rev=D2, tds=["st"], body=
                 "  typedef st { type int8; }\n  grouping sg { leaf from-new { type st; } }\n  identity new-id;\n")
    s2 = module("s2", belongs="sm", prefix="sm", tds=["s2t"], body="  typedef s2t { type uint16; }\n  identity s2-id;\n  leaf in-s2 { type s2t; }\n")
    su = module("su", imports=[("sm", "m", None)], body=
                "  identity d-old { base m:old-id; }\n  identity d-s2 { base m:s2-id; }\n  leaf x { type m:st; }\n")
    sv = module("sv", imports=[("sm", "m", None)], body="  identity d-new { base m:new-id; }\n  leaf y { type m:mt; }\n")
    lone = module("s9", belongs="nobody", prefix="nb", tds=["lt"], body="  typedef lt { type string; }\n  leaf z { type lt; }\n")
    return [sm, s1, s1b, s2, su, sv, lone]


def fam_namespaces():
    n1 = module("n1", ns="urn:shared", body="  leaf a { type string; }\n  container c { leaf b { type int8; } }\n")
    n2 = module("n2", ns="urn:shared", body="  leaf z { type string; }\n")
    n3 = module("n3", ns="urn:n3", imports=[("n1", "x", None)], body="  augment /x:c { leaf added { type string; } }\n  leaf own { type string; }\n")
    return [n1, n2, n3]


def fam_random(rnd):
    schema = sg.random_schema(rnd, n_modules=rnd.randint(1, 3))
    return [schema_item(m) for m in schema]


FAMILIES = dict(typedefs=fam_typedefs, identities=fam_identities, revisions=fam_revisions, submodules=fam_submodules,
                namespaces=fam_namespaces)


def universe(rnd, which=None):
    """a pool of texts (good ones first) for one history; returns (family names, texts)"""
    names = [which] if which else rnd.sample(sorted(FAMILIES) + ["random", "random"], rnd.choice([1, 1, 2]))
    goods = []
    for n in names:
        goods += fam_random(rnd) if n == "random" else FAMILIES[n]()
    # item names must be unique per (kind, name, revision) among the good pool for the pools to make sense; families are disjoint
    texts = []
    for i, it in enumerate(goods):
        texts.append(text_of("g%d.yang" % i, [it]))
    bads = bad_items("q")
    k = len(texts)
    extra = []
    # whole-text failures
    for j in rnd.sample(range(len(bads)), rnd.randint(1, 3)):
        extra.append(text_of("b%d.yang" % j, [bads[j]]))
    g = rnd.choice(goods)
    extra.append(syntax_bad("syn.yang", g["src"] + "typedef leak7 { type nosuchtype; }\n", rnd))
    # bad item first, good item second: nothing is added
    extra.append(text_of("bg.yang", [rnd.choice(bads), rnd.choice(goods)]))
    # two good items in one text
    if len(goods) >= 2 and rnd.random() < 0.5:
        a, b = rnd.sample(goods, 2)
        extra.append(text_of("gg.yang", [a, b]))
    # the listed shape: a good module followed by a rejected statement / by a copy of itself
    if rnd.random() < 0.6:
        extra.append(text_of("part.yang", [rnd.choice(goods), rnd.choice(bads)]))
    if rnd.random() < 0.25:
        g2 = rnd.choice(goods)
        extra.append(text_of("twice.yang", [g2, dict(g2)]))
    rnd.shuffle(extra)
    return names, texts + extra


def gen_ops(rnd, texts, maxlen=10):
    n = rnd.randint(2, maxlen)
    ops = []
    ngood = sum(1 for t in texts if t["name"].startswith("g") and t["name"][1].isdigit())
    for _ in range(n - 1):
        x = rnd.random()
        if x < 0.3 and ops:
            ops.append("P")
        elif x < 0.75:
            ops.append("L%d" % rnd.randrange(ngood))
        else:
            ops.append("L%d" % rnd.randrange(len(texts)))
    ops.append("P")
    return ops


# ------------------------------------------------------------------------------------------------ running
def process_line(texts, ops, opts="-"):
    toks = ["process", opts, ",".join(ops), str(len(texts))]
    for t in texts:
        toks += [hx(t["name"]), hx(t["src"])]
    return " ".join(toks)


def run_go(lines):
    tmp = tempfile.mkdtemp(prefix="c18cwd")
    try:
        return lib.run_go(lines, cwd=tmp)
    finally:
        shutil.rmtree(tmp, ignore_errors=True)


def parse(line):
    if not line.startswith("{"):
        return None
    return json.loads(line)


def split_history(ops, loads):
    """per P of the history: indices (into texts) of the loads accepted before it, in load order; and of the failed ones"""
    out, acc, failed, li = [], [], [], 0
    for op in ops:
        if op == "P":
            out.append((list(acc), list(failed)))
        else:
            i = int(op[1:])
            (acc if loads[li] == "ok" else failed).append(i)
            li += 1
    return out


def item_key(it):
    return (it["kind"], it["mod"], max(it["revs"], default=""))


def simulate(texts, ops):
    """which leading items of every load Modules.Parse adds, by the rule of Parse/add: stop at the first bad item or at
    the first (kind, name, latest revision) that is already loaded.  Returns per load (text index, items added, whole
    text accepted).  Only used to name the accepted prefix of a partially failed text and as a sanity check."""
    loaded, out = set(), []
    for op in ops:
        if op == "P":
            continue
        t = texts[int(op[1:])]
        n = 0
        if not t["syntax"]:
            for it in t["items"]:
                if not it["good"] or item_key(it) in loaded:
                    break
                loaded.add(item_key(it))
                n += 1
        out.append((int(op[1:]), n, (not t["syntax"]) and n == len(t["items"])))
    return out


def batch_for(texts, acc, opts="-"):
    sub = [texts[i] for i in acc]
    return process_line(sub, ["L%d" % k for k in range(len(sub))] + ["P"], opts)


def first_diff(a, b, path=""):
    """first differing position of two JSON values, for the report"""
    if type(a) != type(b):
        return "%s: %s vs %s" % (path, json.dumps(a)[:160], json.dumps(b)[:160])
    if isinstance(a, dict):
        for k in sorted(set(a) | set(b)):
            if a.get(k) != b.get(k):
                return first_diff(a.get(k), b.get(k), path + "/" + k)
        return None
    if isinstance(a, list):
        for i, (x, y) in enumerate(zip(a, b)):
            if x != y:
                return first_diff(x, y, path + "[%d]" % i)
        if len(a) != len(b):
            return "%s: length %d vs %d (%s | %s)" % (path, len(a), len(b), json.dumps(a[len(b):])[:160], json.dumps(b[len(a):])[:160])
        return None
    if a != b:
        return "%s: %s vs %s" % (path, json.dumps(a)[:160], json.dumps(b)[:160])
    return None


class Case:
    def __init__(self, fams, texts, ops, opts="-"):
        self.fams, self.texts, self.ops, self.opts = fams, texts, ops, opts

    def replay(self):
        return dict(kind="metamorphic", families=self.fams, ops=self.ops, opts=self.opts,
                    texts=[dict(name=t["name"], src=t["src"], syntax=t["syntax"],
                                items=[dict(good=i["good"], src=i["src"]) for i in t["items"]]) for t in self.texts])


def partial_variant(texts, ops, upto_p, opts):
    """the batch that also loads, at its place in the load order, the accepted prefix of every partially failed text
    among the loads before the upto_p-th P (None when there is no such text)"""
    sub, seen, li, p = [], False, 0, 0
    sim = simulate(texts, ops)
    for op in ops:
        if op == "P":
            if p == upto_p:
                break
            p += 1
            continue
        i, n, whole = sim[li]
        li += 1
        if whole:
            sub.append(texts[i])
        elif n > 0:
            sub.append(text_of(texts[i]["name"], texts[i]["items"][:n]))
            seen = True
    if not seen:
        return None
    return process_line(sub, ["L%d" % k for k in range(len(sub))] + ["P"], opts)


def load_order(ops, loads, upto_p):
    """[(ok|err, text index)] of the loads before the upto_p-th P"""
    out, li, p = [], 0, 0
    for op in ops:
        if op == "P":
            if p == upto_p:
                break
            p += 1
        else:
            out.append(("ok" if loads[li] == "ok" else "err", int(op[1:])))
            li += 1
    return out


def metamorphic(res, cases, stats, max_report=4):
    """runs the histories and their batches; reports differences"""
    hist_lines = [process_line(c.texts, c.ops, c.opts) for c in cases]
    hist_out = run_go(hist_lines)
    batch_lines, want = {}, []
    parsed = []
    for c, o in zip(cases, hist_out):
        j = parse(o)
        parsed.append(j)
        if j is None:
            continue
        for acc, failed in split_history(c.ops, j["loads"]):
            bl = batch_for(c.texts, acc, c.opts)
            batch_lines.setdefault(bl, None)
    keys = list(batch_lines)
    outs = run_go(keys)
    for k, o in zip(keys, outs):
        batch_lines[k] = o
    reported = 0
    second = []      # (case, p index, history run, batch line) that differ: candidates for the known shape
    for c, o, j in zip(cases, hist_out, parsed):
        if j is None:
            stats["crashed"] += 1
            res.violation("history did not complete: ops=%s -> %s" % (",".join(c.ops), o[:300]),
                          dict(c.replay(), history=o[:2000]))
            continue
        nl = sum(1 for op in c.ops if op != "P")
        stats["loads_ok"] += sum(1 for l in j["loads"] if l == "ok")
        stats["loads_failed"] += sum(1 for l in j["loads"] if l != "ok")
        for p, (acc, failed) in enumerate(split_history(c.ops, j["loads"])):
            stats["process_runs"] += 1
            run = j["runs"][p]
            stats["runs_with_errors" if run["errors"] else "runs_clean"] += 1
            bl = batch_for(c.texts, acc, c.opts)
            b = parse(batch_lines[bl])
            if b is None or any(l != "ok" for l in b["loads"]):
                # a text accepted in the history is not accepted by the fresh set
                second.append((c, p, run, bl, b, True))
                continue
            if b["runs"][0] != run:
                second.append((c, p, run, bl, b, False))
    # classification of the differing ones
    pv_lines = {}
    for c, p, run, bl, b, loaddiff in second:
        j = parsed[cases.index(c)]
        pv = partial_variant(c.texts, c.ops, p, c.opts)
        if pv:
            pv_lines[pv] = None
    keys = list(pv_lines)
    for k, o in zip(keys, run_go(keys)):
        pv_lines[k] = o
    for c, p, run, bl, b, loaddiff in second:
        j = parsed[cases.index(c)]
        pv = partial_variant(c.texts, c.ops, p, c.opts)
        if pv:
            v = parse(pv_lines[pv])
            if v is not None and all(l == "ok" for l in v["loads"]) and v["runs"][0] == run:
                stats["known_partial_text"] += 1
                res.known(KNOWN_SIG, "ops=%s texts=%s" % (",".join(c.ops), [t["name"] for t in c.texts]))
                continue
        stats["differences"] += 1
        if reported < max_report:
            reported += 1
            what = ("a text accepted by the history is rejected by a fresh set" if loaddiff else
                    "Process #%d of the history differs from a fresh batch run on the accepted texts: %s" % (
                        p + 1, first_diff(run, b["runs"][0])))
            res.violation("%s; families=%s ops=%s loads=%s" % (what, c.fams, ",".join(c.ops), j["loads"]),
                          dict(c.replay(), p_index=p, history_line=process_line(c.texts, c.ops, c.opts), batch_line=bl,
                               history_dump=run, batch_dump=(b["runs"][0] if b and b.get("runs") else b), diff=what))
    return parsed


def gen_cases(rnd, n, which=None):
    cases = []
    for _ in range(n):
        fams, texts = universe(rnd, which)
        ops = gen_ops(rnd, texts)
        cases.append(Case(fams, texts, ops, rnd.choice(["-", "-", "q", "f"])))
    return cases


class _Res:
    """stand-in for lib.Result while exploring"""
    def __init__(self):
        self.v, self.k = [], {}

    def violation(self, what, replay, no_input=False):
        self.v.append((what, replay))

    def known(self, sig, ex):
        self.k.setdefault(sig, ex)


def new_stats():
    return dict(crashed=0, loads_ok=0, loads_failed=0, process_runs=0, runs_with_errors=0, runs_clean=0,
                known_partial_text=0, differences=0)


if __name__ == "__main__":
    # exploration aid: python3 check/props/c18.py <n> [family] [seed]
    n = int(sys.argv[1]) if len(sys.argv) > 1 else 200
    which = sys.argv[2] if len(sys.argv) > 2 and sys.argv[2] != "-" else None
    seed = int(sys.argv[3]) if len(sys.argv) > 3 else 0
    rnd = random.Random(seed)
    r, st = _Res(), new_stats()
    metamorphic(r, gen_cases(rnd, n, which), st, max_report=int(os.environ.get("MAXREP", "12")))
    print(st)
    print("known:", r.k)
    for w, rep in r.v:
        print("VIOLATION", w[:700])
