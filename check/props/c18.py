"""C18 -- re-processing, incremental loading and failed loads do not skew results.

  metamorphic (implementation only; this is where regressions are caught)
      op histories (L<i> = Modules.Parse of text i, P = Modules.Process + full dump, G<name> = Modules.GetModule(name) +
      full dump (a second kind of run, compared with GetModule on the fresh set), D<i> = text i offered as a file of the
      search path only (Process may read it by itself through FindModule), F<i> / R<i> = text i written into another
      directory / and loaded from there with Modules.Read (which puts that directory on the search path iff the load
      succeeds), option e = the trees are dumped and compared after runs that returned errors too, T = a read:
      ToEntry, Print, Namespace, InstantiatingModule, ReadOnly on every module, C = ClearEntryCache; command c18proc of
      harness/go/c18.go = resolve.go's process command plus the reads) of length <= 10 over pools of good
      texts (random resolver schemas, typedef chains through imports, identities and identityrefs, imports whose target
      arrives later, newer revisions arriving later, submodules arriving later and superseded, equal namespaces) and bad
      texts (syntax error; rejected statement after typedefs were registered; top-level non-module with typedefs;
      duplicate module; bad statement before / after a good module in one text; a module twice in one text), with
      interleaved and repeated P.  EVERY P's dump of the history (errors as list, error positions, trees with types,
      namespaces, instantiating modules, identities with the order of their values, import/include bindings, tree
      invariant clauses; with option f the Find checks, with option q a Print of every tree after the dump) is compared
      with a FRESH batch run (L..,P) on exactly the texts the history had accepted up to that P.  A difference that is
      stable under re-running both sides is a VIOLATION (replay = history, batch, both dumps).  A fixed corpus of
      scripted histories (one per defect this check has found: D43, D55, D56, D57, D62, and the earlier D40-D42) runs
      first, plain and with every kind of bad text interleaved.
  correspondence
      the extracted machine of coq/Model/History.v (run with History.now) is driven with the same histories, texts
      abstracted to items here, plus FindModuleByNamespace lookups; it must agree with the implementation (command
      c18hist, harness/go/c18.go) on the verdict of every load, on the keys of ms.Modules / ms.SubModules and the item
      each denotes after every load, on the import/include bindings after every Process and on every namespace answer.
  command
      `goyang FILE...` (built from the checked tree) with a rejected file among its arguments, lying in a directory
      that also holds modules the good files import or include: exit status and standard output must be those of the
      run without the rejected argument, its messages those plus the report about the rejected file.
  trees of files
      histories over a tree of files that is reached through the search path only (command c18tree, harness/go/c18.go):
      one module name in several directories with different contents, rejected files beside them, Path = root/... /
      the directories in some order / a mix; loads by bare name (Read, GetModule) that fail or succeed, before, between
      and after loads of texts that import / include modules of the tree, and runs.  Oracle = the property's text: the
      history without its failed loads, on a fresh set over the same tree, gives the same verdicts, dumps, loaded
      files and ms.Path.  Model: every file of the tree that enters the set is the one coq/Model/File.v (findFile_fs,
      command findfile of the C13 part) finds for that name on this tree and Path -- lookups carry no state.
  oracle
      the extracted specification (coq/Spec/C18.v: spec_load, spec_ns) evaluated next to it: the implementation's
      verdicts, its set of loaded items and its namespace answers must be the specification's.
"""
import json
import os
import random
import re
import shutil
import subprocess
import tempfile

import lib
from props import schema_gen as sg

# C18 depends on no generated table (coq/Model/History.v imports Model/Registry.v only).  A change in /repo that the
# translator cannot digest for ANOTHER property's table (e.g. gen_locks refusing a Lock inside a conditional) must not
# keep this check from exhibiting a concrete failing history: keep the tables as they are and carry on.  The checks
# that own the tables still fail on it.
_regen_tables = lib.regen_tables


def _regen_tables_tolerant():
    ok, out = _regen_tables()
    if not ok:
        lib.log("C18: translator failed, generated tables left as they are (none is used by C18):\n" + out[-600:])
        return True, "translator failed (ignored for C18): " + out[-300:]
    return ok, out


lib.regen_tables = _regen_tables_tolerant


def hx(s):
    b = s.encode() if isinstance(s, str) else s
    return b.hex() if b else "-"


# ------------------------------------------------------------------------------------------------ texts
# A text is a dict(name=<file name>, items=[item], syntax=<bool: the whole text is a syntax error>, src=<str>)
# item = dict(good=<bool>, src=<str>, and for good items: kind 'm'|'s', mod=<name>, revs=[..], ns=<str>,
#             tds=[typedef names], imports=[(name, rev|None)], includes=[(name, rev|None)], belongs=<str|None>)

def item_good(kind, mod, revs, src, ns="", tds=(), imports=(), includes=(), belongs=None):
    return dict(good=True, kind=kind, mod=mod, revs=list(revs), src=src, ns=ns, tds=list(tds),
                imports=list(imports), includes=list(includes), belongs=belongs)


def item_bad(src, tds=()):
    return dict(good=False, src=src, tds=list(tds))


def text_of(name, items, syntax=False, src=None):
    return dict(name=name, items=items, syntax=syntax, src=src if src is not None else "\n".join(i["src"] for i in items))


def module(name, body="", rev=None, ns=None, prefix=None, imports=(), includes=(), belongs=None, tds=()):
    """imports: (module, prefix, revision-date|None); includes: (submodule, revision-date|None)"""
    prefix = prefix or name
    if belongs is None:
        s = 'module %s {\n  namespace "%s";\n  prefix %s;\n' % (name, ns or ("urn:" + name), prefix)
    else:
        s = "submodule %s {\n  belongs-to %s { prefix %s; }\n" % (name, belongs, prefix)
    for m, p, rd in imports:
        s += "  import %s { prefix %s; %s}\n" % (m, p, ("revision-date %s; " % rd) if rd else "")
    for m, rd in includes:
        s += "  include %s%s\n" % (m, (" { revision-date %s; }" % rd) if rd else ";")
    for r in ([rev] if isinstance(rev, str) else (rev or [])):
        s += "  revision %s;\n" % r
    s += body + "}\n"
    revs = [rev] if isinstance(rev, str) else list(rev or [])
    return item_good("s" if belongs else "m", name, revs, s, ns="" if belongs else (ns or ("urn:" + name)), tds=tds,
                     imports=[(m, rd) for m, p, rd in imports], includes=list(includes), belongs=belongs)


def schema_item(m):
    """a schema_gen module dict as an item"""
    return item_good("s" if m["belongs"] else "m", m["name"], [], sg.render_module(m), ns=m["ns"] if not m["belongs"] else "",
                     imports=[(mn, None) for p, mn in m["imports"]], includes=[(s, None) for s in m["includes"]],
                     belongs=m["belongs"])


# bad items (all register typedefs whose resolution would fail or clash if they leaked)
def bad_items(tag):
    return [
        # rejected statement inside an otherwise fine module, after typedefs (top-level and nested) were registered
        item_bad('module zz%s {\n  namespace "urn:zz%s";\n  prefix zz;\n  typedef leak1 { type nosuchtype; }\n'
                 '  container c { typedef leak2 { type leak1 { range 1..2; } } leaf l { type leak2; } }\n'
                 '  identity leakid;\n  bogus-statement x;\n}\n' % (tag, tag), tds=["leak1", "leak2"]),
        # required field missing (no namespace/prefix is accepted by the builder; an enum without name is not)
        item_bad('module zy%s {\n  namespace "urn:zy%s";\n  prefix zy;\n  typedef leak3 { type leak3; }\n'
                 '  leaf l { type string; type string; }\n}\n' % (tag, tag), tds=["leak3"]),
        # top-level non-module containing typedefs
        item_bad('container top%s {\n  typedef leak4 { type missing:t; }\n  leaf l { type leak4; }\n}\n' % tag, tds=["leak4"]),
        item_bad('typedef leak5 { type nosuchtype; }\n', tds=["leak5"]),
        item_bad('grouping g%s {\n  typedef leak6 { type uint8 { range 300..400; } }\n}\n' % tag, tds=["leak6"]),
        # unknown top-level keyword
        item_bad('frobnicate x%s;\n' % tag),
    ]


def syntax_bad(name, src, rnd):
    """the whole text does not parse: cut inside, unbalanced brace, or bad escape"""
    k = rnd.randrange(3)
    if k == 0:
        cut = src.rstrip()
        cut = cut[:cut.rfind("}")]
        return text_of(name, [], syntax=True, src=cut)
    if k == 1:
        return text_of(name, [], syntax=True, src=src + "}\n")
    return text_of(name, [], syntax=True, src=src.replace(";", ' "unterminated;', 1))


# ------------------------------------------------------------------------------------------------ families
D1, D2, D3 = "2019-01-01", "2020-02-02", "2021-03-03"


def fam_typedefs():
    """typedef chains through imports; the base arrives in two revisions"""
    tb1 = module("tb", rev=D1, tds=["t0", "t1"], body=
                 "  typedef t0 { type string { length 1..10; } }\n  typedef t1 { type t0 { length 2..5; } default ab; }\n")
    tb2 = module("tb", rev=D2, tds=["t0", "t1", "t9"], body=
                 "  typedef t0 { type int32 { range 1..10; } }\n  typedef t1 { type t0 { range 2..5; } }\n  typedef t9 { type t1; }\n")
    tm = module("tm", imports=[("tb", "b", None)], tds=["t2", "tun", "loc"], body=
                "  typedef t2 { type b:t1; units u; }\n"
                "  typedef tun { type union { type b:t1; type int8; type union { type b:t0; type boolean; } } }\n"
                "  leaf un { type tun; }\n  leaf-list unl { type union { type b:t0; type tun; } }\n"
                "  container c { typedef loc { type t2; } leaf l { type loc; } leaf k { type b:t0; } }\n")
    tt = module("tt", imports=[("tm", "m", None), ("tb", "b", D1)], body=
                "  leaf a { type m:t2; }\n  leaf b { type b:t0; }\n  leaf u { type union { type m:t2; type int8; } }\n")
    tu = module("tu", imports=[("tb", "b", None)], tds=["bad"], body=
                "  typedef bad { type b:t9; }\n  leaf x { type bad; }\n  leaf y { type uint8 { range 1..300; } }\n")
    return [tb1, tb2, tm, tt, tu]


def fam_identities():
    ib = module("ib", tds=[], body="  identity root;\n  identity mid { base root; }\n")
    i1 = module("i1", imports=[("ib", "b", None)], body=
                "  identity leaf1 { base b:mid; }\n  leaf r { type identityref { base b:root; } }\n")
    i2 = module("i2", imports=[("ib", "b", None), ("i1", "i", None)], tds=["ir"], body=
                "  identity leaf2 { base b:root; }\n  identity leaf3 { base i:leaf1; }\n  identity zz { base leaf2; }\n"
                "  typedef ir { type identityref { base b:mid; } }\n  leaf q { type ir; }\n")
    i3 = module("i3", imports=[("ib", "b", None)], body=
                "  identity aa { base b:root; }\n  identity orphan { base b:nosuch; }\n  leaf w { type identityref { base aa; } }\n")
    return [ib, i1, i2, i3]


def fam_revisions():
    """a module in three revisions (and without one), importers with and without revision-date"""
    def r(rev, leafname, extra=""):
        return module("rv", rev=rev, tds=["rt"], body=
                      "  typedef rt { type string { length %d; } }\n  grouping g { leaf %s { type rt; } }\n"
                      "  identity id-%s;\n  container top { leaf %s { type rt; } }\n%s" % (
                          len(leafname), leafname, leafname, leafname, extra))
    r1, r2, r3 = r(D1, "one"), r(D2, "second"), r([D1, D3], "third")
    r0 = r(None, "norev")
    u1 = module("ru", imports=[("rv", "r", None)], body="  uses r:g;\n  leaf t { type r:rt; }\n  augment /r:top { leaf aug { type string; } }\n")
    u2 = module("rw", imports=[("rv", "r", D1)], body="  uses r:g;\n  leaf t { type r:rt; }\n")
    u3 = module("rx", imports=[("rv", "r", D2)], tds=["xt"], body="  typedef xt { type r:rt; }\n  leaf t { type xt; }\n  identity d { base r:id-second; }\n")
    return [r1, r2, r3, r0, u1, u2, u3]


def fam_submodules():
    """submodules that arrive later, in two revisions, nested includes, a user of their definitions"""
    sm = module("sm", includes=[("ss", None)], tds=["mt"], body="  typedef mt { type st; }\n  leaf m { type mt; }\n  uses sg;\n")
    s1 = module("ss", belongs="sm", prefix="sm", rev=D1, includes=[("s2", None)], imports=[("gm", "gm", None)], tds=["st"], body=
                "  typedef st { type string; }\n  grouping sg { leaf from-old { type st; } }\n  identity old-id;\n  identity old-child { base old-id; }\n  leaf in-ss { type s2t; }\n"
                "  container viaimport { uses gm:gg; }\n")
    gm = module("gm", tds=["gt"], body="  typedef gt { type int64; }\n  grouping gg { leaf g1 { type gt; } }\n")
    s1b = module("ss", belongs="sm", prefix="sm", rev=D2, tds=["st"], body=
                 "  typedef st { type int8; }\n  grouping sg { leaf from-new { type st; } }\n  identity new-id;\n")
    s2 = module("s2", belongs="sm", prefix="sm", tds=["s2t"], body="  typedef s2t { type uint16; }\n  identity s2-id;\n  leaf in-s2 { type s2t; }\n")
    su = module("su", imports=[("sm", "m", None)], body=
                "  identity d-old { base m:old-id; }\n  identity d-s2 { base m:s2-id; }\n  leaf x { type m:st; }\n")
    sv = module("sv", imports=[("sm", "m", None)], body="  identity d-new { base m:new-id; }\n  leaf y { type m:mt; }\n")
    lone = module("s9", belongs="nobody", prefix="nb", tds=["lt"], body="  typedef lt { type string; }\n  leaf z { type lt; }\n")
    # a self-contained pair of revisions: the superseded one stays clean, so that its identities remain in the dump
    vm = module("vm", includes=[("vs", None)], tds=["vun", "vir"], body=
                "  leaf v { type string; }\n  typedef vun { type union { type vt; type int8; } }\n  leaf vu { type vun; }\n"
                "  typedef vir { type identityref { base v-common; } }\n  leaf vi { type vir; }\n")
    v1 = module("vs", belongs="vm", prefix="vm", rev=D1, tds=["vt"], body=
                "  identity v-old;\n  identity v-child { base v-old; }\n  identity v-common;\n"
                "  typedef vt { type string; }\n  container from-vs1 { leaf a { type vt; } }\n")
    v2 = module("vs", belongs="vm", prefix="vm", rev=D2, tds=["vt"], body=
                "  identity v-new;\n  identity v-common;\n  identity v-derived { base v-common; }\n"
                "  typedef vt { type uint32; }\n  container from-vs2 { leaf b { type vt; } }\n")
    # a user of vm's definitions through an import: typedefs over identityref / union with prefixed referents
    vu = module("vx", imports=[("vm", "m", None)], tds=["xr", "xu"], body=
                "  typedef xr { type identityref { base m:v-common; } }\n  leaf r { type xr; }\n"
                "  typedef xu { type union { type m:vt; type m:vun; } }\n  leaf u { type xu; }\n"
                "  identity x-derived { base m:v-common; }\n")
    # a module whose import arrives late: Process fails in its first stage while the includes of the others are bound
    wa = module("wa", imports=[("wl", "l", None)], body="  leaf q { type l:lt; }\n")
    wl = module("wl", tds=["lt"], body="  typedef lt { type string; }\n")
    # one submodule shared by two revisions of its module; it names identities of the module without prefix
    hs = module("hs", belongs="hm", prefix="hm", tds=["ht"], body=
                "  leaf pick { type identityref { base root; } }\n  typedef ht { type identityref { base root; } }\n"
                "  leaf pick2 { type ht; }\n  identity in-sub { base root; }\n")
    h1 = module("hm", rev=D1, includes=[("hs", None)], body="  identity root;\n  identity one { base root; }\n")
    h2 = module("hm", rev=D2, includes=[("hs", None)], body="  identity root;\n  identity two { base root; }\n  identity three { base two; }\n")
    return [sm, s1, s1b, s2, su, sv, lone, gm, vm, v1, v2, vu, wa, wl, hs, h1, h2]


def fam_chains():
    """an import whose newest revision needs a module that is missing (and may arrive later)"""
    ca = module("ca", imports=[("cc", "c", None)], tds=["ta"], body=
                "  typedef ta { type c:t; }\n  identity ai { base c:ci-one; }\n  leaf x { type ta; }\n  uses c:g;\n")
    c1 = module("cc", rev=D1, tds=["t"], body="  typedef t { type string; }\n  identity ci-one;\n  grouping g { leaf old { type t; } }\n")
    c2 = module("cc", rev=D2, imports=[("dd", "d", None)], tds=["t"], body=
                "  typedef t { type d:dt; }\n  identity ci-two;\n  grouping g { leaf new { type t; } }\n")
    dd = module("dd", tds=["dt"], body="  typedef dt { type int8; }\n")
    cb = module("cb", imports=[("ca", "a", None), ("nowhere", "n", None)], body="  leaf y { type a:ta; }\n")
    return [ca, c1, c2, dd, cb]


def fam_typeerrs():
    """every error path of Type.resolve over typedefs of a library module that arrives in three versions (and an
    extension module that arrives late), so that a later load repairs, changes or introduces the error"""
    def lib(rev, num, strt, dec, extra=""):
        return module("tl", rev=rev, tds=["num", "str", "dec", "idr", "un"], body=
                      "  typedef num { type %s }\n  typedef str { type %s }\n  typedef dec { type %s }\n"
                      "  identity lbase;\n  typedef idr { type identityref { base lbase; } }\n"
                      "  typedef un { type union { type num; type str; } }\n%s" % (
                          tuple(t if t.endswith("}") else t + ";" for t in (num, strt, dec)) + (extra,)))
    l0 = lib(None, "uint8", "string { length 1..10; }", "decimal64 { fraction-digits 2; }",
             "  typedef gone { type int8; }\n")
    l1 = lib(D1, "uint16", "string", "string", "  typedef late { type boolean; }\n")
    l2 = lib(D2, "int32 { range 0..100; }", "string { length 8..40; pattern 'a.*'; }", "decimal64 { fraction-digits 3; }",
             "  typedef late { type bits { bit a; bit b; } }\n  typedef gone { type enumeration { enum x; enum y; } }\n")
    xn = module("xn", body="  extension ext { argument a; }\n")
    uses = ("  %(k)s a%(s)s { type lib:num { range 1..300; } }\n"
            "  %(k)s b%(s)s { type lib:str { length 5..20; } }\n"
            "  %(k)s c%(s)s { type lib:dec { fraction-digits 3; } }\n"
            "  %(k)s d%(s)s { type lib:gone; }\n"
            "  %(k)s e%(s)s { type lib:late; }\n"
            "  %(k)s f%(s)s { type lib:str { n:ext \"x\"; } }\n"
            "  %(k)s g%(s)s { type lib:un; default 7; }\n"
            "  %(k)s h%(s)s { type lib:idr; }\n"
            "  %(k)s i%(s)s { type lib:dec { range 1..5; } }\n"
            "  %(k)s j%(s)s { type lib:str { pattern '[0-9]+'; } }\n")
    tds = ["a-t", "b-t", "c-t", "d-t", "e-t", "f-t", "g-t", "h-t", "i-t", "j-t"]
    # the same type statements as typedefs (resolved even when an import is missing) and as leaf types
    ut = module("te", imports=[("tl", "lib", None), ("xn", "n", None)], tds=tds, body=
                uses % dict(k="typedef", s="-t") + "  leaf viatd { type f-t; }\n")
    ul = module("tf", imports=[("tl", "lib", None), ("xn", "n", None)], body=uses % dict(k="leaf", s="-l"))
    # one error path each, in small modules that stay clean otherwise
    ue = module("tg", imports=[("xn", "n", None)], tds=["et"], body=
                "  typedef et { type string { n:ext \"x\"; } }\n  leaf l { type et; }\n")
    uf = module("th", imports=[("tl", "lib", None)], body="  leaf amount { type lib:dec { fraction-digits 3; } }\n")
    ui = module("ti", imports=[("tl", "lib", D1)], tds=["pinned"], body=
                "  typedef pinned { type lib:num { range 1..70000; } }\n  leaf p { type pinned; }\n")
    # Typedef.resolve's own error returns: a typedef whose type carries a base that cannot be resolved (yet), on
    # identityref and on other types, prefixed and unprefixed; the identities arrive with a later module / revision
    i1 = module("ids", rev=D1, body="  identity first;\n")
    i2 = module("ids", rev=D2, body="  identity first;\n  identity later-id { base first; }\n")
    tj = module("tj", imports=[("ids", "i", None)], tds=["hb2", "hb4", "hb5"], body=
                "  typedef hb2 { type string { base i:later-id; } }\n  leaf j2 { type hb2; }\n"
                "  typedef hb4 { type identityref { base i:later-id; } }\n  leaf j4 { type hb4; }\n"
                "  typedef hb5 { type hb4; }\n  leaf j5 { type hb5; }\n  leaf j6 { type identityref { base i:first; } }\n")
    tk = module("tk", tds=["hb1", "hb3"], body=
                "  typedef hb1 { type string { base no-such-identity; } }\n  leaf k1 { type hb1; }\n"
                "  typedef hb3 { type identityref { base no-such-identity; } }\n  leaf k3 { type hb3; }\n")
    tm_ = module("tn", tds=["hb6"], body=
                 "  identity own;\n  typedef hb6 { type uint8 { base own; } }\n  leaf n6 { type hb6; }\n")
    return [l0, l1, l2, xn, ut, ul, ue, uf, ui, i1, i2, tj, tk, tm_]


def fam_disk():
    """modules that Process reads by itself from the search path (op D<i>: the text exists as a file only) and that
    carry what the later stages of Process act on: shorthand choice members, an augment, a deviation, a tree-level
    error; an included submodule found on disk as well"""
    dz = module("dz", tds=["zt"], body=
                "  typedef zt { type string; }\n  container box { leaf in-box { type zt; } }\n"
                "  choice ch { leaf short { type string; } container alt { leaf x { type int8; } } }\n"
                "  augment /dz:box { leaf added { type string; } }\n"
                "  leaf dev { type string; }\n  deviation /dz:dev { deviate replace { config false; } }\n")
    dm = module("dm", imports=[("dz", "z", None)], body="  leaf a { type z:zt; }\n  container tgt { leaf t { type string; } }\n")
    dy = module("dy", tds=["yt"], body="  typedef yt { type int8; }\n  container c { uses nosuchgrouping; }\n")
    dn = module("dn", imports=[("dy", "y", None)], body="  leaf b { type y:yt; }\n")
    ds = module("ds", belongs="dp", prefix="dp", body=
                "  container from-ds { leaf s { type string; } }\n  choice sch { leaf sshort { type string; } }\n"
                "  augment /dp:own { leaf aug-by-ds { type string; } }\n")
    dp = module("dp", includes=[("ds", None)], body="  container own { leaf o { type string; } }\n")
    dq = module("dq", imports=[("dm", "m", None), ("dz", "z", None)], body=
                "  augment /m:tgt { leaf from-dq { type z:zt; } }\n  deviation /z:box/z:in-box { deviate add { units u; } }\n")
    for it in (dz, dy, ds):
        it["file"] = it["mod"] + ".yang"          # may be offered as a file of the search path
    return [dz, dm, dy, dn, ds, dp, dq]


def fam_namespaces():
    n1 = module("n1", ns="urn:shared", body="  leaf a { type string; }\n  container c { leaf b { type int8; } }\n")
    n2 = module("n2", ns="urn:shared", body="  leaf z { type string; }\n")
    n3 = module("n3", ns="urn:n3", imports=[("n1", "x", None)], body="  augment /x:c { leaf added { type string; } }\n  leaf own { type string; }\n")
    return [n1, n2, n3]


def fam_random(rnd):
    schema = sg.random_schema(rnd, n_modules=rnd.randint(1, 3))
    return [schema_item(m) for m in schema]


FAMILIES = dict(typedefs=fam_typedefs, identities=fam_identities, revisions=fam_revisions, submodules=fam_submodules,
                namespaces=fam_namespaces, chains=fam_chains, typeerrs=fam_typeerrs, disk=fam_disk)


def make_pool(goods, rnd):
    """texts for one history: one text per good item (g<i>.yang, index = position in [goods]) followed by bad texts.
    With rnd=None every kind of bad text is present, in a fixed order (the corpus)."""
    texts = [text_of(it.get("file", "g%d.yang" % i), [it]) for i, it in enumerate(goods)]
    for t in texts:
        t["single"] = True                     # one good item; t["items"][0].get("file") = may be offered on disk
    bads = bad_items("q")
    pick = (lambda l: l[0]) if rnd is None else rnd.choice
    extra = []
    which = range(len(bads)) if rnd is None else rnd.sample(range(len(bads)), rnd.randint(1, 3))
    for j in which:
        extra.append(text_of("b%d.yang" % j, [bads[j]]))           # whole-text failures
    g = pick(goods)
    if rnd is None:
        extra.append(text_of("syn.yang", [], syntax=True, src=g["src"] + "typedef leak7 { type nosuchtype; }\n}\n"))
    else:
        extra.append(syntax_bad("syn.yang", g["src"] + "typedef leak7 { type nosuchtype; }\n", rnd))
    extra.append(text_of("bg.yang", [pick(bads), pick(goods)]))     # bad statement first: nothing is added
    if len(goods) >= 2 and (rnd is None or rnd.random() < 0.5):
        a, b = (goods[0], goods[1]) if rnd is None else rnd.sample(goods, 2)
        extra.append(text_of("gg.yang", [a, b]))                    # two good statements in one text
    if rnd is None or rnd.random() < 0.6:
        extra.append(text_of("part.yang", [pick(goods), pick(bads)]))   # D43: good module, then a rejected statement
    if rnd is None or rnd.random() < 0.25:
        g2 = pick(goods)
        extra.append(text_of("twice.yang", [g2, dict(g2)]))         # D43: the second copy is the duplicate
    if rnd is not None:
        rnd.shuffle(extra)
    return texts + extra


def universe(rnd, which=None):
    """a pool of texts for one history; returns (family names, texts)"""
    names = [which] if which else rnd.sample(sorted(FAMILIES) + ["random", "random"], rnd.choice([1, 1, 2]))
    goods = []
    for n in names:
        goods += fam_random(rnd) if n == "random" else FAMILIES[n]()
    return names, make_pool(goods, rnd)


def gen_ops(rnd, texts, maxlen=10):
    n = rnd.randint(2, maxlen)
    ops, loaded = [], []
    ngood = sum(1 for t in texts if t.get("single"))
    for _ in range(n - 1):
        x = rnd.random()
        if x < 0.3 and ops:
            ops.append("P")
        elif x < 0.34 and loaded:
            ops.append("G" + hx(rnd.choice(loaded)))             # GetModule of a module that has been offered
        elif x < 0.44 and ops:
            ops.append("T" if rnd.random() < 0.85 else "C")      # reads between the runs: ToEntry & co., ClearEntryCache
        else:
            i = rnd.randrange(ngood) if x < 0.78 else rnd.randrange(len(texts))
            if texts[i].get("single") and texts[i]["items"][0].get("file") and rnd.random() < 0.6:
                # only as a file: of the search path, or of the directory files are Read from
                ops.append(("D%d" if rnd.random() < 0.7 else "F%d") % i)
                continue
            if rnd.random() < 0.1:
                ops.append("R%d" % i)          # Modules.Read of a file instead of Modules.Parse of the text
                loaded += [it["mod"] for it in texts[i]["items"] if it["good"] and it["kind"] == "m"]
                continue
            ops.append("L%d" % i)
            loaded += [it["mod"] for it in texts[i]["items"] if it["good"] and it["kind"] == "m"]
    ops.append("P" if not loaded or rnd.random() < 0.8 else "G" + hx(rnd.choice(loaded)))
    return ops


# scripted histories: family -> op lists over the indices of the family's good items
CORPUS = dict(
    namespaces=["L0,P,L1,P,P", "L0,L2,P,L1,P", "L1,P,L0,P", "L0,G6e31,L2,G6e31"],   # n3 augments n1 after GetModule(n1)                               # D55 byNS
    submodules=["L0,L7,L1,L3,P,L2,L4,P", "L0,L7,L1,L3,P,L2,P,P", "L0,P,L1,P,L3,P,L7,P",     # D57, D62, late submodules
                "L4,L5,P,L0,L2,P,L1,L3,L7,P", "L6,P,L0,L2,P", "L8,L9,P,L10,P,P",
                "L8,L9,L11,P,L10,P,P", "L8,L9,L12,P,T,L13,P,P", "L0,L2,L12,P,T,L13,P", "L8,L10,L12,T,P,T,C,T,L13,T,P",   # kept typedefs, reads
                "L14,L15,P,L16,P,P", "L15,L14,P,T,L16,P", "L16,L14,P,L15,P"],                                # shared submodule
    typedefs=["L0,L2,L3,P,L1,P", "L4,P,L0,P,L1,P", "L3,P,L2,P,L0,P,P",
              "L0,L2,P,L1,G746d", "L0,L2,L3,G7474,L1,G7474,G746d", "L0,L2,G746d,L8,G746d"],   # GetModule after Parse (tm, tt)                    # D56 re-binding, late targets
    identities=["L2,P,L0,P,L1,P", "L3,L1,P,L0,P,P", "L0,L1,L2,L3,P,P"],                    # D56 memoised errors, D42
    chains=["L0,L1,P,L2,P,L3,P", "L4,L0,P,L1,P", "L2,L0,P,L3,P,L1,P", "L0,L1,P,L4,P,P,T,P"],   # failing run after a good one                      # failing include, D41
    revisions=["L4,L5,L6,P,L0,P,L1,P,L2,P", "L3,L4,P,L0,P", "L1,L4,P,L3,P,L2,P", "L1,P,L0,P,P"],   # older after newer
    disk=["D0,L1,P,P", "D0,D2,D4,L1,L3,L5,P,P,P", "D4,L5,P,P,L6,D0,P,P", "D2,L3,P,P", "L1,P,D0,P,P", "D0,L6,P,L1,P,P",   # Process reads
          "D0,L1,T,P,T,P,L0,P",
          "F0,R7,L1,P,P", "F0,R8,R9,L1,P,L6,P", "F0,R1,P,P", "F4,R5,P,F0,L6,L1,P,P", "F2,R10,L3,P,R3,P",    # D73: Read of files
          "F0,R7,R1,P,P", "F4,F0,R8,R5,P,R1,P", "L1,P,F0,F4,R5,P,P", "L3,L1,P,P,D2,P,D0,P", "L5,P,F4,R1,P,F0,P"],   # failed Read, then
          # a successful one from the same directory; an import that fails first and whose file becomes reachable later                                                                             # from the path
    typeerrs=["L6,P,L3,P,P", "L0,L7,P,L1,P,L2,P", "L4,P,L0,P,L3,P,L1,P,L2,P", "L5,L3,L0,P,L1,P,L2,P",   # Type.resolve
              "L8,L0,P,L1,P,L2,P", "L2,L4,L5,L3,P,L1,P,L0,P",                                           # error paths
              "L11,P,P,L9,P,L10,P,P", "L12,P,P,P", "L13,L9,L11,P,L10,P", "L10,L11,P,L12,P,P"],           # Typedef.resolve
)


def corpus_cases():
    cases = []
    for fam in sorted(CORPUS):
        goods = FAMILIES[fam]()
        texts = make_pool(goods, None)
        bad_ix = [i for i, t in enumerate(texts) if i >= len(goods)]
        for k, script in enumerate(CORPUS[fam]):
            ops = script.split(",")
            cases.append(Case([fam, "corpus"], texts, ops, "-fq"[k % 3]))
            # the same with failing loads (and the D43 shapes) interleaved, 10 ops at most
            mixed, j, room = [], k, 10 - len(ops)
            for op in ops:
                if room > 0 and op != "P":
                    mixed.append("L%d" % bad_ix[j % len(bad_ix)])
                    j, room = j + 1, room - 1
                mixed.append(op)
            cases.append(Case([fam, "corpus+bad"], texts, mixed, "e"))
            cases.append(Case([fam, "corpus+e"], texts, ops, "e"))
        # D43 shapes alone and followed by the module itself
        names = {t["name"]: i for i, t in enumerate(texts)}
        for nm in ("part.yang", "twice.yang", "bg.yang", "gg.yang"):
            if nm in names:
                cases.append(Case([fam, "corpus-d43"], texts, ["L%d" % names[nm], "P", "L0", "P", "L%d" % names[nm], "P"], "-"))
    return cases


# ------------------------------------------------------------------------------------------------ running
def process_line(texts, ops, opts="-"):
    """command c18proc of harness/go/c18.go: resolve.go's process command plus read operations (T, C) between runs"""
    toks = ["c18proc", opts, ",".join(ops), str(len(texts))]
    for t in texts:
        toks += [hx(t["name"]), hx(t["src"])]
    return " ".join(toks)


def run_go(lines):
    if not lines:
        return []
    tmp = tempfile.mkdtemp(prefix="c18cwd")       # FindModule looks for name.yang in the current directory
    try:
        return lib.run_go(lines, cwd=tmp)
    finally:
        shutil.rmtree(tmp, ignore_errors=True)


def parse(line):
    if not line.startswith("{"):
        return None
    return json.loads(line)


def parse_for(c, line):
    """parse; a file that is Read (by the caller or by Process itself) carries its full path as name while Process sorts
    the errors (the harness cuts the directory off afterwards): for histories with files the errors are compared in
    string order"""
    j = parse(line)
    if j is not None and any(o[0] in "DFR" for o in c.ops):
        for run in j["runs"]:
            pairs = sorted(zip(run["errors"], run["errpos"]))
            run["errors"], run["errpos"] = [e for e, _ in pairs], [q for _, q in pairs]
    return j


def is_run(op):
    """P = Process, G<namehex> = GetModule(name) (Process + ToEntry): both produce a dump"""
    return op == "P" or op.startswith("G")


def split_history(ops, loads):
    """per run (P or G) of the history: (indices (into texts) of the loads accepted before it, in load order; the op;
    the texts that are legitimately available as files: offered on the search path (D), or lying in the directory of
    a file whose Read succeeded (F, R))"""
    out, acc, li, disk, rdir, read_ok = [], [], 0, [], [], False
    for op in ops:
        if is_run(op):
            out.append((list(acc), op, list(disk) + (list(rdir) if read_ok else [])))
        elif op.startswith("D"):
            disk.append(int(op[1:]))
        elif op.startswith("F"):
            rdir.append(int(op[1:]))
        elif op.startswith("L") or op.startswith("R"):
            if op.startswith("R"):
                rdir.append(int(op[1:]))
            if loads[li] == "ok":
                acc.append(int(op[1:]))
                read_ok = read_ok or op.startswith("R")
            li += 1
    return out


def runs_of(c, j):
    """split_history, plus: GetModule(name) on a module that is not loaded Reads name.yang from the search path, which
    is a load of that text like any other -- from the next run on it counts as accepted"""
    out, got = [], []
    for r, (acc, op, disk) in enumerate(split_history(c.ops, j["loads"])):
        acc = acc + [i for i in got if i not in acc]
        out.append((acc, op, disk))
        if op.startswith("G"):
            name = bytes.fromhex(op[1:]).decode()
            files = {s.rsplit(":", 2)[0] for s in j["loaded"][r]}
            for i in disk:
                t = c.texts[i]
                if i not in acc and t["name"] in files and any(it["good"] and it["mod"] == name for it in t["items"]):
                    got.append(i)
    return out


def only_reads_between(ops, p):
    """no load and no file offered between the (p-1)-th and the p-th run op"""
    runs = [k for k, op in enumerate(ops) if is_run(op)]
    return all(op in ("T", "C") for op in ops[runs[p - 1] + 1: runs[p]])


def stray_files(texts, accop, loaded):
    """modules of the set that came from a file no successful operation had made available (D73: the directory of a
    file whose Read failed stayed on the search path)"""
    acc, op, disk = accop
    ok = {texts[i]["name"] for i in acc} | {texts[i]["name"] for i in disk}
    return sorted({s.rsplit(":", 2)[0] for s in loaded} - ok)


def batch_for(texts, accop, opts="-", loaded=()):
    """the fresh set: the texts that are legitimately available as files (and were not loaded explicitly) are offered
    on its search path, exactly the accepted texts are loaded, then the same run op.  Whether Process then fetches a
    file is for the fresh set to decide: an import that the history leaves unresolved although its file was
    reachable differs from the batch."""
    acc, op, disk = accop
    extra = []
    for i in disk:
        if i not in acc and i not in extra:
            extra.append(i)
    sub = [texts[i] for i in extra + acc]
    ops = ["D%d" % k for k in range(len(extra))] + ["L%d" % (len(extra) + k) for k in range(len(acc))] + [op]
    return process_line(sub, ops, opts)


def first_diff(a, b, path=""):
    """first differing position of two JSON values, for the report"""
    if type(a) != type(b):
        return "%s: %s vs %s" % (path, json.dumps(a)[:160], json.dumps(b)[:160])
    if isinstance(a, dict):
        for k in sorted(set(a) | set(b)):
            if a.get(k) != b.get(k):
                return first_diff(a.get(k), b.get(k), path + "/" + k)
        return None
    if isinstance(a, list):
        for i, (x, y) in enumerate(zip(a, b)):
            if x != y:
                return first_diff(x, y, path + "[%d]" % i)
        if len(a) != len(b):
            return "%s: length %d vs %d (%s | %s)" % (path, len(a), len(b), json.dumps(a[len(b):])[:160], json.dumps(b[len(a):])[:160])
        return None
    if a != b:
        return "%s: %s vs %s" % (path, json.dumps(a)[:160], json.dumps(b)[:160])
    return None


class Case:
    def __init__(self, fams, texts, ops, opts="-", hops=None):
        if any(o[0] in "DFR" for o in ops):
            # a read of a set whose last run failed may itself fetch modules from the search path (FindModuleByPrefix ->
            # FindModule -> Read): with files around the trees are dumped after clean runs only
            opts = opts.replace("e", "") or "-"
        self.fams, self.texts, self.ops, self.opts = fams, texts, ops, opts
        # the history without ClearEntryCache, with namespace lookups (c18hist only)
        self.hops = hops if hops is not None else ["P" if o.startswith("G") else ("L" + o[1:] if o.startswith("R") else o) for o in ops
                                                     if o != "C" and o[0] not in "DF"]

    def replay(self):
        return dict(families=self.fams, ops=self.ops, hops=self.hops, opts=self.opts, texts=self.texts)

    @staticmethod
    def of_replay(rep):
        return Case(rep["families"], rep["texts"], rep["ops"], rep["opts"], rep.get("hops"))


def metamorphic(res, cases, stats, max_report=3):
    """runs the histories and, for every P, the batch on the texts accepted so far; reports stable differences"""
    hist_lines = [process_line(c.texts, c.ops, c.opts) for c in cases]
    hist_out = run_go(hist_lines)
    batch_lines = {}
    parsed = []
    for c, o in zip(cases, hist_out):
        j = parse_for(c, o)
        parsed.append(j)
        if j is None:
            continue
        for r, acc in enumerate(runs_of(c, j)):
            batch_lines.setdefault(batch_for(c.texts, acc, c.opts, j["loaded"][r]), None)
    keys = list(batch_lines)
    for k, o in zip(keys, run_go(keys)):
        batch_lines[k] = o
    stats["batch_runs"] += len(keys)
    second = []      # (case, history line, p index, history run, batch line, batch) that differ
    reported = 0
    for c, hl, o, j in zip(cases, hist_lines, hist_out, parsed):
        stats["histories"] += 1
        if j is None:
            stats["crashed"] += 1
            if reported < max_report:
                reported += 1
                res.violation("history did not complete: ops=%s -> %s" % (",".join(c.ops), o[:300]),
                              dict(c.replay(), kind="metamorphic", history_line=hl, history=o[:2000]))
            continue
        nfail = sum(1 for l in j["loads"] if l != "ok")
        stats["loads_ok"] += len(j["loads"]) - nfail
        stats["loads_failed"] += nfail
        accs = runs_of(c, j)
        if nfail and len(accs) >= 2:
            stats["nontrivial"] += 1
        for p, acc in enumerate(accs):
            stats["process_runs"] += 1
            run = j["runs"][p]
            stats["runs_with_errors" if run["errors"] else "runs_clean"] += 1
            stray = stray_files(c.texts, acc, j["loaded"][p])
            if stray:
                stats["differences"] += 1
                if reported < max_report:
                    reported += 1
                    what = "run #%d: the set contains %s, read from a directory that no successful load had put on the search path" % (p + 1, stray)
                    res.violation("%s; families=%s ops=%s loads=%s" % (what, c.fams, ",".join(c.ops), j["loads"]),
                                  dict(c.replay(), kind="metamorphic", p_index=p, history_line=hl, diff=what))
            bl = batch_for(c.texts, acc, c.opts, j["loaded"][p])
            b = parse_for(c, batch_lines[bl])
            if b is None or any(l != "ok" for l in b["loads"]) or b["runs"][0] != run:
                second.append((c, hl, p, run, bl, b))
            # processing twice = once, directly: two runs of the same kind with nothing but reads in between
            if p > 0 and accs[p - 1] == acc and only_reads_between(c.ops, p) and j["loaded"][p - 1] == j["loaded"][p]:
                stats["twice_pairs"] += 1
                if j["runs"][p - 1] != run:
                    stats["differences"] += 1
                    if reported < max_report:
                        reported += 1
                        what = "runs #%d and #%d of the history, with only reads in between, differ: %s" % (
                            p, p + 1, first_diff(j["runs"][p - 1], run))
                        res.violation("%s; families=%s ops=%s loads=%s" % (what, c.fams, ",".join(c.ops), j["loads"]),
                                      dict(c.replay(), kind="metamorphic", p_index=p, history_line=hl, batch_line=bl,
                                           history_dump=run, previous_dump=j["runs"][p - 1], diff=what))
    # Go map order: a few answers of the library still depend on it (C05's subject).  A difference counts only when
    # it is stable: history and batch are run again and must never produce a common dump.
    FL = 4
    rer = []
    for c, hl, p, run, bl, b in second:
        rer += [hl] * FL + [bl] * FL
    rout = run_go(rer)
    for k, (c, hl, p, run, bl, b) in enumerate(second):
        hs = [parse_for(c, o) for o in rout[2 * FL * k: 2 * FL * k + FL]]
        bs = [parse_for(c, o) for o in rout[2 * FL * k + FL: 2 * FL * (k + 1)]]
        hd = [json.dumps(run, sort_keys=True)] + [json.dumps(h["runs"][p], sort_keys=True) for h in hs if h]
        bd = [json.dumps(x["runs"][0], sort_keys=True) for x in bs + [b]
              if x and x.get("runs") and all(l == "ok" for l in x["loads"])]
        if set(hd) & set(bd):
            stats["map_order_dependent"] += 1
            continue
        stats["differences"] += 1
        if reported < max_report:
            reported += 1
            j = parse_for(c, hist_out[cases.index(c)])
            loaddiff = b is None or any(l != "ok" for l in b["loads"])
            what = ("a text accepted by the history is rejected by a fresh set" if loaddiff else
                    "Process #%d of the history differs from a fresh batch run on the accepted texts: %s" % (
                        p + 1, first_diff(run, b["runs"][0])))
            res.violation("%s; families=%s ops=%s loads=%s" % (what, c.fams, ",".join(c.ops), j["loads"]),
                          dict(c.replay(), kind="metamorphic", p_index=p, history_line=hl, batch_line=bl,
                               history_dump=run, batch_dump=(b["runs"][0] if b and b.get("runs") else b), diff=what))
    return parsed


# ------------------------------------------------------------------------------------------------ correspondence
IDENT_RE = re.compile(r"(?m)^\s*identity\s+([A-Za-z0-9_.-]+)")


def item_lines(text):
    """first line of every item of a text (items are joined by one newline)"""
    out, line = [], 1
    for it in text["items"]:
        out.append(line)
        line += (it["src"] + "\n").count("\n")
    return out


def abstract(texts):
    """tokens of the texts for the extracted machine, and (file name, line) -> item identifier"""
    toks, where = [str(len(texts))], {}
    for ti, t in enumerate(texts):
        if t["syntax"]:
            toks.append("S")
            continue
        toks += ["I", str(len(t["items"]))]
        lines = item_lines(t)
        for k, it in enumerate(t["items"]):
            iid = ti * 100 + k + 1
            where[(t["name"], lines[k])] = iid
            if not it["good"]:
                toks += ["B", str(len(it["tds"]))]
                continue
            refs = lambda l: ",".join("%s:%s" % (hx(n), hx(r) if r else "~") for n, r in l) if l else "-"
            ids = IDENT_RE.findall(it["src"])
            toks += ["G", str(iid), it["kind"], hx(it["mod"]), ",".join(hx(r) for r in it["revs"]) if it["revs"] else "-",
                     hx(it["ns"]), hx(it["belongs"]) if it["belongs"] else "~", str(len(it["tds"])),
                     refs(it["imports"]), refs(it["includes"]), ",".join(hx(i) for i in ids) if ids else "-"]
    return toks, where


def model_line(texts, ops, fx="now"):
    toks, where = abstract(texts)
    return " ".join(["c18hist", fx] + toks + [str(len(ops))] + ops), where


def gohist_line(texts, ops):
    toks = ["c18hist", ",".join(ops), str(len(texts))]
    for t in texts:
        toks += [hx(t["name"]), hx(t["src"])]
    return " ".join(toks)


def canon_gohist(line, where):
    """the implementation's line with source positions replaced by item identifiers"""
    def ident(h):
        src = bytes.fromhex(h).decode()
        f, ln, _ = src.rsplit(":", 2)
        return str(where.get((f, int(ln)), "?" + src))

    def smap(v):
        if v == "-":
            return "-"
        return ",".join(sorted("%s:%s" % (kv.split(":")[0], ident(kv.split(":")[1])) for kv in v.split(",")))

    out = []
    for part in line.split(" ; "):
        f = part.split(" ")
        if f[0].startswith("L"):
            out.append("%s M=%s S=%s" % (f[0], smap(f[1][2:]), smap(f[2][2:])))
        elif f[0] == "P":
            b = f[2][2:]
            if b != "-":
                bs = []
                for x in b.split(","):
                    m = re.match(r"^([0-9a-f]+)\.([ic])\.(\d+)>([0-9a-f]+)$", x)
                    bs.append("%s.%s.%s>%s" % (ident(m.group(1)), m.group(2), m.group(3), ident(m.group(4))))
                b = ",".join(sorted(bs))
            out.append("P B=%s" % b)
        elif f[0].startswith("N=f"):
            out.append("N=f" + ident(f[0][3:]))
        else:
            out.append(f[0])
    return out


def ids_of(lpart):
    """item identifiers filed in ms.Modules / ms.SubModules according to an L part"""
    ids = set()
    for f in lpart.split(" ")[1:]:
        v = f[2:]
        if v != "-":
            ids |= {kv.split(":")[1] for kv in v.split(",")}
    return ids


def filed(acc, items):
    """the accepted items that have a key in ms.Modules / ms.SubModules: all of them, except that a module without
    revision statement loses its only key, the bare name, to an accepted namesake that has a revision (C13)"""
    out = set()
    for i in acc:
        it = items[i]
        if it["revs"] or not any(items[j]["revs"] and items[j]["kind"] == it["kind"] and items[j]["mod"] == it["mod"]
                                 for j in acc):
            out.add(i)
    return out


def correspondence(res, cases, stats, max_report=3):
    """model (extracted machine run with History.now) against implementation, and the implementation against the
    specification: verdict of every load, accepted items after every load, bindings after Process, namespace answers"""
    mls, gls, wheres = [], [], []
    for c in cases:
        ml, where = model_line(c.texts, c.hops)
        mls.append(ml)
        wheres.append(where)
        gls.append(gohist_line(c.texts, c.hops))
    go = run_go(gls)
    ml = lib.run_ml(mls)
    reported = 0
    for c, gl, mline, g, m, where in zip(cases, gls, mls, go, ml, wheres):
        stats["corr_cases"] += 1
        if " || " not in m or g.startswith("PANIC") or g.startswith("CRASH") or g == "NOT-RUN":
            stats["corr_mismatch"] += 1
            if reported < max_report:
                reported += 1
                res.violation("model or implementation did not complete: impl=%s model=%s" % (g[:200], m[:200]),
                              dict(c.replay(), kind="correspondence", impl_line=gl, model_line=mline, impl=g, model=m))
            continue
        mparts, sparts = [x.split(" ; ") for x in m.split(" || ")]
        gparts = canon_gohist(g, where)
        items = {str(ti * 100 + k + 1): it for ti, t in enumerate(c.texts) for k, it in enumerate(t["items"])}
        bad = None
        for k, (op, gp, mp, sp) in enumerate(zip(c.hops, gparts, mparts, sparts)):
            stats["corr_ops"] += 1
            if op.startswith("L"):
                if sp.endswith("part=1"):
                    stats["corr_d43_shaped_loads"] += 1
                if gp != mp:
                    bad = ("tie", k, gp, mp)
                    break
                # oracle: verdict and accepted set as the specification says
                acc = set(sp.split(" ")[1][2:].split(",")) - {"-"}
                if gp[:2] != sp[:2] or ids_of(gp) != filed(acc, items):
                    bad = ("oracle", k, gp, sp)
                    break
            elif op == "P":
                stats["corr_binds_compared"] += 1
                if gp != "P " + mp.split(" ")[2]:
                    bad = ("tie", k, gp, mp)
                    break
            elif op.startswith("N"):
                stats["corr_ns"] += 1
                if gp != mp:
                    bad = ("tie", k, gp, mp)
                    break
                if gp != sp:
                    bad = ("oracle", k, gp, sp)
                    break
        if bad:
            stats["corr_mismatch"] += 1
            if reported < max_report:
                reported += 1
                kind, k, x, y = bad
                what = ("model and implementation disagree" if kind == "tie" else
                        "implementation differs from the specification") + " at op %d (%s) of %s: impl=%s %s=%s" % (
                            k, c.hops[k], ",".join(c.hops), x[:300], "model" if kind == "tie" else "spec", y[:300])
                res.violation(what, dict(c.replay(), kind="correspondence-" + kind, impl_line=gl, model_line=mline,
                                         impl=g, model=m))


def with_ns_ops(rnd, c):
    """the history with namespace lookups inserted (for the c18hist commands only)"""
    nss = sorted({it["ns"] for t in c.texts for it in t["items"] if it["good"] and it["ns"]}) + ["urn:none"]
    out = []
    for op in c.ops:
        if op == "C" or op[0] in "DF":
            continue                      # ClearEntryCache and files exist in c18proc only
        if op.startswith("R"):
            op = "L" + op[1:]             # Read of a file = Parse of its text
        if op.startswith("G"):
            op = "P"                      # GetModule = Process + ToEntry
        out.append(op)
        if rnd.random() < 0.3:
            out.append("N" + hx(rnd.choice(nss)))
    return out


# ------------------------------------------------------------------------------------------------ the command
# `goyang FILE...` reports a file it cannot load and carries on (yang.go): the rest of the run -- exit status, standard
# output, the other messages -- must be that of the same command without the rejected argument.
GOYANG = os.path.join(lib.WORK, "goyang-c18")


def build_cli():
    os.makedirs(lib.WORK, exist_ok=True)
    rc, out = lib.sh(["go", "build", "-o", GOYANG, "."], cwd=lib.REPO, env=lib.GOENV, timeout=300)
    return rc == 0, out


def cli_run(root, fmt, args, flags=()):
    p = subprocess.run([GOYANG] + list(flags) + ["--format", fmt] + list(args), cwd=root, stdout=subprocess.PIPE,
                       stderr=subprocess.PIPE, timeout=60)
    return dict(rc=p.returncode, stdout=p.stdout.decode("utf8", "replace"),
                stderr=sorted(l for l in p.stderr.decode("utf8", "replace").split("\n") if l))


def cli_layouts(rnd, n_random):
    """(files {relative path: text}, good arguments, rejected arguments, flags): the rejected files lie in directories
    that also hold modules the good files import or include"""
    D = {it["mod"]: it["src"] for it in fam_disk()}
    I = {it["mod"]: it["src"] for it in fam_identities()}
    bads = bad_items("c")
    broken = [("syntax", D["dz"].rstrip()[:-1]), ("unknown-statement", bads[0]["src"]), ("second-type", bads[1]["src"]),
              ("not-a-module", bads[2]["src"]), ("typedef", bads[3]["src"]), ("keyword", bads[5]["src"]),
              ("partial", D["dn"] + "\nfrobnicate x;\n"), ("duplicate", D["dm"]), ("empty-braces", "module {}\n")]
    out = []
    for kind, text in broken:
        for order in (0, 1):
            # the import of good/dm.yang (dz) can be satisfied from other/ only, where the rejected file lies
            files = {"good/dm.yang": D["dm"], "other/dz.yang": D["dz"], "other/broken.yang": text}
            out.append((files, ["good/dm.yang"], ["other/broken.yang"], [], order, "import-only-there:" + kind))
        # an include found only beside the rejected file
        out.append(({"good/dp.yang": D["dp"], "other/ds.yang": D["ds"], "other/broken.yang": text},
                    ["good/dp.yang"], ["other/broken.yang"], [], 0, "include-only-there:" + kind))
        # controls: the module is also beside the good file / the directory is that of another, good, argument /
        # it is on --path: resolved with and without the rejected argument
        out.append(({"good/dm.yang": D["dm"], "good/dz.yang": D["dz"], "other/dz.yang": D["dz"], "other/broken.yang": text},
                    ["good/dm.yang"], ["other/broken.yang"], [], 1, "also-beside-good:" + kind))
        out.append(({"good/dm.yang": D["dm"], "other/dz.yang": D["dz"], "other/dn.yang": D["dn"], "other/dy.yang": D["dy"],
                     "other/broken.yang": text},
                    ["good/dm.yang", "other/dn.yang"], ["other/broken.yang"], [], 0, "dir-of-good-argument:" + kind))
        out.append(({"good/dm.yang": D["dm"], "other/dz.yang": D["dz"], "other/broken.yang": text},
                    ["good/dm.yang"], ["other/broken.yang"], ["--path", "other"], 0, "on-path:" + kind))
        # two rejected files in two directories, identities through imports
        out.append(({"good/i2.yang": I["i2"], "a/ib.yang": I["ib"], "b/i1.yang": I["i1"], "a/broken.yang": text,
                     "b/broken2.yang": broken[0][1]},
                    ["good/i2.yang"], ["a/broken.yang", "b/broken2.yang"], [], 1, "two-directories:" + kind))
    # a duplicate is the copy of a good argument that comes after it
    fixed = []
    for files, good, rej, flags, order, label in out:
        if label.endswith(":duplicate"):
            files = dict(files, **{rej[0]: files[good[0]]})
            order = 1
        fixed.append((files, good, rej, flags, order, label))
    out = fixed
    pool = dict(D, **I)
    names = sorted(pool)
    for _ in range(n_random):
        files, good, rej = {}, [], []
        dirs = ["good", "other", "third"]
        for m in rnd.sample(names, rnd.randint(2, 6)):
            d = rnd.choice(dirs)
            files["%s/%s.yang" % (d, m)] = pool[m]
            if rnd.random() < 0.5:
                good.append("%s/%s.yang" % (d, m))
        if not good:
            good.append(sorted(files)[0])
        for k in range(rnd.randint(1, 2)):
            d = rnd.choice(dirs)
            f = "%s/broken%d.yang" % (d, k)
            files[f] = rnd.choice(broken[:-2] + broken[-1:])[1]      # (no duplicates here: which copy loses depends on the order)
            rej.append(f)
        flags = ["--path", rnd.choice(dirs)] if rnd.random() < 0.2 else []
        out.append((files, good, rej, flags, rnd.randrange(3), "random"))
    return out


def cli_leg(res, rnd, n_random, stats, max_report=3):
    ok, out = build_cli()
    if not ok:
        res.violation("the goyang command does not build: " + out[-400:], dict(kind="cli-build", log=out[-2000:]), no_input=True)
        return
    reported = 0
    for files, good, rej, flags, order, label in cli_layouts(rnd, n_random):
        root = tempfile.mkdtemp(prefix="c18cli")
        try:
            for f, text in files.items():
                os.makedirs(os.path.join(root, os.path.dirname(f)), exist_ok=True)
                with open(os.path.join(root, f), "w") as fh:
                    fh.write(text)
            args = {0: rej + good, 1: good + rej, 2: good[:1] + rej + good[1:]}[order]
            for fmt in ("tree", "types"):
                stats["cli_runs"] += 1
                w = cli_run(root, fmt, args, flags)
                wo = cli_run(root, fmt, good, flags)
                rest = list(w["stderr"])
                missing = []
                for l in wo["stderr"]:
                    if l in rest:
                        rest.remove(l)
                    else:
                        missing.append(l)
                stats["cli_resolved" if wo["rc"] == 0 else "cli_failing"] += 1
                if w["rc"] != wo["rc"] or w["stdout"] != wo["stdout"] or missing or not rest:
                    stats["differences"] += 1
                    if reported < max_report:
                        reported += 1
                        what = ("goyang --format %s %s %s [%s]: exit %d, %d bytes of output, messages %s; without the rejected "
                                "argument(s) %s: exit %d, %d bytes, messages %s" % (
                                    fmt, " ".join(flags), " ".join(args), label, w["rc"], len(w["stdout"]), w["stderr"][:4],
                                    rej, wo["rc"], len(wo["stdout"]), wo["stderr"][:4]))
                        res.violation(what, dict(kind="cli", files=files, args=args, good=good, rejected=rej, flags=flags,
                                                 format=fmt, with_rejected=w, without=wo))
        finally:
            shutil.rmtree(root, ignore_errors=True)


# ------------------------------------------------------------------------------------------------ trees of files
# Histories over a TREE of files reached through the search path alone (command c18tree of harness/go/c18.go): the
# same module name occurs in several directories with different contents (a vendor tree with one directory per
# release), rejected files lie beside them, and the search path is root/..., the directories in some order, or a mix.
# Loads by BARE NAME (Modules.Read / GetModule, found by the scan of Path) fail or succeed; afterwards modules are
# looked up by name (imports / includes loaded on demand by Process, Read, GetModule).
#   oracle (the property's text)  the history with its failed loads taken out, run on a fresh set over the same tree,
#       gives the same verdicts, the same dumps for every run, the same set of loaded files, the same ms.Path;
#   model   every file of the tree that is in the set is the one coq/Model/File.v (findFile_fs, extracted command
#       findfile of the C13 part) finds for that name on this tree and this search path: which file a lookup finds is a
#       function of tree, Path and name, not of the lookups that went before.
TREE_TYPES = ["string", "int32", "uint8", "boolean", "int64"]
TREE_DIRS = ["rel-1", "rel-2", "rel-3", "rel-2/sub", "common/x", "a"]


def tree_module(name, k):
    """version k of a module of the tree (k = 'e': a version with a tree-level error, 'd': a dated one)"""
    ty = TREE_TYPES[k % len(TREE_TYPES)] if isinstance(k, int) else "string"
    if name == "dup":
        body = "  typedef t { type %s; }\n  leaf from-%s { type t; }\n" % (ty, k)
        if k == "e":
            body += "  container c { uses nosuchgrouping; }\n"
        return module("dup", rev=D1 if k == "d" else None, tds=["t"], body=body)["src"]
    if name == "lib":
        return module("lib", tds=["lt"], body="  typedef lt { type %s; }\n  grouping g { leaf lib-%s { type lt; } }\n" % (ty, k))["src"]
    if name == "chain":
        return module("chain", imports=[("dup", "d", None)], body="  leaf via-chain-%s { type d:t; }\n" % k)["src"]
    if name == "usub":
        return module("usub", belongs="host", prefix="h", body="  leaf sub-%s { type %s; }\n" % (k, ty))["src"]
    raise ValueError(name)


def tree_texts():
    """the texts that are loaded with Parse: users of the modules of the tree, and one rejected text"""
    goods = [module("user", imports=[("dup", "d", None)], body="  container c { leaf l { type d:t; } }\n"),
             module("user2", imports=[("lib", "l", None)], body="  uses l:g;\n  leaf m { type l:lt; }\n"),
             module("host", includes=[("usub", None)], body="  leaf own { type string; }\n"),
             module("user4", imports=[("chain", "c", None), ("lib", "l", None)], body="  leaf z { type l:lt; }\n")]
    texts = [text_of(it["mod"] + ".yang", [it]) for it in goods]
    texts.append(text_of("rejected.yang", [bad_items("t")[0]]))
    return texts


def tree_broken():
    bads = bad_items("t")
    good = tree_module("lib", 7)
    return [("syntax", good.rstrip()[:-1]), ("unbalanced", good + "}\n"), ("unknown-statement", bads[0]["src"]),
            ("second-type", bads[1]["src"]), ("not-a-module", bads[2]["src"]), ("typedef", bads[3]["src"]),
            ("keyword", bads[5]["src"]), ("partial", tree_module("lib", 8).replace("module lib", "module other") + "\nfrobnicate x;\n"),
            ("empty-braces", "module {}\n")]


class TreeCase:
    def __init__(self, label, files, path, ops, opts="-"):
        self.label, self.files, self.path, self.ops, self.opts = label, files, path, ops, opts
        self.texts = tree_texts()

    def line(self, ops=None):
        toks = ["c18tree", self.opts, ",".join(ops if ops is not None else self.ops), ",".join(self.path) if self.path else "-",
                str(len(self.files))]
        for f in sorted(self.files):
            toks += [hx(f), hx(self.files[f])]
        toks.append(str(len(self.texts)))
        for t in self.texts:
            toks += [hx(t["name"]), hx(t["src"])]
        return " ".join(toks)

    def stems(self):
        return sorted({os.path.basename(f).split("@")[0].replace(".yang", "") for f in self.files})

    def model_lines(self):
        """one findfile line of the C13 part per module name of the tree: (tree, cwd = an empty directory, Path, name)"""
        def entries(prefix):
            names = {}
            for f in self.files:
                if f.startswith(prefix):
                    head, _, rest = f[len(prefix):].partition("/")
                    names[head] = bool(rest) or names.get(head, False)
            return [(n, entries(prefix + n + "/") if isdir else None) for n, isdir in sorted(names.items(), key=lambda kv: kv[0].encode())]

        def tok(ents):
            return "(" + ",".join(("D" + hx(n) + tok(c)) if c is not None else ("F" + hx(n)) for n, c in ents) + ")"

        ents = sorted(entries("") + [("cwd", [])], key=lambda e: e[0].encode())
        ptoks = []
        for p in self.path:
            dots = p.endswith("+")
            q = p.rstrip("+")
            ptoks.append(("." if q == "." else "/".join(hx(c) for c in q.split("/"))) + ("+" if dots else ""))
        return ["findfile %s %s %s %s" % (tok(ents), hx("cwd"), ";".join(ptoks) if ptoks else "-", hx(n)) for n in self.stems()]

    def replay(self):
        return dict(kind="tree", label=self.label, files=self.files, path=self.path, ops=self.ops, opts=self.opts)


def tree_layout(rnd, broken, force_dup=True):
    """files of a random tree: every module name in 1..3 directories (different versions), rejected files beside them"""
    dirs = rnd.sample(TREE_DIRS, rnd.randint(2, 4))
    files, k = {}, 0
    for name in ("dup", "lib", "usub", "chain"):
        if name == "chain" and rnd.random() < 0.4:
            continue
        n = rnd.choice([1, 2, 2, 3]) if not (force_dup and name == "dup") else rnd.choice([2, 2, 3])
        for d in rnd.sample(dirs, min(n, len(dirs))):
            k += 1
            x = rnd.random()
            if name == "dup" and x < 0.12:
                files["%s/dup@%s.yang" % (d, D1)] = tree_module("dup", "d")
            elif name == "dup" and x < 0.22:
                files["%s/dup.yang" % d] = tree_module("dup", "e")
            elif name == "lib" and x < 0.06:
                files["%s/lib.yang" % d] = rnd.choice(broken)[1]          # an import whose first candidate is rejected
            else:
                files["%s/%s.yang" % (d, name)] = tree_module(name, k)
    bnames = []
    for j in range(rnd.choice([1, 1, 2, 3])):
        bn = "broken%d" % j
        for d in rnd.sample(dirs, rnd.choice([1, 1, 2])):
            files["%s/%s.yang" % (d, bn)] = rnd.choice(broken)[1]
        bnames.append(bn)
    return dirs, files, bnames


def tree_paths(rnd, dirs):
    x = rnd.random()
    if x < 0.35:
        return [".+"]
    ds = list(dirs)
    rnd.shuffle(ds)
    if x < 0.65:
        return ds
    if x < 0.8:
        return ds[:rnd.randint(1, len(ds))] + [".+"]
    if x < 0.9:
        return [".+"] + ds[:1]
    tops = sorted({d.split("/")[0] for d in ds})
    rnd.shuffle(tops)
    return [t + "+" for t in tops]


TREE_USERS = ["user", "user2", "host", "user4"]      # indices 0..3 of tree_texts(); 4 = the rejected text


def tree_ops(rnd, bnames, maxlen=8):
    """a history: failing loads by bare name (0, 1, 2, ... of them; at the start, between loads, after a run), loads of
    users with Parse, loads of modules of the tree by name, runs"""
    n = rnd.randint(2, maxlen)
    ops = []
    for _ in range(n - 1):
        x = rnd.random()
        if x < 0.3:
            ops.append(rnd.choice(["R", "R", "R", "M"]) + hx(rnd.choice(bnames)))
        elif x < 0.34:
            ops.append(rnd.choice("RM") + hx("nosuchmodule"))
        elif x < 0.38:
            ops.append("L4")
        elif x < 0.5:
            ops.append("R" + hx(rnd.choice(["dup", "lib", "chain", "usub"])))
        elif x < 0.78:
            ops.append("L%d" % rnd.randrange(4))
        elif x < 0.9 and ops:
            ops.append("P")
        elif x < 0.95 and ops:
            ops.append(rnd.choice("TC"))
        else:
            ops.append("G" + hx(rnd.choice(["dup", "lib", "chain"] + TREE_USERS)))
    ops.append("P" if rnd.random() < 0.8 else "G" + hx(rnd.choice(["dup", "chain", "user", "user4"])))
    return ops


TREE_SCRIPTS = ["R!,L0,P", "L0,R!,P", "L1,P,R!,L0,P,P", "R!,Rdup,P", "M!,L0,P,P", "R!,R!,L0,L2,P", "R!,Gdup", "R!,L3,P",
                "L2,R!,P,L0,P", "R!,L4,L0,L1,L2,P", "Rlib,R!,L0,P", "R!,T,L2,L3,P,P", "L0,P,R!,P", "R!,Guser4"]


def tree_cases(rnd, n_random):
    broken = tree_broken()
    cases = []

    def script(s, bn):
        out = []
        for o in s.split(","):
            if o.endswith("!"):
                out.append(o[0] + hx(bn))
            elif o[0] in "RGM":
                out.append(o[0] + hx(o[1:]))
            else:
                out.append(o)
        return out

    # scripted: one directory per release, the rejected file in one of them, every kind of rejected file, the rejected
    # file's directory first / in the middle / last in the order of the search, every shape of search path
    k = 0
    for kind, text in broken:
        for where in (0, 1, 2):
            rel = ["rel-1", "rel-2", "rel-3"]
            files = {}
            for i, d in enumerate(rel):
                for name in ("dup", "lib", "usub"):
                    files["%s/%s.yang" % (d, name)] = tree_module(name, i + 1)
            files["rel-%d/chain.yang" % (3 - where)] = tree_module("chain", 1)
            files["%s/broken0.yang" % rel[where]] = text
            for path in ([".+"], rel, rel[::-1], ["rel-2", ".+"]):
                s = TREE_SCRIPTS[k % len(TREE_SCRIPTS)]
                k += 1
                cases.append(TreeCase("scripted:%s:%s" % (kind, s), files, path, script(s, "broken0"), "-fq"[k % 3]))
    # controls of the family: every module name once / the rejected file alone in its directory
    for s in TREE_SCRIPTS:
        files = {"rel-1/dup.yang": tree_module("dup", 1), "rel-1/lib.yang": tree_module("lib", 1),
                 "rel-2/usub.yang": tree_module("usub", 1), "rel-2/chain.yang": tree_module("chain", 1),
                 "rel-3/broken0.yang": broken[2][1]}
        cases.append(TreeCase("control:%s" % s, files, [".+"], script(s, "broken0")))
    for _ in range(n_random):
        dirs, files, bnames = tree_layout(rnd, broken)
        cases.append(TreeCase("random", files, tree_paths(rnd, dirs), tree_ops(rnd, bnames), rnd.choice("--fq")))
    return cases


def tree_sorted(j):
    for run in j["runs"]:
        pairs = sorted(zip(run["errors"], run["errpos"]))
        run["errors"], run["errpos"] = [e for e, _ in pairs], [q for _, q in pairs]
    return j


def tree_is_load(op):
    return op[0] in "LRM"


def tree_failed(v):
    return v.startswith("err:") or v.startswith("errload")


def tree_judge(c, h, ref_of, model):
    """(what, details) of the first discrepancy of one tree history, or None.  h = parsed history output, ref_of(ops) =
    parsed output of a fresh set run on ops, model = {module name: file the model finds}"""
    loads = [o for o in c.ops if tree_is_load(o)]
    if len(h["loads"]) != len(loads):
        return "history did not complete", {}
    # the model: every file of the tree that is in the set is the one the model finds for its name
    mbad = None
    if model is not None:
        for stage, sets in (("run", h["loaded"]), ("load", h["after"])):
            for r, srcs in enumerate(sets):
                for src in srcs:
                    f = src.rsplit(":", 2)[0]
                    if "/" not in f or mbad:
                        continue
                    stem = os.path.basename(f).split("@")[0].replace(".yang", "")
                    if model.get(stem) != f:
                        mbad = ("after %s #%d the set holds %s, but the file that the search path %s leads to for the name %s "
                                "is %s (coq/Model/File.v findFile_fs)" % (stage, r + 1, f, c.path, stem, model.get(stem)),
                                dict(model=model))
    # the search path is that of the start throughout
    if any(p != h["paths"][0] for p in h["paths"]):
        return "ms.Path changes along a history of loads by bare name: %s" % h["paths"], {}
    failed = [tree_failed(v) for v in h["loads"]]
    if not any(failed):
        return mbad
    kept, li = [], 0
    for o in c.ops:
        if tree_is_load(o):
            if not failed[li]:
                kept.append(o)
            li += 1
        else:
            kept.append(o)
    b = ref_of(kept)
    if b is None:
        return "the history without its failed loads did not complete on a fresh set", dict(reference_ops=kept)
    hv = [v for v, f in zip(h["loads"], failed) if not f]
    ha = [a for a, f in zip(h["after"], failed) if not f]
    for what, x, y in (("verdicts of the other loads", hv, b["loads"]), ("runs", h["runs"], b["runs"]),
                       ("files in the set after the runs", h["loaded"], b["loaded"]),
                       ("files in the set after the other loads", ha, b["after"]), ("ms.Path", h["paths"], b["paths"])):
        if x != y:
            return ("with the failed loads %s the %s differ from those of a fresh set that was never offered them: %s" % (
                [tree_show(o) for o, f in zip(loads, failed) if f], what, first_diff(x, y)) + ("; also, " + mbad[0] if mbad else ""),
                    dict(reference_ops=kept, history=x, reference=y))
    return mbad


def tree_leg(res, cases, stats, max_report=3):
    lines = [c.line() for c in cases]
    outs = run_go(lines)
    mlines = []
    for c in cases:
        mlines += c.model_lines()
    mouts = lib.run_ml(mlines) if mlines else []
    use_model = bool(mouts) and not any(o.startswith("unknown-cmd") for o in mouts[:1])
    stats["tree_model_lookups"] += len(mouts) if use_model else 0
    parsed, models, refs, k = [], [], {}, 0
    for c, o in zip(cases, outs):
        j = tree_sorted(parse(o)) if parse(o) else None
        parsed.append(j)
        m = None
        if use_model:
            m = {}
            for n in c.stems():
                a = mouts[k].split(" | ")[0]
                k += 1
                m[n] = None if a == "-" else ("/".join(bytes.fromhex(x).decode() for x in a.split("/")) if re.match(r"^[0-9a-f/]+$", a) else "?" + a)
        models.append(m)
        if j is not None and len(j["loads"]) == sum(1 for o in c.ops if tree_is_load(o)) and any(tree_failed(v) for v in j["loads"]):
            failed = [tree_failed(v) for v in j["loads"]]
            kept, li = [], 0
            for o in c.ops:
                if tree_is_load(o):
                    if not failed[li]:
                        kept.append(o)
                    li += 1
                else:
                    kept.append(o)
            refs[c.line(kept)] = None
    keys = list(refs)
    for key, o in zip(keys, run_go(keys)):
        refs[key] = tree_sorted(parse(o)) if parse(o) else None
    stats["tree_reference_runs"] += len(keys)
    reported = 0
    for c, l, o, j, m in zip(cases, lines, outs, parsed, models):
        stats["tree_histories"] += 1
        if j is None:
            bad = ("history did not complete: %s" % o[:300], {})
        else:
            nf = sum(1 for v in j["loads"] if tree_failed(v))
            stats["tree_failed_loads"] += nf
            stats["tree_runs"] += len(j["runs"])
            ondemand = sum(1 for srcs in j["loaded"][-1:] for s_ in srcs if "/" in s_.rsplit(":", 2)[0])
            stats["tree_files_in_final_set"] += ondemand
            if nf and ondemand:
                stats["tree_nontrivial"] += 1
            bad = tree_judge(c, j, lambda ops: refs.get(c.line(ops)), m)
        if bad:
            stats["differences"] += 1
            if reported < max_report:
                reported += 1
                what, det = bad
                res.violation("tree of files [%s] path=%s ops=%s loads=%s: %s" % (
                    c.label, c.path, ",".join(tree_show(o_) for o_ in c.ops), j["loads"] if j else "?", what),
                    dict(c.replay(), history_line=l, diff=what, **det))


def tree_show(op):
    return op[0] + bytes.fromhex(op[1:]).decode() if op[0] in "RMG" else op


def gen_cases(rnd, n, which=None):
    cases = []
    for _ in range(n):
        fams, texts = universe(rnd, which)
        ops = gen_ops(rnd, texts)
        c = Case(fams, texts, ops, rnd.choice(["-", "e", "q", "f", "e", "eq", "ef"]))
        c.hops = with_ns_ops(rnd, c)
        cases.append(c)
    return cases


def new_stats():
    return dict(histories=0, nontrivial=0, crashed=0, loads_ok=0, loads_failed=0, process_runs=0, batch_runs=0,
                runs_with_errors=0, runs_clean=0, differences=0, map_order_dependent=0, twice_pairs=0,
                cli_runs=0, cli_resolved=0, cli_failing=0,
                tree_histories=0, tree_nontrivial=0, tree_failed_loads=0, tree_runs=0, tree_reference_runs=0,
                tree_files_in_final_set=0, tree_model_lookups=0,
                corr_cases=0, corr_ops=0, corr_mismatch=0, corr_d43_shaped_loads=0, corr_binds_compared=0, corr_ns=0)


def run(res, tier, seed, proof):
    rnd = random.Random(seed)
    stats = new_stats()
    corpus = corpus_cases()
    for c in corpus:
        c.hops = with_ns_ops(rnd, c)
    n = 12000 if tier == "quick" else 150000
    cases = corpus + gen_cases(rnd, n)
    fam_hist = {}
    for c in cases:
        k = "+".join(sorted(c.fams))
        fam_hist[k] = fam_hist.get(k, 0) + 1
    CH = 4000
    for i in range(0, len(cases), CH):
        chunk = cases[i:i + CH]
        metamorphic(res, chunk, stats)
        correspondence(res, chunk, stats)
    cli_leg(res, rnd, 60 if tier == "quick" else 1500, stats)
    trnd = random.Random(seed * 7919 + 18)
    tcases = tree_cases(trnd, 1000 if tier == "quick" else 20000)
    for i in range(0, len(tcases), CH):
        tree_leg(res, tcases[i:i + CH], stats)
    sample = cases[len(corpus) + 1]
    cov = dict(
        evaluations=stats["process_runs"] + stats["corr_ops"] + stats["tree_runs"] + stats["tree_model_lookups"],
        distinct_nontrivial=stats["nontrivial"],
        rule="%d scripted corpus histories (one per defect found by this check, plain / with every kind of failing text "
             "interleaved / the D43 shapes) and %d random histories of 2..10 ops over pools of 1-2 families (typedef chains, "
             "identities, revisions, submodules, equal namespaces, failing-include chains, random resolver schemas) plus "
             "3-8 bad texts; every Process dump compared with a fresh batch run on the accepted texts (re-run 4x4 times "
             "before a difference counts); every history also run through c18hist on model and implementation with "
             "namespace lookups inserted; non-trivial = a history with a failed load and at least two Process calls; "
             "%d histories over trees of files reached through the search path only (a module name in several "
             "directories with different contents, rejected files beside them; Path = root/..., the directories in "
             "some order, or a mix; loads by bare name with Read / GetModule that fail or succeed, 0..n of them before, "
             "between and after loads of importing / including texts and runs): each compared with the same history "
             "without its failed loads on a fresh set, and every file of the tree that enters the set with the file "
             "coq/Model/File.v finds for that name (tree_nontrivial = a failed load and a file of the tree in the final set)"
             % (len(corpus), n, len(tcases)),
        exhaustive=False, mismatches=stats["differences"] + stats["corr_mismatch"] + stats["crashed"],
        distribution=dict(stats, families=fam_hist),
        samples=[dict(ops=sample.ops, families=sample.fams, texts=[t["name"] for t in sample.texts]),
                 process_line(sample.texts, sample.ops, sample.opts)[:400]],
    )
    assumptions = [
        "the result of Process and of every query is a function of what coq/Model/History.v calls the view: the two "
        "module maps, the accepted module objects, the typedef dictionary, the import/include bindings, the identity "
        "dictionary and the resolved-type memo (the resolver proper is not modelled here, see C04-C09, C11, C12, C17); "
        "the metamorphic comparison on the implementation does not depend on this",
        "texts are abstracted to items by the generator that wrote them (kind, name, revisions, namespace, belongs-to, "
        "imports, includes, identity names, number of typedefs); the model never sees the text",
        "type memo modelled per import/include statement, not per Type node; Identity.Values is part of the identity "
        "dictionary in the model",
        "the file-system fallback of FindModule (Read of name.yang) is not part of coq/Model/History.v; the metamorphic "
        "histories exercise it (op D: a text offered as a file of the search path; what Process reads by itself counts as "
        "accepted), the correspondence histories drop those ops.  Histories over trees of files (c18tree) are checked by "
        "an implementation-side oracle that is the property's text (the history without its failed loads on a fresh set "
        "gives the same verdicts, dumps, loaded files and Path) and against the file chooser of coq/Model/File.v (C13's "
        "model, command findfile: the file found is a function of tree, Path and name only -- no state of earlier "
        "lookups); the current directory holds no .yang file there, names are bare module names without revision",
        "a difference between history and batch that disappears when both sides are re-run is attributed to Go map "
        "iteration order and counted as map_order_dependent, not reported (none occurs since Process visits the modules in "
        "key order)",
        "include recursion in the model runs on fuel = number of loaded modules + 1 (exhaustion would be reported as "
        "a failed include; not proved unreachable, never observed)",
    ]
    return cov, assumptions


def replay(rep, res):
    kind = rep.get("kind", "metamorphic")
    if kind == "cli":
        ok, out = build_cli()
        root = tempfile.mkdtemp(prefix="c18cli")
        try:
            for f, text in rep["files"].items():
                os.makedirs(os.path.join(root, os.path.dirname(f)), exist_ok=True)
                with open(os.path.join(root, f), "w") as fh:
                    fh.write(text)
            w = cli_run(root, rep["format"], rep["args"], rep["flags"])
            wo = cli_run(root, rep["format"], rep["good"], rep["flags"])
        finally:
            shutil.rmtree(root, ignore_errors=True)
        print("goyang", rep["flags"], "--format", rep["format"], rep["args"])
        print("  with the rejected argument(s):", w["rc"], w["stderr"], len(w["stdout"]))
        print("  without                      :", wo["rc"], wo["stderr"], len(wo["stdout"]))
        same = w["rc"] == wo["rc"] and w["stdout"] == wo["stdout"] and all(l in w["stderr"] for l in wo["stderr"])
        return 0 if same else 1
    if kind == "tree":
        c = TreeCase(rep["label"], rep["files"], rep["path"], rep["ops"], rep["opts"])
        st = new_stats()
        tree_leg(res, [c], st)
        print("files  :", sorted(c.files))
        print("path   :", c.path, " ops:", ",".join(tree_show(o) for o in c.ops))
        j = parse(run_go([c.line()])[0])
        if j:
            print("loads  :", j["loads"])
            print("loaded :", j["loaded"])
        for what, r, _ in res.violations:
            print("DIFF   :", what)
        return 1 if res.violations else 0
    c = Case.of_replay(rep)
    if kind.startswith("correspondence"):
        st = new_stats()
        correspondence(res, [c], st)
        ml, where = model_line(c.texts, c.hops)
        print("ops  :", ",".join(c.hops))
        print("impl :", " ; ".join(canon_gohist(run_go([gohist_line(c.texts, c.hops)])[0], where)))
        print("model:", lib.run_ml([ml])[0])
        return 1 if res.violations else 0
    st = new_stats()
    metamorphic(res, [c], st)
    print("ops    :", ",".join(c.ops), "opts:", c.opts)
    for i, t in enumerate(c.texts):
        if ("L%d" % i) in c.ops:
            print("--- text %d (%s)" % (i, t["name"]))
            print(t["src"])
    print("stats  :", {k: v for k, v in st.items() if v})
    for what, r, _ in res.violations:
        print("DIFF   :", what)
    return 1 if res.violations else 0
