"""C14 — enum values and bit positions."""
import itertools
import random

import lib
from props.numgrid import hexs, simple_run, P63, P64

VALUES = [None, "0", "1", "-1", "-5", "7", "2147483646", "2147483647", "2147483648", "-2147483648", "-2147483649",
          "4294967294", "4294967295", "4294967296", "9223372036854775807", "9223372036854775808",
          "-9223372036854775808", "-9223372036854775809", "18446744073709551615", "-18446744073709551615",
          "18446744073709551609", "-18446744073709551609", " 7 ", "+3", "1.5", "", "-", "-0"]
CORE = [None, "0", "1", "-1", "-5", "-3", "-4", "2147483647", "-2147483648", "4294967295", "4294967294", "3"]


def case(bits, members):
    if not members:
        return "enum %d -" % bits
    return "enum %d %s" % (bits, ",".join("%s:%s" % (n, "~" if v is None else hexs(v)) for n, v in members))


def gen(tier, seed):
    rnd = random.Random(seed)
    cases = []
    names = ["a", "b", "c", "d", "e"]
    for bits in (0, 1):
        cases.append(case(bits, []))
        for k in (1, 2):
            for vs in itertools.product(VALUES, repeat=k):
                cases.append(case(bits, list(zip(names, vs))))
        for vs in itertools.product(CORE, repeat=3):
            cases.append(case(bits, list(zip(names, vs))))
        if tier == "thorough":
            for vs in itertools.product(CORE[:9], repeat=4):
                cases.append(case(bits, list(zip(names, vs))))
        # forced name collisions
        for nm in (["a", "a"], ["a", "b", "a"], ["a", "b", "b"], ["a", "a", "a"], ["a", "b", "c", "a"]):
            for vs in itertools.product([None, "4", "1", "-2"], repeat=len(nm)):
                cases.append(case(bits, list(zip(nm, vs))))
        # random longer sequences
        for _ in range(3000 if tier == "quick" else 60000):
            k = rnd.randint(3, 7)
            pool = rnd.choice([CORE, VALUES, [None, None, "5", "-7", "-6", "10", "9", "2147483645"]])
            nm = [rnd.choice(names) if rnd.random() < 0.15 else "m%d" % i for i in range(k)]
            cases.append(case(bits, [(nm[i], rnd.choice(pool)) for i in range(k)]))
    return cases


# ---- the EnumType API on its own (Set / SetNext call sequences): per-call verdicts and the final maps, so that
# the state after a REJECTED call is observed (through Type.resolve only the presence of an error is comparable)
API_ENUM = [0, 1, -1, 5, 2147483646, 2147483647, 2147483648, -2147483648, -2147483649]
API_BITS = [0, 1, -1, 5, 2147483647, 4294967294, 4294967295, 4294967296]
API_CORE = {0: [0, 1, 2147483646, 2147483647, -2147483648], 1: [0, 1, 4294967294, 4294967295]}
API_WIDE = [P63 - 1, -P63, 3, 2, -2, 7, 100]


def api_case(bits, ops):
    return "enumapi %d %s" % (bits, ",".join(ops) if ops else "-")


def api_ops(names, values):
    return ["n:%s" % hexs(n) for n in names] + ["s:%s:%d" % (hexs(n), v) for n in names for v in values]


MUT_OPS = ["md", "mo", "ma", "vd", "vo", "va", "ln", "lv"]   # read a container through the API and edit what was returned


def gen_api_mut(bits):
    """<1-2 calls> <read a container and edit it> <0-2 calls>: all views must still show the state the calls built"""
    mx = 4294967295 if bits else 2147483647
    pre = ["n:61", "n:62", "s:61:0", "s:61:5", "s:62:5", "s:62:%d" % mx]
    post = ["n:61", "n:62", "n:63", "s:61:0", "s:63:1", "s:63:%d" % mx]
    out = []
    for k in (1, 2):
        for p in itertools.product(pre, repeat=k):
            for m in MUT_OPS:
                for j in (0, 1, 2):
                    for q in itertools.product(post, repeat=j):
                        out.append(api_case(bits, list(p) + [m] + list(q)))
    for ms in itertools.product(MUT_OPS, repeat=2):
        out.append(api_case(bits, ["n:61", "s:62:5", ms[0], "n:63", ms[1], "n:64"]))
    return out


# ---- members with other substatements, through a typedef shared by two leaves (enummod)
SUBS = [("-", "-"), ("c", "-"), ("-", "c"), ("d", "-"), ("-", "d"), ("o", "-"), ("-", "o"), ("D", "-"), ("-", "r"),
        ("f", "-"), ("Dr", "of"), ("fo", "D")]
SUBS3 = [("-", "-"), ("o", "-"), ("-", "o"), ("-", "d"), ("D", "-")]
MODVALS = [None, "0", "1", "-1", "5", "2147483647", "4294967295"]


def mod_case(bits, members):
    return "enummod %d %s" % (bits, ",".join("%s:%s:%s:%s" % (n, "~" if v is None else hexs(v), a, b) for n, v, (a, b) in members))


def gen_mod(tier, seed):
    rnd = random.Random(seed ^ 0x14B)
    cases = []
    names = ["a", "b", "c", "d", "e", "f"]
    for bits in (0, 1):
        for k in (1, 2):
            for vs in itertools.product(MODVALS, repeat=k):
                for ss in itertools.product(SUBS, repeat=k):
                    cases.append(mod_case(bits, list(zip(names, vs, ss))))
        for vs in itertools.product([None, "1", "5"], repeat=3):
            for ss in itertools.product(SUBS3, repeat=3):
                cases.append(mod_case(bits, list(zip(names, vs, ss))))
        # an obsolete / deprecated member in a duplicate name, duplicate value, or holding the maximum
        mx = "4294967295" if bits else "2147483647"
        for sa in SUBS:
            for sb in SUBS3:
                cases.append(mod_case(bits, [("a", "1", sa), ("a", None, sb), ("b", None, ("-", "-"))]))
                cases.append(mod_case(bits, [("a", "1", sa), ("b", "1", sb), ("c", None, ("-", "-"))]))
                cases.append(mod_case(bits, [("a", mx, sa), ("b", None, sb)]))
                cases.append(mod_case(bits, [("a", None, ("-", "-")), ("b", "7", sa), ("c", None, sb), ("d", None, ("-", "-"))]))
        for _ in range(1500 if tier == "quick" else 40000):
            k = rnd.randint(3, 6)
            nm = [rnd.choice(names) if rnd.random() < 0.1 else names[i] for i in range(k)]
            cases.append(mod_case(bits, [(nm[i], rnd.choice(MODVALS + [None, None, "9", "8", "-7"]), rnd.choice(SUBS)) for i in range(k)]))
    return cases


# ---- a resolved type extended through the API (enumext): in place / through a typedef / through two typedefs
def gen_ext(tier, seed):
    rnd = random.Random(seed ^ 0xE47)
    cases = []
    N = ("-", "-")
    for bits in (0, 1):
        mx = 4294967295 if bits else 2147483647
        lists = [[("a", None, N)], [("a", None, N), ("b", None, N)], [("a", "5", N)], [("a", "5", N), ("b", None, N)],
                 [("a", "-5", N), ("b", None, N)], [("a", "7", N), ("b", "2", N)], [("a", "7", N), ("b", "2", N), ("c", None, N)],
                 [("a", str(mx), N)], [("a", str(mx - 1), N)], [("a", str(mx - 1), N), ("b", None, N)],
                 [("a", "0", N), ("b", "1", N), ("c", "2", N)], [("a", "10", ("o", "-")), ("b", None, ("-", "d"))],
                 [("a", "0", N)], [("a", "1", N)], [("a", "-1", N)], [("a", "-2147483648", N)]]
        alpha = ["n:78", "n:79", "n:61", "s:78:0", "s:78:1", "s:78:2", "s:79:5", "s:78:%d" % mx, "s:79:%d" % (mx - 1), "md", "vd"]
        seqs = [[o] for o in alpha] + [list(p) for p in itertools.product(alpha, repeat=2)] + \
               [["n:78", "n:79", "n:7a"], ["n:78", "n:78", "n:79"], ["s:78:%d" % (mx - 1), "n:79", "n:7a"], ["n:78", "ma", "n:79"],
                ["s:78:1", "n:79", "n:7a"], ["n:78", "s:79:1", "n:7a"]]
        if tier == "thorough":
            seqs += [list(p) for p in itertools.product(alpha[:9], repeat=3)]
        for form in "tci":
            for leaf in (1, 2):
                for ml in lists:
                    mem = mod_case(bits, ml).split()[2]
                    for ops in seqs:
                        cases.append("enumext %d %s %d %s %s" % (bits, form, leaf, mem, ",".join(ops)))
        names = ["a", "b", "c", "d"]
        for _ in range(1500 if tier == "quick" else 30000):
            k = rnd.randint(1, 4)
            ml = [(names[i], rnd.choice([None, None, "0", "1", "5", "-3", "9", str(mx), str(mx - 1)]), rnd.choice(SUBS)) for i in range(k)]
            ops = [rnd.choice(alpha + ["n:62", "n:7a", "n:77"]) for _ in range(rnd.randint(1, 5))]
            cases.append("enumext %d %s %d %s %s" % (bits, rnd.choice("tci"), rnd.randint(1, 2), mod_case(bits, ml).split()[2], ",".join(ops)))
    return cases


# ---- repeated Process / GetModule on the same Modules, and restrictions of a typedef (enumproc)
def gen_proc(tier, seed):
    rnd = random.Random(seed ^ 0x9C0)
    cases = []
    N = ("-", "-")
    names = ["a", "b", "c", "d", "e", "f"]
    steps = ["P", "PP", "PG", "GG", "GPP", "PPPG"]
    for bits in (0, 1):
        mx = 4294967295 if bits else 2147483647
        lists = []
        for k in (1, 2):
            for vs in itertools.product(MODVALS, repeat=k):
                lists.append([(names[i + 1], vs[i], N) for i in range(k)])          # b, c: a proper subset of the typedef's names
        lists += [[("b", "1", N), ("c", None, N)], [("c", None, N), ("a", None, N)], [("f", "3", N), ("b", None, N), ("a", "0", N)],
                  [("a", None, N), ("a", None, N)], [("a", "1", N), ("b", "1", N)], [("a", None, N), ("b", "0", N)],
                  [("a", str(mx), N), ("b", None, N)], [("a", str(mx + 1), N)], [("a", "-1", N), ("b", None, N)],
                  [("a", "-2147483649", N)], [("a", "4", N), ("b", None, N), ("a", None, N)], [("b", "7", ("o", "-")), ("c", None, ("-", "d"))],
                  [("a", None, N), ("b", None, N), ("c", None, N), ("d", None, N), ("e", None, N), ("f", None, N)],
                  [("zz", None, N), ("b", "9", N)]]
        for form in "iturR":
            for ml in lists:
                mem = mod_case(bits, ml).split()[2]
                for st in steps:
                    cases.append("enumproc %d %s %s %s" % (bits, form, st, mem))
        for _ in range(1000 if tier == "quick" else 30000):
            k = rnd.randint(2, 5)
            nm = [rnd.choice(names) if rnd.random() < 0.12 else names[i] for i in range(k)]
            ml = [(nm[i], rnd.choice(MODVALS + [None, None, "3", "2", str(mx - 1)]), rnd.choice(SUBS)) for i in range(k)]
            cases.append("enumproc %d %s %s %s" % (bits, rnd.choice("iturR"), "".join(rnd.choice("PG") for _i in range(rnd.randint(1, 4))),
                                                 mod_case(bits, ml).split()[2]))
    return cases


# ---- explicit value / position literals with runs of signs and blanks (ParseInt's sign handling seen from a module)
def sign_literals():
    signs = [""] + ["".join(t) for n in (1, 2, 3) for t in itertools.product("+-", repeat=n)]
    out = []
    for d in ("5", "0", "7", "2147483647", "2147483648", "4294967295"):
        for sg in signs:
            out.append(sg + d)
    for d in ("5", "0"):
        for sg in signs[1:7]:
            out += [sg + " " + d, " " + sg + d, sg + d + " ", d + sg, sg[0] + " " + sg[1:] + d]
    out += signs[1:] + [" ", " 5", "5 ", " 5 ", "\t5", "5\n", "- 5", "+ 5", "5-", "5+", "5-1", "5+1", "-5-", "+-", "- -5"]
    return sorted(set(out))


def gen_signs(tier, seed):
    cases = []
    N = ("-", "-")
    for bits in (0, 1):
        for v in sign_literals():
            cases.append(mod_case(bits, [("a", v, N)]))
            cases.append(mod_case(bits, [("a", v, N), ("b", None, N)]))
            cases.append(mod_case(bits, [("a", None, N), ("b", v, ("d", "-")), ("c", None, N)]))
            for form in "itr":
                cases.append("enumproc %d %s PG %s" % (bits, form, mod_case(bits, [("b", v, N), ("c", None, N)]).split()[2]))
    return cases


# ---- unions of enumerations (enumunion): each distinct member type keeps its own table
def gen_union(tier, seed):
    rnd = random.Random(seed ^ 0x0A1)
    N = ("-", "-")

    def mem(ml):
        return mod_case(0, [(n, v, N) for n, v in ml]).split()[2]
    cases = []
    base = [("off", None), ("md5", None), ("sha1", None)]
    variants = [base,
                [("none", None), ("md5", None), ("sha1", None)],          # differs in the NAME of the 0-valued member only
                [("off", None), ("md4", None), ("sha1", None)],           # differs in the name of the 1-valued member only
                [("off", None), ("md5", "2"), ("sha1", "1")],             # same names, values swapped
                [("off", "0"), ("md5", "1"), ("sha1", "2")],              # the same table written explicitly
                [("off", None), ("md5", None), ("sha1", "3")],            # differs in one non-zero value
                [("off", "4"), ("md5", "1"), ("sha1", "2")], [("unset", None), ("md5", None), ("sha1", None)],
                [("off", "-1"), ("md5", None), ("sha1", None)], [("off", None), ("md5", None)], [("off", None)], [("none", None)],
                [("zero", "0")], [("a", "0"), ("b", "0")], [("off", None), ("off", None)], [("off", "2147483648")]]
    for a in variants:
        for b in variants:
            cases.append("enumunion %s %s" % (mem(a), mem(b)))
    for t in itertools.product(variants[:8], repeat=3):
        cases.append("enumunion %s %s %s" % tuple(mem(x) for x in t))
    names = ["a", "b", "c", "d"]
    for _ in range(1500 if tier == "quick" else 30000):
        k = rnd.randint(1, 3)
        tabs = []
        for _j in range(rnd.randint(2, 4)):
            nm = rnd.sample(names, k)
            tabs.append(mem([(n, rnd.choice([None, None, "0", "1", "2"])) for n in nm]))
        cases.append("enumunion " + " ".join(tabs))
    return cases


# ---- deviate replace { type enumeration|bits {...} } on a leaf that already has such a type (enumdev)
def gen_dev(tier, seed):
    rnd = random.Random(seed ^ 0xDE7)
    N = ("-", "-")
    cases = []
    for bits in (0, 1):
        mx = 4294967295 if bits else 2147483647

        def mem(ml):
            return mod_case(bits, [(n, v, N) for n, v in ml]).split()[2]
        olds = [[("a", None), ("b", None), ("c", None)], [("a", "5"), ("b", "6")], [("x", None)]]
        news = [[("a", None), ("b", None), ("c", None)], [("a", "2"), ("b", "1"), ("c", "0")], [("a", "7"), ("b", None), ("c", None)],
                [("c", None), ("b", None), ("a", None)], [("d", None), ("e", None), ("f", None)], [("a", None), ("b", None)],
                [("a", str(mx))], [("a", str(mx - 1)), ("b", None)], [("a", "5"), ("b", "6")], [("a", "6"), ("b", "5")], [("x", None)],
                [("y", None)], [("x", "1")], [("a", str(mx)), ("b", None)], [("a", None), ("a", None)], [("a", "1"), ("b", "1")],
                [("a", str(mx + 1))], [("a", "0"), ("b", None), ("c", "5"), ("d", None)]]
        for form in "it":
            for o in olds:
                for n in news:
                    cases.append("enumdev %d %s %s %s" % (bits, form, mem(o), mem(n)))
        names = ["a", "b", "c", "d", "e"]
        for _ in range(500 if tier == "quick" else 10000):
            def rl():
                k = rnd.randint(1, 4)
                return mem([(n, rnd.choice([None, None, "0", "1", "3", "9", str(mx)])) for n in rnd.sample(names, k)])
            cases.append("enumdev %d %s %s %s" % (bits, rnd.choice("it"), mem(rnd.choice(olds)), rl()))
    return cases


# ---- several enumeration / bits types in ONE Modules set (enumset): the table of each type is a function of its OWN
# member list, whatever else the set contains.  Names are arbitrary YANG strings (quoted): the lists of one case are
# REGROUPINGS of one flat text - adjacent members merged into one name through a separator character, an explicit
# value folded into the name, the same names in another order / with other values - so that any two lists that some
# textual summary of a member list (joined names, name<sep>value, sorted names, names only, ...) confuses occur together
SEPS = [",", "=", ":", ";", " ", "|", "/", "-", ".", "_", "+", "#", "&", ", ", "=,", "\\", '"', "'", "{", "}"]
PLACES = "iltgIT"
PLACE_PAIRS = ["ii", "il", "ti", "it", "tt", "gi", "Ii", "iI", "Ti", "iT", "TI", "lg"]


def set_type(kind, place, members):
    return "%s%s;%s" % (kind, place, ",".join("%s:%s" % (hexs(n), "~" if v is None else hexs(v)) for n, v in members))


def set_case(steps, types):
    return "enumset %s %s" % (steps, " ".join(set_type(k, p, ms) for k, p, ms in types))


def regroup_pairs(sep):
    """pairs (a, b) of DIFFERENT valid member lists that read the same when names and numbers are strung together with sep
    (LO / HI / HI1 = the minimum, the maximum, the maximum - 1 of the kind: see bound)"""
    out = []
    tail = [("off", None)]
    for x, y in (("a", "b"), ("10", "100"), ("rx", "tx"), ("up", "down")):
        out.append(([(x + sep + y, None)], [(x, None), (y, None)]))                               # one name | two names
        out.append(([(x + sep + y, None), ("z", None)], [(x, None), (y, None), ("z", None)]))
        out.append(([("z", None), (x + sep + y, None)], [("z", None), (x, None), (y, None)]))
        out.append(([(x, "3"), (y + sep + "c", None)], [(x, "3"), (y, None), ("c", None)]))
    for nm, v in (("mode", "2"), ("a", "0"), ("b", "7"), ("p", "2147483646")):
        out.append(([(nm + sep + v, None)] + tail, [(nm, v)] + tail))                             # name<sep>number | explicit number
        out.append(([("first", None), (nm + sep + v, None)] + tail, [("first", None), (nm, v)] + tail)
                   if v != "0" else ([("first", "4"), (nm + sep + v, None)] + tail, [("first", "4"), (nm, v)] + tail))
    # both at once, next to the boundary values
    out.append(([("lo", "LO"), ("x" + sep + "y" + sep + "5", None), ("hi", "HI")], [("lo", "LO"), ("x", None), ("y", "5"), ("hi", "HI")]))
    out.append(([("lo", "LO"), ("x" + sep + "y", "5"), ("hi", "HI")], [("lo", "LO"), ("x", None), ("y", "5"), ("hi", "HI")]))
    out.append(([("x", None), ("y" + sep + "HI1", None)], [("x", None), ("y", "HI1")]))
    return out


def bound(kind, ms):
    lo, hi = ("0", 4294967295) if kind == "b" else ("-2147483648", 2147483647)
    sub = {"LO": lo, "HI": str(hi), "HI1": str(hi - 1)}
    res = []
    for n, v in ms:
        for k in ("HI1", "LO", "HI"):
            n = n.replace(k, sub[k])
        res.append((n, sub.get(v, v)))
    return res


def gen_set(tier, seed):
    rnd = random.Random(seed ^ 0x5E7)
    cases = []
    # (1) every separator x every regrouping shape x enum/bits x where the two types sit x which comes first
    for si, sep in enumerate(SEPS):
        for pi, (a, b) in enumerate(regroup_pairs(sep)):
            for kind in "eb":
                la, lb = bound(kind, a), bound(kind, b)
                pps = PLACE_PAIRS if sep in (",", "=") or tier == "thorough" else [PLACE_PAIRS[(si + pi) % len(PLACE_PAIRS)], "ii"]
                for pp in pps:
                    cases.append(set_case("P", [(kind, pp[0], la), (kind, pp[1], lb)]))
                    cases.append(set_case("P", [(kind, pp[0], lb), (kind, pp[1], la)]))
                for steps in ("PP", "GP", "PG"):
                    cases.append(set_case(steps, [(kind, "i", la), (kind, "t", lb)]))
                # a third, ordinary type in between; an equal list repeated; the other kind with the same members
                cases.append(set_case("P", [(kind, "i", la), (kind, "i", [("up", None), ("down", None)]), (kind, "l", lb), (kind, "t", la)]))
                cases.append(set_case("P", [(kind, "i", lb), ("b" if kind == "e" else "e", "i", bound("b" if kind == "e" else "e", b)), (kind, "I", la)]))
    # (2) the same names in another order / with other numbers / one more or one fewer member / a list with an error next to its repair
    for kind in "eb":
        mx = 4294967295 if kind == "b" else 2147483647
        base = [("a", None), ("b", None), ("c", None)]
        near = [base, [("c", None), ("b", None), ("a", None)], [("b", None), ("a", None), ("c", None)], [("a", "0"), ("b", "1"), ("c", "2")],
                [("a", "2"), ("b", "1"), ("c", "0")], [("a", "1"), ("b", None), ("c", None)], [("a", None), ("b", "5"), ("c", None)],
                [("a", None), ("b", None)], [("a", None), ("b", None), ("c", None), ("d", None)], [("a", None), ("b", None), ("c", "3")],
                [("a", None), ("b", "+1"), ("c", None)], [("a", None), ("b", "01"), ("c", None)], [("a", str(mx - 2)), ("b", None), ("c", None)],
                [("a", None), ("b", None), ("C", None)], [("a", None), ("b", None), ("c ", None)], [("a", None), ("b", None), (" c", None)],
                [("a", None), ("b", None), ("c", None), ("a", None)], [("a", str(mx)), ("b", None), ("c", None)], [("a", "1"), ("b", "1"), ("c", None)]]
        for x in near:
            for y in near:
                cases.append(set_case("P", [(kind, "i", x), (kind, rnd.choice(PLACES), y)]))
        for t3 in itertools.product(near[:7], repeat=3):
            cases.append(set_case("P", [(kind, rnd.choice(PLACES), ms) for ms in t3]))
    # (3) random: 2-4 types that are regroupings of one flat sequence of atoms
    atoms = ["a", "b", "c", "1", "2", "10", "up", "x"]
    for _ in range(2500 if tier == "quick" else 50000):
        kind = rnd.choice("eb")
        sep = rnd.choice(SEPS[:4]) if rnd.random() < 0.6 else rnd.choice(SEPS)
        k = rnd.randint(2, 5)
        flat = []
        for i in range(k):
            nm = rnd.choice(atoms) + ("" if rnd.random() < 0.5 else str(i))
            flat.append((nm, rnd.choice([None, None, None, "0", "1", "2", "5", "7", "12"])))
        types = []
        for _j in range(rnd.randint(2, 4)):
            ms, i = [], 0
            while i < len(flat):
                n, v = flat[i]
                r = rnd.random()
                if r < 0.3 and i + 1 < len(flat) and v is None:                # merge with the next member
                    n2, v2 = flat[i + 1]
                    ms.append((n + sep + n2, v2) if rnd.random() < 0.5 or v2 is None else (n + sep + n2 + rnd.choice(["=", sep]) + v2, None))
                    i += 2
                    continue
                if r < 0.5 and v is not None:                                  # fold the number into the name
                    ms.append((n + rnd.choice(["=", sep]) + v, None))
                elif r < 0.58:                                                   # another number / none
                    ms.append((n, rnd.choice([None, "3", "1"])))
                else:
                    ms.append((n, v))
                i += 1
            if rnd.random() < 0.1:
                rnd.shuffle(ms)
            types.append((kind if rnd.random() < 0.9 else rnd.choice("eb"), rnd.choice(PLACES), ms))
        cases.append(set_case(rnd.choice(["P", "P", "P", "PP", "GP", "PG"]), types))
    return cases


def gen_api(tier, seed):
    rnd = random.Random(seed ^ 0xC14)
    cases = []
    for bits, full in ((0, API_ENUM), (1, API_BITS)):
        cases.append(api_case(bits, []))
        two, three = api_ops(["a", "b"], full), api_ops(["a", "b", "c"], full)
        # exhaustive: length <= 3 over two and three names x all boundary values;
        # length 4 over two names x the core boundary values (all values in thorough)
        for k in (1, 2, 3):
            for ops in itertools.product(three if k < 3 else two, repeat=k):
                cases.append(api_case(bits, ops))
        four = two if tier == "thorough" else api_ops(["a", "b"], API_CORE[bits])
        for ops in itertools.product(four, repeat=4):
            cases.append(api_case(bits, ops))
        # a rejected call (repeated name / value / out of range / no next value) followed by SetNext calls
        for first in two:
            for bad in two:
                cases.append(api_case(bits, [first, bad, "n:%s" % hexs("c"), "n:%s" % hexs("d"), bad, "n:%s" % hexs("e")]))
        cases += gen_api_mut(bits)
        # random longer sequences with forced repeats
        names = ["a", "b", "c", "d", "e", "f", ""]
        pool = full + API_WIDE
        for _ in range(4000 if tier == "quick" else 80000):
            k = rnd.randint(5, 10)
            ops, last = [], None
            for _i in range(k):
                n = rnd.choice(names[:3]) if rnd.random() < 0.3 else rnd.choice(names)
                r = rnd.random()
                if r < 0.12:
                    ops.append(rnd.choice(MUT_OPS))
                elif r < 0.5:
                    ops.append("n:%s" % hexs(n))
                elif r < 0.65 and last is not None:
                    ops.append("s:%s:%d" % (hexs(n), max(-P63, min(P63 - 1, last + rnd.choice((-1, 0, 0, 1))))))
                else:
                    last = rnd.choice(pool)
                    ops.append("s:%s:%d" % (hexs(n), last))
            cases.append(api_case(bits, ops))
    return cases


def run(res, tier, seed, proof):
    cases = gen(tier, seed)
    go, ml, mism, skipped = simple_run(lib, res, cases)
    acases = gen_api(tier, seed)
    ago, aml, amism, askipped = simple_run(lib, res, acases)
    rejected_then_ok = sum(1 for g in ago if "eo" in g.split()[0])
    mcases = gen_mod(tier, seed) + gen_ext(tier, seed) + gen_proc(tier, seed) + gen_signs(tier, seed) + gen_union(tier, seed) + \
        gen_dev(tier, seed) + gen_set(tier, seed)
    mgo, mml, mmism, mskipped = simple_run(lib, res, mcases)
    mouts = {}
    for g in mgo:
        mouts[g.split()[0]] = mouts.get(g.split()[0], 0) + 1
    outs = {}
    for g in go:
        outs[g.split()[0]] = outs.get(g.split()[0], 0) + 1
    cov = dict(evaluations=len(cases) + len(acases) + len(mcases),
               distinct_nontrivial=len({c for c in cases + acases + mcases if c.count(",") >= 1}),
               rule="member sequences run through a real module and Type.resolve: exhaustive over %d literal forms for length 1-2, "
                    "over a 12-value core for length 3 (4 in thorough), forced name collisions, random longer sequences; "
                    "non-trivial = at least two members; observable = error presence, else name->value and value->name maps.  "
                    "Plus the EnumType API alone (NewEnumType/NewBitfield, Set, SetNext, NameMap, ValueMap): all call sequences of length <= 3 "
                    "over three names x %d/%d boundary values, all of length 4 over two names x the core boundary values (all values in "
                    "thorough), rejected-call-then-SetNext patterns, random sequences of 5-10 calls; observable = verdict of every call "
                    "and the final state through every read accessor (NameMap, ValueMap, Names+Value+IsDefined, Values+Name), so the state after a "
                    "rejected call is compared; call sequences also contain 'read NameMap/ValueMap/Names/Values and delete/overwrite/add "
                    "in the returned container' steps (8 kinds, exhaustive between 1-2 calls before and 0-2 after), which must not change "
                    "any view.  Plus members carrying other substatements (status current/deprecated/obsolete, description, reference, "
                    "if-feature, before and after the value/position statement; %d combinations), in a typedef used by two leaves: exhaustive "
                    "for length 1-2 over %d values, length 3 over 3 values x 5 combinations, duplicates/maximum next to an obsolete member, "
                    "random longer; the containers obtained through the first leaf are edited before the type is observed through the "
                    "second.  Plus resolved types EXTENDED through the API (enumext): 16 member lists (implicit, explicit, descending, negative, "
                    "at and next to the maximum, with status) resolved in place / through a typedef / through two typedefs, observed "
                    "through either of two leaves, then all sequences of 1-2 calls over 11 operations (SetNext, Set at 0/1/2/5/max/max-1, "
                    "a repeated name, container edits) and selected longer ones (all of length 3 in thorough), random others: verdicts "
                    "and all views must equal the model's calls continued from the state its member loop left.  Plus (enumproc) member lists - all "
                    "of length 1-2 over 7 values and 14 special ones (repeated name/value, outside the range, automatic value past the "
                    "maximum, valid ones) - in place, in a typedef, as a union member, and as the own member list of a type that RESTRICTS "
                    "a typedef (directly and through a second typedef), each with 6 histories of Process / GetModule calls on the same "
                    "Modules: every call must report an error iff the model's loop records one, and the table after the last call is the "
                    "model's for the listed members.  Explicit value/position literals with every string of 0-3 signs before the digits, signs "
                    "after/inside the digits and blanks around them (%d literals) through enummod/enumproc.  Unions of 2-3 enumerations "
                    "(enumunion: 16 variants of a three-member enumeration differing in one name - at the 0-valued member or another - in "
                    "one value, in size, written explicitly; all pairs, all triples of 8; random): every distinct member type keeps its "
                    "table, equal ones are listed once.  deviate replace of an enumeration/bits type by another (enumdev: 3 old x 18 new "
                    "member lists incl. same names at other positions, other names, the maximum, invalid ones; old type in place or via a "
                    "typedef): the deviated leaf has the replacement's table.  Plus (enumset) 2-4 enumeration / bits types in ONE Modules set, "
                    "member names being arbitrary quoted YANG strings: pairs of different member lists that are regroupings of one flat text - "
                    "two adjacent names merged into one through a separator, an explicit number folded into the name (name<sep>number), both, next "
                    "to the minimum/maximum - for each of %d separator strings (',', '=', ':', ';', blank, ...), enum and bits, 12 placements of "
                    "the two types (leaf, leaf-list, typedef, grouping in the same module; leaf or typedef of a second module) and both "
                    "resolution orders, with an ordinary type in between / an equal list repeated / the other kind with the same members, and "
                    "Process/GetModule histories; all pairs of 19 near-identical lists (same names permuted, other numbers, other literal "
                    "spelling, one more/fewer member, case/blank variants, invalid ones) and triples of 7; random sets of 2-4 regroupings of a "
                    "random flat member sequence: every type's table must be the model's member loop on ITS OWN list (the model's table is "
                    "a function of that list alone), and an error is reported iff some list has one" % (len(VALUES), len(API_ENUM), len(API_BITS), len(SUBS), len(MODVALS),
                                                                                  len(sign_literals()), len(SEPS)),
               mismatches=mism + amism + mmism, skipped_unmodelled=skipped + askipped + mskipped,
               distribution=dict(impl_outcomes=outs, api_cases=len(acases), api_sequences_with_an_accepted_call_after_a_rejected_one=rejected_then_ok,
                                 api_cases_editing_a_returned_container=sum(1 for g in ago if "r" in g.split()[0][4:]),
                                 substatement_cases=len(mcases), extension_cases=sum(1 for c in mcases if c.startswith("enumext")),
                                 process_history_cases=sum(1 for c in mcases if c.startswith("enumproc")),
                                 union_cases=sum(1 for c in mcases if c.startswith("enumunion")),
                                 union_cases_with_two_or_more_tables=sum(1 for g in mgo if g.startswith("ok ") and " | " in g),
                                 deviation_cases=sum(1 for c in mcases if c.startswith("enumdev")),
                                 several_types_cases=sum(1 for c in mcases if c.startswith("enumset")),
                                 several_types_cases_without_error=sum(1 for c, g in zip(mcases, mgo) if c.startswith("enumset") and " | " in g),
                                 restriction_cases=sum(1 for c in mcases if c.startswith("enumproc") and c.split()[2] in "rR"),
                                 process_histories_with_error_every_time=sum(1 for g in mgo if g.startswith("steps=ee")), substatement_impl_outcomes=mouts,
                                 substatement_cases_with_an_obsolete_member=sum(1 for c in mcases if c.startswith("enummod") and "o" in "".join(x.split(":", 2)[2] for x in c.split()[2].split(",")))),
               samples=[cases[40], cases[len(cases) // 2], cases[-1], acases[len(acases) // 2], acases[-1], mcases[len(mcases) // 2], mcases[-1]],
               sample_observations=[go[40], go[len(cases) // 2], go[-1], ago[len(acases) // 2], ago[-1], mgo[len(mcases) // 2], mgo[-1]])
    return cov, ["member names are plain identifiers except in the several-types family (enumset), where they are non-empty strings of "
                 "printable ASCII incl. separators, quotes and blanks; through Type.resolve, after the first recorded error only the presence of an "
                 "error is compared (the state after a rejected member is compared through the EnumType API sequences); member "
                 "substatements other than value/position are drawn from status, description, reference, if-feature"]


def replay(rep, res):
    c = rep["case"]
    go, ml = lib.run_go([c])[0], lib.run_ml([c])[0]
    print("case :", c, "\nimpl :", go, "\nmodel:", ml)
    return 0 if go == ml else 1
