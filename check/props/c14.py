"""C14 — enum values and bit positions."""
import itertools
import random

import lib
from props.numgrid import hexs, simple_run, P63, P64

VALUES = [None, "0", "1", "-1", "-5", "7", "2147483646", "2147483647", "2147483648", "-2147483648", "-2147483649",
          "4294967294", "4294967295", "4294967296", "9223372036854775807", "9223372036854775808",
          "-9223372036854775808", "-9223372036854775809", "18446744073709551615", "-18446744073709551615",
          "18446744073709551609", "-18446744073709551609", " 7 ", "+3", "1.5", "", "-", "-0"]
CORE = [None, "0", "1", "-1", "-5", "-3", "-4", "2147483647", "-2147483648", "4294967295", "4294967294", "3"]


def case(bits, members):
    if not members:
        return "enum %d -" % bits
    return "enum %d %s" % (bits, ",".join("%s:%s" % (n, "~" if v is None else hexs(v)) for n, v in members))


def gen(tier, seed):
    rnd = random.Random(seed)
    cases = []
    names = ["a", "b", "c", "d", "e"]
    for bits in (0, 1):
        cases.append(case(bits, []))
        for k in (1, 2):
            for vs in itertools.product(VALUES, repeat=k):
                cases.append(case(bits, list(zip(names, vs))))
        for vs in itertools.product(CORE, repeat=3):
            cases.append(case(bits, list(zip(names, vs))))
        if tier == "thorough":
            for vs in itertools.product(CORE[:9], repeat=4):
                cases.append(case(bits, list(zip(names, vs))))
        # forced name collisions
        for nm in (["a", "a"], ["a", "b", "a"], ["a", "b", "b"], ["a", "a", "a"], ["a", "b", "c", "a"]):
            for vs in itertools.product([None, "4", "1", "-2"], repeat=len(nm)):
                cases.append(case(bits, list(zip(nm, vs))))
        # random longer sequences
        for _ in range(3000 if tier == "quick" else 60000):
            k = rnd.randint(3, 7)
            pool = rnd.choice([CORE, VALUES, [None, None, "5", "-7", "-6", "10", "9", "2147483645"]])
            nm = [rnd.choice(names) if rnd.random() < 0.15 else "m%d" % i for i in range(k)]
            cases.append(case(bits, [(nm[i], rnd.choice(pool)) for i in range(k)]))
    return cases


def run(res, tier, seed, proof):
    cases = gen(tier, seed)
    go, ml, mism, skipped = simple_run(lib, res, cases)
    outs = {}
    for g in go:
        outs[g.split()[0]] = outs.get(g.split()[0], 0) + 1
    cov = dict(evaluations=len(cases), distinct_nontrivial=len({c for c in cases if c.count(",") >= 1}),
               rule="member sequences run through a real module and Type.resolve: exhaustive over %d literal forms for length 1-2, "
                    "over a 12-value core for length 3 (4 in thorough), forced name collisions, random longer sequences; "
                    "non-trivial = at least two members; observable = error presence, else name->value and value->name maps" % len(VALUES),
               mismatches=mism, skipped_unmodelled=skipped, distribution=dict(impl_outcomes=outs),
               samples=[cases[40], cases[len(cases) // 2], cases[-1]], sample_observations=[go[40], go[len(cases) // 2], go[-1]])
    return cov, ["member names are plain identifiers; after the first recorded error only the presence of an error is compared"]


def replay(rep, res):
    c = rep["case"]
    go, ml = lib.run_go([c])[0], lib.run_ml([c])[0]
    print("case :", c, "\nimpl :", go, "\nmodel:", ml)
    return 0 if go == ml else 1
