"""C14 — enum values and bit positions."""
import itertools
import random

import lib
from props.numgrid import hexs, simple_run, P63, P64

VALUES = [None, "0", "1", "-1", "-5", "7", "2147483646", "2147483647", "2147483648", "-2147483648", "-2147483649",
          "4294967294", "4294967295", "4294967296", "9223372036854775807", "9223372036854775808",
          "-9223372036854775808", "-9223372036854775809", "18446744073709551615", "-18446744073709551615",
          "18446744073709551609", "-18446744073709551609", " 7 ", "+3", "1.5", "", "-", "-0"]
CORE = [None, "0", "1", "-1", "-5", "-3", "-4", "2147483647", "-2147483648", "4294967295", "4294967294", "3"]


def case(bits, members):
    if not members:
        return "enum %d -" % bits
    return "enum %d %s" % (bits, ",".join("%s:%s" % (n, "~" if v is None else hexs(v)) for n, v in members))


def gen(tier, seed):
    rnd = random.Random(seed)
    cases = []
    names = ["a", "b", "c", "d", "e"]
    for bits in (0, 1):
        cases.append(case(bits, []))
        for k in (1, 2):
            for vs in itertools.product(VALUES, repeat=k):
                cases.append(case(bits, list(zip(names, vs))))
        for vs in itertools.product(CORE, repeat=3):
            cases.append(case(bits, list(zip(names, vs))))
        if tier == "thorough":
            for vs in itertools.product(CORE[:9], repeat=4):
                cases.append(case(bits, list(zip(names, vs))))
        # forced name collisions
        for nm in (["a", "a"], ["a", "b", "a"], ["a", "b", "b"], ["a", "a", "a"], ["a", "b", "c", "a"]):
            for vs in itertools.product([None, "4", "1", "-2"], repeat=len(nm)):
                cases.append(case(bits, list(zip(nm, vs))))
        # random longer sequences
        for _ in range(3000 if tier == "quick" else 60000):
            k = rnd.randint(3, 7)
            pool = rnd.choice([CORE, VALUES, [None, None, "5", "-7", "-6", "10", "9", "2147483645"]])
            nm = [rnd.choice(names) if rnd.random() < 0.15 else "m%d" % i for i in range(k)]
            cases.append(case(bits, [(nm[i], rnd.choice(pool)) for i in range(k)]))
    return cases


# ---- the EnumType API on its own (Set / SetNext call sequences): per-call verdicts and the final maps, so that
# the state after a REJECTED call is observed (through Type.resolve only the presence of an error is comparable)
API_ENUM = [0, 1, -1, 5, 2147483646, 2147483647, 2147483648, -2147483648, -2147483649]
API_BITS = [0, 1, -1, 5, 2147483647, 4294967294, 4294967295, 4294967296]
API_CORE = {0: [0, 1, 2147483646, 2147483647, -2147483648], 1: [0, 1, 4294967294, 4294967295]}
API_WIDE = [P63 - 1, -P63, 3, 2, -2, 7, 100]


def api_case(bits, ops):
    return "enumapi %d %s" % (bits, ",".join(ops) if ops else "-")


def api_ops(names, values):
    return ["n:%s" % hexs(n) for n in names] + ["s:%s:%d" % (hexs(n), v) for n in names for v in values]


def gen_api(tier, seed):
    rnd = random.Random(seed ^ 0xC14)
    cases = []
    for bits, full in ((0, API_ENUM), (1, API_BITS)):
        cases.append(api_case(bits, []))
        two, three = api_ops(["a", "b"], full), api_ops(["a", "b", "c"], full)
        # exhaustive: length <= 3 over two and three names x all boundary values;
        # length 4 over two names x the core boundary values (all values in thorough)
        for k in (1, 2, 3):
            for ops in itertools.product(three if k < 3 else two, repeat=k):
                cases.append(api_case(bits, ops))
        four = two if tier == "thorough" else api_ops(["a", "b"], API_CORE[bits])
        for ops in itertools.product(four, repeat=4):
            cases.append(api_case(bits, ops))
        # a rejected call (repeated name / value / out of range / no next value) followed by SetNext calls
        for first in two:
            for bad in two:
                cases.append(api_case(bits, [first, bad, "n:%s" % hexs("c"), "n:%s" % hexs("d"), bad, "n:%s" % hexs("e")]))
        # random longer sequences with forced repeats
        names = ["a", "b", "c", "d", "e", "f", ""]
        pool = full + API_WIDE
        for _ in range(4000 if tier == "quick" else 80000):
            k = rnd.randint(5, 10)
            ops, last = [], None
            for _i in range(k):
                n = rnd.choice(names[:3]) if rnd.random() < 0.3 else rnd.choice(names)
                r = rnd.random()
                if r < 0.5:
                    ops.append("n:%s" % hexs(n))
                elif r < 0.65 and last is not None:
                    ops.append("s:%s:%d" % (hexs(n), max(-P63, min(P63 - 1, last + rnd.choice((-1, 0, 0, 1))))))
                else:
                    last = rnd.choice(pool)
                    ops.append("s:%s:%d" % (hexs(n), last))
            cases.append(api_case(bits, ops))
    return cases


def run(res, tier, seed, proof):
    cases = gen(tier, seed)
    go, ml, mism, skipped = simple_run(lib, res, cases)
    acases = gen_api(tier, seed)
    ago, aml, amism, askipped = simple_run(lib, res, acases)
    rejected_then_ok = sum(1 for g in ago if "eo" in g.split()[0])
    outs = {}
    for g in go:
        outs[g.split()[0]] = outs.get(g.split()[0], 0) + 1
    cov = dict(evaluations=len(cases) + len(acases),
               distinct_nontrivial=len({c for c in cases if c.count(",") >= 1}) + len({c for c in acases if c.count(",") >= 1}),
               rule="member sequences run through a real module and Type.resolve: exhaustive over %d literal forms for length 1-2, "
                    "over a 12-value core for length 3 (4 in thorough), forced name collisions, random longer sequences; "
                    "non-trivial = at least two members; observable = error presence, else name->value and value->name maps.  "
                    "Plus the EnumType API alone (NewEnumType/NewBitfield, Set, SetNext, NameMap, ValueMap): all call sequences of length <= 3 "
                    "over three names x %d/%d boundary values, all of length 4 over two names x the core boundary values (all values in "
                    "thorough), rejected-call-then-SetNext patterns, random sequences of 5-10 calls; observable = verdict of every call "
                    "and the final maps (so the state after a rejected call is compared)" % (len(VALUES), len(API_ENUM), len(API_BITS)),
               mismatches=mism + amism, skipped_unmodelled=skipped + askipped,
               distribution=dict(impl_outcomes=outs, api_cases=len(acases), api_sequences_with_an_accepted_call_after_a_rejected_one=rejected_then_ok),
               samples=[cases[40], cases[len(cases) // 2], cases[-1], acases[len(acases) // 2], acases[-1]],
               sample_observations=[go[40], go[len(cases) // 2], go[-1], ago[len(acases) // 2], ago[-1]])
    return cov, ["member names are plain identifiers; through Type.resolve, after the first recorded error only the presence of an "
                 "error is compared (the state after a rejected member is compared through the EnumType API sequences)"]


def replay(rep, res):
    c = rep["case"]
    go, ml = lib.run_go([c])[0], lib.run_ml([c])[0]
    print("case :", c, "\nimpl :", go, "\nmodel:", ml)
    return 0 if go == ml else 1
