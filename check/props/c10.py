"""C10 — range / length restrictions."""
import itertools
import random

import lib
from props.numgrid import canon_numline, hexs, simple_run, P63, P64


def num(v, fd=0):
    return "%d:%d:%d" % (abs(v), fd, 1 if v < 0 else 0)


def rng(parts, fd=0):
    if not parts:
        return "-"
    return ",".join(num(a, fd) + "~" + num(b, fd) for a, b in parts)


INT_PARENTS = {
    "int8": [(-128, 127)], "int16": [(-32768, 32767)], "int32": [(-(1 << 31), (1 << 31) - 1)], "int64": [(-P63, P63 - 1)],
    "uint8": [(0, 255)], "uint16": [(0, 65535)], "uint32": [(0, (1 << 32) - 1)], "uint64": [(0, P64 - 1)],
    "two": [(1, 4), (10, 20)], "three": [(-10, -1), (1, 1), (3, P63)], "single-max": [(P64 - 1, P64 - 1)],
    "single-min": [(-P63, -P63)], "neg": [(-100, -50), (-10, -2)], "none": [],
}


def near(parts):
    s = {0, 1, -1, 2}
    for a, b in parts:
        for x in (a, b):
            s.update([x - 1, x, x + 1])
    s.update([P64 - 1, P64, -P63, -P63 - 1, P63])
    return sorted(s)


def lit(v, fd):
    if fd == 0:
        return str(v)
    sgn = "-" if v < 0 else ""
    d = str(abs(v)).rjust(fd + 1, "0")
    return sgn + d[:-fd] + "." + d[-fd:]


def sign_strings(maxlen=3):
    return [""] + ["".join(t) for n in range(1, maxlen + 1) for t in itertools.product("+-", repeat=n)]


def sign_bounds(decimal):
    """every string over {+,-} of length 0..3 before the digits, signs after / inside the digits, blanks after the sign"""
    digs = ["5", "0", "17"] + (["1.5", "0.5"] if decimal else [])
    out = []
    for d in digs:
        for sg in sign_strings():
            out.append(sg + d)
            if sg:
                out.append(sg + " " + d)
                out.append(d + sg)
                out.append(sg[0] + " " + sg[1:] + d)
        out += [d[0] + "-" + d[1:] + "1", d[0] + "+" + d[1:] + "1"]
    return sorted(set(out))


def long_fraction_bounds():
    out = []
    for n in list(range(17, 21)) + list(range(254, 259)) + [265, 274] + list(range(510, 515)) + [530, 768, 769, 1025]:
        for ip, d in (("0", "1"), ("-0", "5"), ("1", "0"), ("7", "3")):
            out.append(ip + "." + "0" * (n - 1) + d)
    return out


def gen(tier, seed):
    rnd = random.Random(seed)
    cases = []

    def add(parent, text, dec=0, fd=0):
        cases.append("ranges %s %s %d %d" % (parent, hexs(text), dec, fd))

    # exhaustive small scope on uint8 and on a two-part parent
    toks = ["min", "max", "0", "1", "2", "3", "4", "5", "9", "10", "11", "20", "21", "254", "255", "256", "-0", "-1"]
    parts = toks + ["%s..%s" % (a, b) for a in toks for b in toks]
    for pn in ("uint8", "two"):
        p = rng(INT_PARENTS[pn])
        for a in parts:
            add(p, a)
        sub = parts if tier == "thorough" else rnd.sample(parts, 60)
        for a in sub:
            for b in (parts if tier == "thorough" else rnd.sample(parts, 60)):
                add(p, a + "|" + b)
    # boundary grid on every parent
    for pn, pp in INT_PARENTS.items():
        p = rng(pp)
        vals = [str(v) for v in near(pp)] + ["min", "max"]
        for a in vals:
            add(p, a)
            for b in vals:
                add(p, a + ".." + b)
        for _ in range(400 if tier == "quick" else 6000):
            k = rnd.randint(2, 3)
            ps = []
            for _ in range(k):
                a = rnd.choice(vals)
                ps.append(a if rnd.random() < 0.3 else a + ".." + rnd.choice(vals))
            add(p, rnd.choice(["|", " | ", "| "]).join(ps))
    # chains: restrict, then restrict the result again (parent = previous result is exercised through 'two'/'three';
    # here: random sorted sub-partitions that must be accepted, and one-off perturbations that must not)
    for _ in range(1500 if tier == "quick" else 30000):
        pn = rnd.choice(["int8", "uint8", "int64", "uint64", "two", "three"])
        pp = INT_PARENTS[pn]
        a, b = rnd.choice(pp)
        lo = rnd.randint(a, min(b, a + 50)) if rnd.random() < 0.5 else max(a, b - rnd.randint(0, 50))
        hi = min(b, lo + rnd.randint(0, 60))
        mid = rnd.randint(lo, hi)
        form = rnd.choice(["%d..%d|%d..%d" % (lo, mid, min(hi, mid + 1), hi), "%d..%d|%d..%d" % (mid, hi, lo, mid),
                           "%d..%d|%d" % (lo, hi, mid), "%d|%d|%d" % (lo, mid, hi), "%d..%d|%d..%d" % (lo, mid, min(hi, mid + 2), hi),
                           "%d..%d" % (lo - 1, hi), "%d..%d" % (lo, hi + 1)])
        add(rng(pp), form)
    # decimal64
    for fd in (1, 2, 17, 18) if tier == "quick" else range(1, 19):
        full = [(-P63, P63 - 1)]
        pars = {"full": full, "two": [(-1000, -1), (0, 314)], "top": [(P63 - 11, P63 - 1)], "none": []}
        for pn, pp in pars.items():
            p = rng(pp, fd)
            vals = [lit(v, fd) for v in near(pp) if -P64 < v < P64] + ["min", "max", "0", "1", "-1", "19", "185", "9223372036854775807"]
            for a in vals:
                add(p, a, 1, fd)
                for b in rnd.sample(vals, min(len(vals), 8)):
                    add(p, a + ".." + b, 1, fd)
            for _ in range(150 if tier == "quick" else 1500):
                ps = []
                for _ in range(rnd.randint(2, 3)):
                    a = rnd.choice(vals)
                    ps.append(a if rnd.random() < 0.3 else a + ".." + rnd.choice(vals))
                add(p, "|".join(ps), 1, fd)
    # malformed / lenient syntax
    bad = ["", " ", "|", "1|", "|1", "..", "1..", "..5", "1..2..3", "1...5", "1 .. 2", " 1..2 | 5 ", "1..2|", "a", "min..", "max..min",
           "min..max", "max", "min", "5..1", "1..1", "1. .2", "1.5", "1|1", "2..3|1..2", "1..5|2..3", "1..5|5..9", "1..5|6..9", "1..5|7..9"]
    for pn in ("uint8", "two", "none"):
        for t in bad:
            add(rng(INT_PARENTS[pn]), t)
    # malformed sign combinations on a bound: only a single leading sign is a number
    for b in sign_bounds(False):
        cases.append("parseint %s" % hexs(b))
        for pn in ("int8", "uint64", "none"):
            for form in ("%s", "%s..10", "min..%s" if pn != "none" else "0..%s", "1..5|%s", " %s ..20"):
                add(rng(INT_PARENTS[pn]), form % b)
    for b in sign_bounds(True):
        for fd in (1, 2, 18):
            cases.append("parsedec %s %d" % (hexs(b), fd))
            for form in ("%s", "%s..8", "min..%s", "-1.5..0|%s"):
                add(rng([(-P63, P63 - 1)], fd), form % b, 1, fd)
    # decimal bounds with very many fractional digits (zeros, then one digit): the count must not wrap at 256
    for b in long_fraction_bounds():
        for fd in (1, 18) if len(b) > 100 else (1, 2, 9, 18):
            cases.append("parsedec %s %d" % (hexs(b), fd))
            for form in ("%s..8", "min..%s"):
                add(rng([(-P63, P63 - 1)], fd), form % b, 1, fd)
            add("-", "-1|%s" % b, 1, fd)
    # Number.Less / Equal on (x, -x) and (-x, x) at equal precision (Type.resolve skips a restriction that is Equal to its parent)
    for fd in (0, 1, 2, 9, 17, 18):
        for v in (0, 1, 5, 100, 127, 150, 10 ** fd, P63 - 1, P63, P64 - 1):
            for n1, n2 in ((0, 1), (1, 0), (0, 0), (1, 1)):
                cases.append("less %d %d %d %d %d %d" % (v, fd, n1, v, fd, n2))
    for t in bad + ["1.5..2.5", "0.1|0.3", "1.55", "1e2", "-.5", "5."]:
        add(rng([(-P63, P63 - 1)], 1), t, 1, 1)
        add("-", t, 1, 2)
    return cases


# ------------------------------------------------------------------ module level: Type.resolve's use sites
# A module is a list of nodes {name, parent (builtin kind or typedef name), text (restriction or None), leaf, fd}.
# Model side: fold Range.parseChildRanges (the proved model) along every derivation chain, parent = result of the
# previous link, base = the builtin range of the kind (lengths: 0..2^64-1; decimal64: +-2^63 mantissas at fd).
# Implementation side: the module text through Modules.Parse / Process (twice), resolved sets read off the leaves.
INT_KINDS = {"int8": (-128, 127), "int16": (-32768, 32767), "int32": (-(1 << 31), (1 << 31) - 1), "int64": (-P63, P63 - 1),
             "uint8": (0, 255), "uint16": (0, 65535), "uint32": (0, (1 << 32) - 1), "uint64": (0, P64 - 1)}
LEN_KINDS = ("string", "binary")


def kind_info(kind, fd):
    """(is_length, dec, fd, lo, hi) of a builtin kind"""
    if kind in INT_KINDS:
        return False, 0, 0, INT_KINDS[kind][0], INT_KINDS[kind][1]
    if kind in LEN_KINDS:
        return True, 0, 0, 0, P64 - 1
    return False, 1, fd, -P63, P63 - 1


def short_lit(v, fd, rnd):
    t = lit(v, fd)
    if fd and rnd.random() < 0.5:
        t = t.rstrip("0")
        if t.endswith("."):
            t = t[:-1] if rnd.random() < 0.7 else t + "0"
    return t


BUILTIN_NAMES = set(INT_KINDS) | set(LEN_KINDS) | {"decimal64", "boolean", "empty"}


def has_dev_module(mod):
    return any(n.get("home") == "dev" or (n.get("dev") or {}).get("where") == "other" for n in mod["nodes"])


def render_mod(mod, which="base"):
    """nodes: typedef / leaf with one (parent, text) link, or with "union": [names of member nodes]; a node may sit in a
    scope (mod["scopes"][n["scope"]]: container, list, grouping (used once), rpc input / output) and have a YANG name
    ("yname") that differs from its unique node name: same-named typedefs in sibling scopes.
    A leaf with "dev" = {orig, where, leaflist, wrap} is written as a leaf / leaf-list of type `orig` (optionally inside a
    container) and gets its (parent, text) type from a `deviation <path> { deviate replace { type ... } }` in the same
    module (where = "same") or in a second module <name>_dev that imports this one (where = "other"); typedefs with
    home = "dev" live in that second module (which = "dev" renders it) and may derive from typedefs of the first"""
    byname = {n["name"]: n for n in mod["nodes"]}
    kw = "range" if not mod["length"] else "length"

    def yname(name):
        return byname[name].get("yname", name) if name in byname else name

    def ref(name, ctx):
        if name in byname and byname[name].get("home") != "dev" and ctx == "dev":
            return "b:" + yname(name)
        return yname(name)

    def type_stmt(n, ctx="base"):
        body = ""
        if n["parent"] == "decimal64":
            body += " fraction-digits %s;" % (mod.get("fdtext") if mod.get("fdtext") is not None else "%d" % mod["fd"])
        if n["text"] is not None:
            q = n.get("quote", "d")      # how the argument is written: "..", '..', "" + "..", or no argument at all (text "")
            arg = {"d": ' "%s"', "s": " '%s'", "c": ' "" + "%s"', "c2": ' "%s" + \'\'', "n": "%.0s"}[q] % n["text"]
            body += " %s%s;" % (kw, arg)
        return "type %s {%s }" % (ref(n["parent"], ctx), body) if body else "type %s;" % ref(n["parent"], ctx)

    def full_type(n, ctx="base"):
        if n.get("union") is not None:
            ms = [type_stmt(byname[m], ctx) for m in n["union"] if m in byname]
            extra = n.get("extra")
            if extra:
                ms.insert(min(extra[0], len(ms)), "type %s;" % extra[1])
            return "type union { %s }" % " ".join(ms)
        return type_stmt(n, ctx)

    def deviation(n, ctx):
        pfx = "b:" if ctx == "dev" else "t:"
        nm = n.get("yname", n["name"])
        path = "/%sw_%s/%s%s" % (pfx, nm, pfx, nm) if n["dev"].get("wrap") else "/%s%s" % (pfx, nm)
        return " deviation %s { deviate replace { %s } }" % (path, full_type(n, ctx))

    def orig_type(o):
        if o == "decimal64":
            return "type decimal64 { fraction-digits 1; }"
        if o in BUILTIN_NAMES or (o in byname and not byname[o]["leaf"] and not byname[o].get("member")
                                  and byname[o].get("home") != "dev" and byname[o].get("scope") is None):
            return "type %s;" % yname(o)
        return "type string;"

    def stmt(n):
        d = n.get("dev")
        if d:
            nm = n.get("yname", n["name"])
            leaf = " %s %s { %s }" % ("leaf-list" if d.get("leaflist") else "leaf", nm, orig_type(d.get("orig", "string")))
            if d.get("wrap"):
                leaf = " container w_%s {%s }" % (nm, leaf)
            return leaf + ("\n" + deviation(n, "base") if d.get("where") != "other" else "")
        return " %s %s { %s }" % ("leaf" if n["leaf"] else "typedef", n.get("yname", n["name"]), full_type(n))

    if which == "dev":
        out = ['module %s_dev { prefix "d"; namespace "urn:%s_dev"; import %s { prefix b; }' % (mod["name"], mod["name"], mod["name"])]
        for n in mod["nodes"]:
            if n.get("member"):
                continue
            if n.get("home") == "dev" and not n["leaf"]:
                out.append(" typedef %s { %s }" % (n.get("yname", n["name"]), full_type(n, "dev")))
            elif n["leaf"] and (n.get("dev") or {}).get("where") == "other":
                out.append(deviation(n, "dev"))
        out.append("}")
        return "\n".join(out)

    out = ['module %s { prefix "t"; namespace "urn:%s";' % (mod["name"], mod["name"])]
    scopes = mod.get("scopes") or []
    layout = mod.get("layout") or ([("n", n["name"]) for n in mod["nodes"] if n.get("scope") is None and not n.get("member")]
                                   + [("s", i) for i in range(len(scopes))])
    done_rpc = set()

    def scope_body(i):
        return "\n".join(" " + stmt(n) for n in mod["nodes"] if n.get("scope") == i and not n.get("member"))

    for what, x in layout:
        if what == "n":
            if x in byname and not byname[x].get("member") and byname[x].get("scope") is None and byname[x].get("home") != "dev":
                out.append(stmt(byname[x]))
            continue
        sc = scopes[x]
        if sc["kind"] == "container":
            out.append(" container %s {\n%s\n }" % (sc["name"], scope_body(x)))
        elif sc["kind"] == "list":
            out.append(' list %s { key "k_%s"; leaf k_%s { type string; }\n%s\n }' % (sc["name"], sc["name"], sc["name"], scope_body(x)))
        elif sc["kind"] == "grouping":
            out.append(" grouping %s {\n%s\n }\n %s" % (sc["name"], scope_body(x),
                                                       "uses %s;" % sc["name"] if not sc.get("wrap") else "container w_%s { uses %s; }" % (sc["name"], sc["name"])))
        elif sc["kind"] in ("input", "output"):
            if sc["rpc"] in done_rpc:
                continue
            done_rpc.add(sc["rpc"])
            parts = ["  %s {\n%s\n  }" % (scopes[j]["kind"], scope_body(j)) for j in range(len(scopes)) if scopes[j].get("rpc") == sc["rpc"]]
            out.append(" rpc %s {\n%s\n }" % (sc["rpc"], "\n".join(parts)))
    out.append("}")
    return "\n".join(out)


def render_all(mod):
    return render_mod(mod) + ("\n" + render_mod(mod, "dev") if has_dev_module(mod) else "")


def model_fold(mods):
    """sets n['m'] for every node: ('ok', range-token | None) | ('err',) | ('skip',) (an ancestor was rejected / unmodelled)"""
    todo = []
    for mod in mods:
        isl, dec, fd, lo, hi = kind_info(mod["kind"], mod["fd"])
        mod["length"], mod["dec"] = isl, dec
        byname = {n["name"]: n for n in mod["nodes"]}
        for n in mod["nodes"]:
            n.pop("m", None)
            n["_p"] = byname.get(n["parent"])
            n["_len"] = isl
        mod["_base"] = ("ok", None if isl else rng([(lo, hi)], fd))
        todo.extend((mod, n) for n in mod["nodes"])
    evals = 0
    fdm = [mod for mod in mods if mod.get("fdtext") is not None]
    if fdm:
        outs = lib.run_ml(["asrangeint %s 1 18" % hexs(mod.get("fdraw", mod["fdtext"])) for mod in fdm])
        for mod, o in zip(fdm, outs):
            t = o.split()
            mod["_fd"] = "skip" if t[0] not in ("ok", "err") else "err" if t[0] == "err" else "ok"
            if t[0] == "ok":
                mod["fd"] = int(t[1])
    while todo:
        batch, rest = [], []
        for mod, n in todo:
            pm = mod["_base"] if n["_p"] is None else n["_p"].get("m")
            if n["parent"] == "decimal64" and mod.get("_fd", "ok") != "ok":
                pm = (mod["_fd"],)       # the fraction-digits statement itself is rejected by the model (asRangeInt 1 18)
                if pm[0] == "err":
                    n["m"] = pm
                    continue
            if pm is None:
                rest.append((mod, n))
            elif pm[0] != "ok":
                n["m"] = ("skip",)
            elif n["text"] is None:
                n["m"] = pm
            else:
                ptok = pm[1] if pm[1] is not None else rng([(0, P64 - 1)], 0)
                batch.append((n, "ranges %s %s %d %d" % (ptok, hexs(n["text"]), mod["dec"], mod["fd"] if mod["dec"] else 0)))
        if batch:
            outs = lib.run_ml([c for _, c in batch])
            evals += len(batch)
            for (n, _), o in zip(batch, outs):
                t = o.split()
                n["m"] = ("ok", t[1] if len(t) > 1 else "-") if t[0] == "ok" else ("err",) if t[0] == "err" else ("skip",)
                if n["m"][0] == "ok" and n["_len"] and any(x.endswith(":1") for part in n["m"][1].split(",") for x in part.split("~")):
                    n["m"] = ("skip",)   # "-0" as a length bound: Type.resolve's own "negative length" test, not part of the model
        elif len(rest) == len(todo):
            for _, n in rest:      # parent is not a node of the module (never generated)
                n["m"] = ("skip",)
            rest = []
        todo = rest
    for mod in mods:
        for n in mod["nodes"]:
            n.pop("_p", None)
            n.pop("_len", None)
        mod.pop("_base", None)
        mod.pop("_fd", None)
    return evals


def prune(mods, rnd):
    """keep at most one rejected restriction per module (Process reports all errors or none) and nothing below a
    rejected one; in half of the modules keep none, so that the resolved sets of the accepted ones are compared"""
    for mod in mods:
        bad = [n for n in mod["nodes"] if n["m"][0] == "err"]
        nm = mod["name"]
        want = True if nm.startswith("f") else int(nm[1:]) % 2 == 1 if nm.startswith("s") else rnd.random() < 0.5
        keep = rnd.choice(bad)["name"] if bad and want else None
        mod["nodes"] = [n for n in mod["nodes"] if n["m"][0] == "ok" or n["name"] == keep]
        names = {n["name"] for n in mod["nodes"]}
        for n in mod["nodes"]:
            if n.get("union") is not None:
                n["union"] = [m for m in n["union"] if m in names]
        gone = {n["name"] for n in mod["nodes"] if n.get("union") is not None and not n["union"]}
        while gone:     # unions without a member left, and what refers to them
            mod["nodes"] = [n for n in mod["nodes"] if n["name"] not in gone]
            gone = {n["name"] for n in mod["nodes"] if n["parent"] in gone}
        mod["reject"] = keep


def tok_vals(tok):
    if tok in (None, "-"):
        return []
    out = []
    for part in tok.split(","):
        ab = []
        for x in part.split("~"):
            v, _, neg = x.split(":")
            ab.append(-int(v) if neg == "1" else int(v))
        out.append(tuple(ab))
    return out


def text_vals(t, fd):
    if not t:
        return []
    out = []
    for part in t.split("|"):
        ab = []
        for x in part.split(".."):
            neg = x.startswith("-")
            x = x.lstrip("-")
            i, _, f = x.partition(".")
            v = int(i + f.ljust(fd, "0")[:max(fd, len(f))]) if fd else int(i)
            ab.append(-v if neg else v)
        out.append(tuple(ab))
    return out


def go_line(mod, ops="L0,P,P"):
    if has_dev_module(mod):     # the deviating module is loaded after or before the one it deviates
        return "process - %s 2 %s %s %s %s" % ("L1,L0,P,P" if mod.get("devfirst") else "L0,L1,P,P", hexs(mod["name"] + ".yang"), hexs(render_mod(mod)),
                                              hexs(mod["name"] + "_dev.yang"), hexs(render_mod(mod, "dev")))
    return "process - %s 1 %s %s" % (ops, hexs(mod["name"] + ".yang"), hexs(render_mod(mod)))


def go_leaves(r):
    out = {}

    def walk(c):
        if c is None:
            return
        if c.get("kind") in ("Leaf", "leaf") or c.get("type"):
            out[c["name"]] = c
        for k in c.get("children") or []:
            walk(k)
        walk(c.get("input"))
        walk(c.get("output"))
    for m in r["modules"]:
        walk(m["tree"])
    return out


def compare_mod(mod, goline):
    """returns None or a description of the disagreement"""
    import json
    try:
        j = json.loads(goline)
    except Exception:
        return "implementation output unreadable: %s" % goline[:200]
    if j["loads"] != ["ok"] * (2 if has_dev_module(mod) else 1):
        return "module not loaded: %s" % j["loads"]
    byname = {n["name"]: n for n in mod["nodes"]}
    fd = mod["fd"] if mod["dec"] else 0
    field = "length" if mod["length"] else "range"
    for ri, r in enumerate(j["runs"]):
        if mod["reject"] is not None:
            if not r["errors"]:
                return "run %d: type '%s' is an error in the model (restriction malformed / empty, bounds out of order, not within its parent's set, or fraction-digits outside 1..18) but Process reported no error" % (ri, mod["reject"])
            continue
        if r["errors"]:
            return "run %d: model accepts every restriction, Process reported %s" % (ri, r["errors"][:2])
        leaves = go_leaves(r)
        for n in mod["nodes"]:
            if not n["leaf"]:
                continue
            c = leaves.get(n["name"])
            if c is None or not c.get("type"):
                return "run %d: leaf %s missing" % (ri, n["name"])
            holder = n if n.get("union") is not None else byname.get(n["parent"]) if byname.get(n["parent"], {}).get("union") is not None else None
            if holder is not None:
                # members that are Equal to an earlier one are dropped by the implementation
                want = []
                for m in holder["union"]:
                    v = tok_vals(byname[m]["m"][1])
                    if v not in want:
                        want.append(v)
                got = [text_vals(u.get(field, ""), fd) for u in c["type"].get("union") or [] if u.get("kind") == mod["kind"]]
                if got != want:
                    return "run %d: union leaf %s resolved to members %s, model %s" % (ri, n["name"], got[:6], want[:6])
                continue
            got = text_vals(c["type"].get(field, ""), fd)
            want = tok_vals(n["m"][1])
            if got != want:
                return "run %d: leaf %s resolved to %s, model %s" % (ri, n["name"], got[:6], want[:6])
    return None


def pick_points(rnd, A, B, k):
    cand = set()
    for base in (A, B, (A + B) // 2, 0):
        for d in (-11, -10, -6, -5, -2, -1, 0, 1, 2, 5, 6, 10, 11, 50, -50):
            cand.add(base + d)
    span = B - A
    for _ in range(8):
        cand.add(A + rnd.randint(0, span))
        cand.add(A + rnd.randint(0, min(span, 200)))
        cand.add(B - rnd.randint(0, min(span, 200)))
    cand = sorted(x for x in cand if A <= x <= B)
    return sorted(rnd.sample(cand, min(k, len(cand))))


def parts_text(rnd, pts, A, B, fd, n_parts, anchor):
    """n_parts increasing parts over the sorted points; anchor: first part starts at A and last ends at B"""
    need = 2 * n_parts
    if len(pts) < need:
        n_parts = max(1, len(pts) // 2)
        need = 2 * n_parts
    idx = sorted(rnd.sample(range(len(pts)), need))
    q = [pts[i] for i in idx]
    if anchor:
        q[0], q[-1] = A, B
    ps = []
    for i in range(n_parts):
        a, b = q[2 * i], q[2 * i + 1]
        sa = "min" if a == A and rnd.random() < 0.5 else short_lit(a, fd, rnd)
        sb = "max" if b == B and rnd.random() < 0.5 else short_lit(b, fd, rnd)
        ps.append(sa if a == b and rnd.random() < 0.5 and sa != "min" else sa + ".." + sb)
    if rnd.random() < 0.15:
        rnd.shuffle(ps)
    return rnd.choice(["|", " | ", "| "]).join(ps)


def gen_family(rnd, idx, kind=None):
    kind = kind or rnd.choice(list(INT_KINDS) * 2 + list(LEN_KINDS) * 3 + ["decimal64"] * 8)
    fd = rnd.choice([1, 2, 3, 9, 17, 18]) if kind == "decimal64" else 0
    isl, dec, fd, KLO, KHI = kind_info(kind, fd)
    nodes = []
    mode = rnd.random()
    if mode < 0.3:
        A, B = KLO, KHI
    else:
        w = rnd.choice([20, 100, 100, 1000, 10 ** 6]) * (10 ** max(0, fd - 1) if fd and rnd.random() < 0.7 else 1)
        w = min(w, KHI - KLO)
        c = rnd.choice([KLO, KHI - w, max(KLO, -w // 2), max(KLO, 1), max(KLO, min(KHI - w, rnd.randint(-1000, 1000)))])
        A = max(KLO, min(c, KHI - w))
        B = A + w
    pts = pick_points(rnd, A, B, 14)
    whole_text = None if (A, B) == (KLO, KHI) and rnd.random() < 0.5 else \
        ("min..max" if (A, B) == (KLO, KHI) else "%s..%s" % (short_lit(A, fd, rnd), short_lit(B, fd, rnd)))
    nodes.append(dict(name="whole", parent=kind, text=whole_text, leaf=False))
    parents = ["whole"]
    for h in range(rnd.randint(1, 3)):
        nm = "holed%d" % h
        nodes.append(dict(name=nm, parent=rnd.choice(["whole"] * 3 + parents), leaf=False,
                          text=parts_text(rnd, pts, A, B, fd, rnd.randint(2, 3), rnd.random() < 0.8)))
        parents.append(nm)
    if rnd.random() < 0.5:
        nodes.append(dict(name="alias", parent=rnd.choice(parents), text=None, leaf=False))
        parents.append("alias")
    if rnd.random() < 0.5:
        nodes.append(dict(name="deep", parent=rnd.choice(parents[1:]), leaf=False,
                          text=parts_text(rnd, pts, A, B, fd, rnd.randint(1, 3), rnd.random() < 0.5)))
        parents.append("deep")
    typedefs = list(nodes)
    leaves = [dict(name="see_" + p, parent=p, text=None, leaf=True) for p in parents if rnd.random() < 0.6]
    for ti in range(rnd.randint(1, 3)):
        text = parts_text(rnd, pts, A, B, fd, rnd.randint(1, 3), rnd.random() < 0.3)
        users = rnd.sample(parents, min(len(parents), rnd.randint(2, 4)))
        if "whole" not in users and rnd.random() < 0.8:
            users[0] = "whole"
        for ui, u in enumerate(users):
            if rnd.random() < 0.25:     # through a typedef of its own
                leaves.append(dict(name="td%d_%d" % (ti, ui), parent=u, text=text, leaf=False))
                leaves.append(dict(name="lt%d_%d" % (ti, ui), parent="td%d_%d" % (ti, ui), text=None, leaf=True))
            else:
                leaves.append(dict(name="l%d_%d" % (ti, ui), parent=u, text=text, leaf=True))
        if rnd.random() < 0.3 and (A, B) == (KLO, KHI):
            leaves.append(dict(name="lb%d" % ti, parent=kind, text=text, leaf=True))
    order = rnd.random()
    if order < 0.4:
        rnd.shuffle(leaves)
        nodes = typedefs + leaves
    elif order < 0.7:
        rnd.shuffle(leaves)
        rnd.shuffle(typedefs)
        nodes = leaves + typedefs
    else:
        nodes = typedefs + leaves
        rnd.shuffle(nodes)
    return dict(name="m%d" % idx, kind=kind, fd=fd, nodes=nodes)


def fixed_families():
    """same outer bounds, different interior, byte-identical restriction on both, in both statement orders"""
    out = []

    def fam(kind, fd, whole, holed, text):
        for swap in (0, 1):
            ls = [dict(name="first", parent="whole", text=text, leaf=True), dict(name="second", parent="holed", text=text, leaf=True)]
            out.append(dict(name="f%d" % len(out), kind=kind, fd=fd, nodes=[
                dict(name="whole", parent=kind, text=whole, leaf=False), dict(name="holed", parent="whole", text=holed, leaf=False)]
                + (ls[::-1] if swap else ls)))
    for kind, (lo, hi) in INT_KINDS.items():
        a = max(lo, 1)
        fam(kind, 0, "%d..%d" % (a, a + 99), "%d..%d | %d..%d" % (a, a + 9, a + 89, a + 99), "%d..%d" % (a + 4, a + 94))
        fam(kind, 0, "%d..%d" % (a, a + 99), "%d..%d | %d..%d" % (a, a + 9, a + 89, a + 99), "min..%d | %d..max" % (a + 49, a + 94))
        fam(kind, 0, None, "min..%d | %d..max" % (lo + 10, hi - 10), "%d..%d" % (lo + 5, hi - 5))
        fam(kind, 0, None, "min..%d | %d..max" % (lo + 10, hi - 10), "min..%d|%d..max" % (lo + 2, hi - 2))
    for kind in LEN_KINDS:
        fam(kind, 0, "0..64", "0..8 | 32..64", "4..40")
        fam(kind, 0, None, "0..8 | 32..max", "4..40")
        fam(kind, 0, "min..max", "min..8 | 18446744073709551605..max", "min..max")
    for fd in (1, 2, 9, 17, 18):
        fam("decimal64", fd, "-5..5", "-5..-1 | 1..5", "-2.5..2.5")
        fam("decimal64", fd, None, "min..-1 | 1..max", "-2.5..2.5")
        fam("decimal64", fd, None, "min..-1 | 1..max", "min..max")
    return out


def gen_symmetric(rnd, idx):
    """parents symmetric around zero (one part -a..a, or several parts with mirrored bounds); children that keep one end or
    a sign-flipped sub-part (same magnitudes as the parent's bounds, other sign); grandchildren that are legal only in the
    parent's wider set"""
    import copy
    kind = rnd.choice(["int8", "int16", "int32", "int64", "decimal64", "decimal64"])
    fd = rnd.choice([1, 2, 9, 17, 18]) if kind == "decimal64" else 0
    isl, dec, fd, KLO, KHI = kind_info(kind, fd)
    L = lambda v: short_lit(v, fd, rnd)
    a = rnd.choice([1, 5, 100, 127, KHI, KHI, rnd.randint(1, min(KHI, 10 ** 6)), rnd.randint(1, KHI),
                    15 * 10 ** max(0, fd - 1)])
    a = max(1, min(a, KHI))
    shape = rnd.random()
    if shape < 0.5 or a < 9:
        parts = [(-a, a)]
    elif shape < 0.75:
        c = rnd.randint(1, a - 2)
        parts = [(-c, c), (c + 2, a)] if rnd.random() < 0.5 else [(-a, -c - 2), (-c, c)]
    else:
        c = rnd.randint(1, a - 2)
        b = rnd.randint(0, c - 1) if c > 1 else 0
        parts = [(-a, -c), (c, a)] if rnd.random() < 0.5 else [(-a, -c - 2), (-b, b), (c + 2, a)]
    ptext = " | ".join(("max" if y == KHI and rnd.random() < 0.5 else L(x)) if x == y else
                       "%s..%s" % (L(x), "max" if y == KHI and rnd.random() < 0.5 else L(y)) for x, y in parts)
    nodes = [dict(name="sym", parent=kind, text=ptext, leaf=False), dict(name="see_sym", parent="sym", text=None, leaf=True)]
    lo0, hi0 = parts[0][0], parts[-1][1]
    kids = set()
    for x, y in parts:
        for v in (x, y):
            for w in (v, -v):
                rest = [L(p) if p == q else "%s..%s" % (L(p), L(q)) for p, q in parts if (p, q) != (x, y)]
                kids.add("|".join(sorted([L(w)] + rest, key=lambda t: rnd.random())) if rest and rnd.random() < 0.6 else L(w))
    kids.update(["min", "max", L(hi0), L(lo0), "%s..%s" % (L(-hi0), L(-hi0)), "max|min" if len(parts) > 1 else "max"])
    if len(parts) > 1:
        kids.add("min|max")
        kids.add(" | ".join("%s..%s" % (L(-y), L(-x)) for x, y in parts[::-1]))   # the mirrored set
    kids = rnd.sample(sorted(kids), min(len(kids), 5))
    grand = ["%s..0" % L(lo0), "0..%s" % L(hi0), "0", L(lo0), L(hi0), "min..max", ptext, "%s..%s" % (L(lo0), L(hi0))]
    for i, k in enumerate(kids):
        direct = rnd.random() < 0.4
        if direct:
            nodes.append(dict(name="kid%d" % i, parent="sym", text=k, leaf=True))
        else:
            nodes.append(dict(name="kid%d" % i, parent="sym", text=k, leaf=False))
            nodes.append(dict(name="see_kid%d" % i, parent="kid%d" % i, text=None, leaf=True))
            for gi, g in enumerate(rnd.sample(grand, 3)):
                nodes.append(dict(name="g%d_%d" % (i, gi), parent="kid%d" % i, text=g, leaf=rnd.random() < 0.7))
    if rnd.random() < 0.5:
        head, tail = nodes[:2], nodes[2:]
        rnd.shuffle(tail)
        nodes = tail + head if rnd.random() < 0.3 else head + tail
    m0 = dict(name="s%d" % (2 * idx), kind=kind, fd=fd, nodes=nodes)          # even: all rejected ones dropped, sets compared
    m1 = dict(name="s%d" % (2 * idx + 1), kind=kind, fd=fd, nodes=copy.deepcopy(nodes))   # odd: one rejected one kept
    return [m0, m1]


def fixed_symmetric():
    out = []

    def fam(kind, fd, parent, child, grandchild):
        for via_typedef in (0, 1):
            nodes = [dict(name="alpha", parent=kind, text=parent, leaf=False)]
            if via_typedef:
                nodes += [dict(name="bravo", parent="alpha", text=child, leaf=False), dict(name="see", parent="bravo", text=None, leaf=True)]
            else:
                nodes += [dict(name="see", parent="alpha", text=child, leaf=True)]
            out.append(dict(name="s%d" % (2 * (5000 + len(out))), kind=kind, fd=fd, nodes=nodes))
            if via_typedef:
                out.append(dict(name="f_sym%d" % len(out), kind=kind, fd=fd,
                                nodes=nodes + [dict(name="wide", parent="bravo", text=grandchild, leaf=True)]))
    for kind, a in (("int8", 100), ("int8", 127), ("int16", 32767), ("int32", 5), ("int64", P63 - 1)):
        for child in ("%d" % a, "-%d" % a, "min", "max"):
            fam(kind, 0, "-%d..%d" % (a, a), child, "-%d..0" % a if child in ("%d" % a, "max") else "0..%d" % a)
    fam("int64", 0, "-9223372036854775807..max", "9223372036854775807", "min..0")
    fam("int32", 0, "-5..5|7..9", "5|7..9", "-5..0")
    fam("int32", 0, "-9..-7|-5..5|7..9", "-9..-7|5|7..9", "0")
    fam("int32", 0, "-9..-7|7..9", "7|9", "-8")
    for fd in (1, 2, 9, 17, 18):
        fam("decimal64", fd, "-1.5..1.5", "max", "-1.5..0")
        fam("decimal64", fd, "-1.5..1.5", "-1.5", "0..1.5")
        q = "0." + "0" * (fd - 1) + "1"
        fam("decimal64", fd, "-%s..%s" % (q, q), "-" + q, "0")
    return out


def fixed_signs():
    """a bound with a malformed sign combination in a restriction of a module: rejected unless it is one leading sign"""
    out = []
    for kind, fd, whole, forms in (("int8", 0, "-100..100", ("%s", "%s..20", "min..%s")), ("int64", 0, None, ("%s..20", "-30|%s")),
                                   ("string", 0, "0..100", ("%s", "%s..20")), ("uint16", 0, None, ("%s..20",)),
                                   ("decimal64", 2, "-100..100", ("%s", "%s..20", "min..%s")), ("decimal64", 18, None, ("%s..8",))):
        for b in sign_bounds(kind == "decimal64"):
            if " " in b and len(b) > 4:
                continue
            for form in forms:
                nodes = [dict(name="whole", parent=kind, text=whole, leaf=False), dict(name="ok", parent="whole", text=None, leaf=True),
                         dict(name="l", parent="whole", text=form % b, leaf=True)]
                out.append(dict(name="f_sg%d" % len(out), kind=kind, fd=fd, nodes=nodes))
    return out


SCOPE_KINDS = ("container", "list", "grouping", "input", "output")


def make_scopes(rnd, k):
    kinds = [rnd.choice(SCOPE_KINDS) for _ in range(k)]
    if rnd.random() < 0.3 and k >= 2:
        kinds[0], kinds[1] = "input", "output"
    scopes, rpcs = [], 0
    for i, kd in enumerate(kinds):
        sc = dict(kind=kd, name="c%d" % i)
        if kd in ("input", "output"):
            mate = next((x for x in scopes if x["kind"] in ("input", "output") and x["kind"] != kd
                         and sum(1 for y in scopes if y.get("rpc") == x["rpc"]) == 1), None)
            if mate is not None and rnd.random() < 0.7:
                sc["rpc"] = mate["rpc"]
            else:
                sc["rpc"] = "r%d" % rpcs
                rpcs += 1
        if kd == "grouping":
            sc["wrap"] = rnd.random() < 0.5
        scopes.append(sc)
    return scopes


def gen_scoped(rnd, idx):
    """typedefs of the SAME name in sibling scopes with disjoint sets; the same restriction texts in every scope, most of
    them legal under exactly one of the typedefs"""
    import copy
    kind = rnd.choice(list(INT_KINDS) + list(LEN_KINDS) + ["decimal64"] * 2)
    fd = rnd.choice([1, 2, 9, 18]) if kind == "decimal64" else 0
    isl, dec, fd, KLO, KHI = kind_info(kind, fd)
    k = rnd.randint(2, 3)
    scopes = make_scopes(rnd, k)
    unit = 10 ** max(0, fd - 1) if fd and fd < 18 else 1
    lo = KLO if rnd.random() < 0.3 else max(KLO, rnd.choice([0, 1, -100 * unit, -5 * unit]))
    seg = max(4, min((KHI - lo) // (2 * k), rnd.choice([10, 100, 1000]) * unit))
    nodes, texts = [], []
    if rnd.random() < 0.5:
        nodes.append(dict(name="top", parent=kind, text=None, leaf=False))
    for i in range(k):
        A = lo + 2 * i * seg
        B = A + seg if not (i == k - 1 and rnd.random() < 0.3) else KHI
        pts = pick_points(rnd, A, B, 8)
        base = "top" if nodes and nodes[0]["name"] == "top" and rnd.random() < 0.5 else kind
        nodes.append(dict(name="t@%d" % i, yname="t", scope=i, parent=base, leaf=False,
                          text=parts_text(rnd, pts, A, B, fd, rnd.randint(1, 2), True)))
        if rnd.random() < 0.5:
            nodes.append(dict(name="u@%d" % i, yname="u", scope=i, parent="t@%d" % i, leaf=False,
                              text=parts_text(rnd, pts, A, B, fd, rnd.randint(1, 2), rnd.random() < 0.5)))
        texts.append(parts_text(rnd, pts, A, B, fd, rnd.randint(1, 2), False))
        if rnd.random() < 0.6:
            texts.append("min..%s" % short_lit(rnd.choice(pts), fd, rnd))
    texts += ["min..max", rnd.choice(["min", "max", "max|min"])]
    for i in range(k):
        mine = [n for n in nodes if n.get("scope") == i]
        for tn in mine:
            nodes.append(dict(name="see_%s_%d" % (tn["yname"], i), scope=i, parent=tn["name"], text=None, leaf=True))
        for ti, tx in enumerate(texts):
            if rnd.random() < 0.7:
                tn = rnd.choice(mine)
                nodes.append(dict(name="l%d_%d" % (i, ti), scope=i, parent=tn["name"], text=tx, leaf=True))
    order = list(range(k))
    rnd.shuffle(order)
    layout = [("n", "top")] + [("s", i) for i in order]
    if rnd.random() < 0.3:
        layout = layout[1:] + layout[:1]
    if rnd.random() < 0.5:    # statement order inside the scopes
        head = [n for n in nodes if n.get("scope") is None]
        tail = [n for n in nodes if n.get("scope") is not None]
        rnd.shuffle(tail)
        nodes = head + tail
    m0 = dict(name="s%d" % (2 * idx), kind=kind, fd=fd, nodes=nodes, scopes=scopes, layout=layout)
    m1 = copy.deepcopy(m0)
    m1["name"] = "s%d" % (2 * idx + 1)
    return [m0, m1]


def gen_union(rnd, idx):
    """restrictions inside union members (leaf and typedef unions), preceded / followed by an unrestricted member of the
    same base; some members are in error: not within the parent, bounds out of order, malformed, too much precision"""
    import copy
    kind = rnd.choice(list(INT_KINDS) + list(LEN_KINDS) * 2 + ["decimal64"] * 2)
    fd = rnd.choice([1, 2, 9, 18]) if kind == "decimal64" else 0
    isl, dec, fd, KLO, KHI = kind_info(kind, fd)
    unit = 10 ** max(0, fd - 1) if fd and fd < 18 else 1
    A = max(KLO, rnd.choice([0, 1, -5 * unit, KLO]))
    B = min(KHI, A + rnd.choice([10, 100, 255]) * unit) if rnd.random() < 0.7 else KHI
    pts = pick_points(rnd, A, B, 10)
    nodes = [dict(name="small", parent=kind, leaf=False, text="%s..%s" % (short_lit(A, fd, rnd), short_lit(B, fd, rnd)))]
    bases = [kind, "small"]
    if rnd.random() < 0.5:
        nodes.append(dict(name="holed", parent="small", leaf=False, text=parts_text(rnd, pts, A, B, fd, 2, True)))
        bases.append("holed")

    def bad_text():
        c = rnd.random()
        x, y = sorted(rnd.sample(pts, 2))
        if c < 0.35 and B < KHI:
            return "%s..%s" % (short_lit(x, fd, rnd), short_lit(B + rnd.choice([1, 10, 45]) * unit, fd, rnd))
        if c < 0.45 and kind in INT_KINDS:
            return "%d..%d" % (KLO, KHI + 45)
        if c < 0.65:
            return "%s..%s" % (short_lit(y, fd, rnd), short_lit(x, fd, rnd))
        if c < 0.8:
            return rnd.choice(["%s..", "..%s", "%s...7", "-+%s", "%s|"]) % short_lit(x, fd, rnd)
        if fd and fd < 18:
            return lit(x, fd) + "5"
        return "%s..%s" % (short_lit(y, fd, rnd), short_lit(x, fd, rnd))

    for h in range(rnd.randint(2, 4)):
        holder = "un%d" % h
        is_leaf = rnd.random() < 0.6
        base = rnd.choice(bases)
        members = []
        for mi in range(rnd.randint(1, 3)):
            r = rnd.random()
            tx = None if r < 0.2 else bad_text() if r < 0.55 else parts_text(rnd, pts, A, B, fd, rnd.randint(1, 2), rnd.random() < 0.3)
            members.append(dict(name="%s.m%d" % (holder, mi), parent=base if rnd.random() < 0.75 else rnd.choice(bases), text=tx, leaf=False, member=True))
        plain = dict(name="%s.p" % holder, parent=base, text=None, leaf=False, member=True)
        pos = rnd.random()
        members = [plain] + members if pos < 0.55 else members + [plain] if pos < 0.8 else members
        hn = dict(name=holder, parent=None, text=None, leaf=is_leaf, union=[m["name"] for m in members])
        if rnd.random() < 0.3:
            hn["extra"] = (rnd.randint(0, len(members)), rnd.choice(["boolean", "empty"] + ([] if isl else ["string"])))
        nodes += members + [hn]
        if not is_leaf:
            nodes.append(dict(name="see_" + holder, parent=holder, text=None, leaf=True))
    if rnd.random() < 0.4:
        heads = [n for n in nodes if not n["leaf"] or n.get("member")]
        ls = [n for n in nodes if n["leaf"] and not n.get("member")]
        nodes = ls + heads if rnd.random() < 0.5 else heads + ls
    m0 = dict(name="s%d" % (2 * idx), kind=kind, fd=fd, nodes=nodes)
    m1 = copy.deepcopy(m0)
    m1["name"] = "s%d" % (2 * idx + 1)
    return [m0, m1]


def fixed_scoped_union():
    out = []

    def sib(kind, fd, ta, tb, text, kinds=("container", "container")):
        for order in (0, 1):
            scopes = [dict(kind=kinds[0], name="a"), dict(kind=kinds[1], name="b")]
            for sc in scopes:
                if sc["kind"] in ("input", "output"):
                    sc["rpc"] = "r"
            nodes = [dict(name="t@a", yname="t", scope=0, parent=kind, text=ta, leaf=False), dict(name="x", scope=0, parent="t@a", text=None, leaf=True),
                     dict(name="t@b", yname="t", scope=1, parent=kind, text=tb, leaf=False), dict(name="y", scope=1, parent="t@b", text=text, leaf=True)]
            out.append(dict(name="f_sc%d" % len(out), kind=kind, fd=fd, nodes=nodes, scopes=scopes, layout=[("s", 1), ("s", 0)] if order else None))
    for kinds in (("container", "container"), ("list", "container"), ("grouping", "grouping"), ("input", "output"), ("container", "grouping")):
        sib("uint8", 0, "1..10", "100..200", "2..9", kinds)
        sib("uint8", 0, "1..10", "100..200", "min..150", kinds)
        sib("uint8", 0, "1..10", "100..200", "min..max", kinds)
        sib("string", 0, "1..10", "100..200", "2..9", kinds)
        sib("string", 0, "1..10", "100..200", "min..150", kinds)
        sib("decimal64", 2, "1..10", "100..200", "2.5..9", kinds)
        sib("int64", 0, "min..-10", "10..max", "min..-20", kinds)

    def un(kind, fd, typedefs, members, as_typedef):
        nodes = [dict(name=n, parent=p, text=t, leaf=False) for n, p, t in typedefs]
        ms = [dict(name="u.m%d" % i, parent=p, text=t, leaf=False, member=True) for i, (p, t) in enumerate(members)]
        nodes += ms + [dict(name="u", parent=None, text=None, leaf=not as_typedef, union=[m["name"] for m in ms])]
        if as_typedef:
            nodes.append(dict(name="see_u", parent="u", text=None, leaf=True))
        out.append(dict(name="f_un%d" % len(out), kind=kind, fd=fd, nodes=nodes))
    for as_td in (False, True):
        for flip in (False, True):
            o = (lambda l: l[::-1]) if flip else (lambda l: l)
            un("uint8", 0, [], o([("uint8", None), ("uint8", "0..300")]), as_td)
            un("uint16", 0, [], o([("uint16", None), ("uint16", "70000")]), as_td)
            un("string", 0, [], o([("string", None), ("string", "10..5")]), as_td)
            un("binary", 0, [], o([("binary", None), ("binary", "1..")]), as_td)
            un("int32", 0, [("small", "int32", "1..10")], o([("small", None), ("small", "5..20")]), as_td)
            un("int32", 0, [("small", "int32", "1..10")], o([("small", None), ("small", "2..5"), ("small", "0")]), as_td)
            un("decimal64", 2, [("small", "decimal64", "1..10")], o([("small", None), ("small", "1.555")]), as_td)
            un("decimal64", 1, [("small", "decimal64", "-1.5..1.5")], o([("small", None), ("small", "-2..1")]), as_td)
            un("string", 0, [("small", "string", "0..64")], o([("small", None), ("small", "4..100")]), as_td)
    return out


def fixed_long_fraction():
    out = []
    for fd, whole in ((1, None), (2, "-100..100"), (18, "-5..5")):
        for bi, b in enumerate(long_fraction_bounds()):
            for form in (("%s", "%s..4")[bi % 2],):
                nodes = [dict(name="whole", parent="decimal64", text=whole, leaf=False), dict(name="ok", parent="whole", text=None, leaf=True),
                         dict(name="l", parent="whole", text=form % b, leaf=rnd_leaf(len(out)))]
                out.append(dict(name="f_lf%d" % len(out), kind="decimal64", fd=fd, nodes=nodes))
    return out


def rnd_leaf(i):
    return i % 3 != 0     # every third one as a typedef


def fixed_empty_and_fd():
    out = []
    # empty / absent restriction argument: on every kind, on a builtin, in a typedef, on a restricted typedef, in a union member
    for kind in list(INT_KINDS) + list(LEN_KINDS) + ["decimal64"]:
        fd = 2 if kind == "decimal64" else 0
        for q in ("d", "s", "c", "c2", "n"):
            for shape in range(5):
                nodes = [dict(name="whole", parent=kind, text=None if shape % 2 else "1..10", leaf=False),
                         dict(name="see", parent="whole", text=None, leaf=True)]
                if shape == 0:
                    nodes.append(dict(name="l", parent="whole", text="", quote=q, leaf=True))
                elif shape == 1:
                    nodes.append(dict(name="l", parent=kind, text="", quote=q, leaf=True))
                elif shape == 2:
                    nodes += [dict(name="td", parent="whole", text="", quote=q, leaf=False), dict(name="l", parent="td", text=None, leaf=True)]
                elif shape == 3:
                    nodes += [dict(name="u.p", parent="whole", text=None, leaf=False, member=True),
                              dict(name="u.m", parent="whole", text="", quote=q, leaf=False, member=True),
                              dict(name="u", parent=None, text=None, leaf=True, union=["u.p", "u.m"])]
                else:
                    nodes += [dict(name="u.m", parent="whole", text="", quote=q, leaf=False, member=True),
                              dict(name="u.p", parent=kind, text=None, leaf=False, member=True),
                              dict(name="u", parent=None, text=None, leaf=False, union=["u.m", "u.p"]), dict(name="l", parent="u", text=None, leaf=True)]
                out.append(dict(name="f_em%d" % len(out), kind=kind, fd=fd, nodes=nodes))
        # blank-only and separator-only arguments
        for tx in (" ", "|", "..", " | "):
            out.append(dict(name="f_em%d" % len(out), kind=kind, fd=fd, nodes=[
                dict(name="whole", parent=kind, text="1..10", leaf=False), dict(name="l", parent="whole", text=tx, leaf=True)]))
    # fraction-digits outside 1..18, including the values that are 1..18 modulo 256 / 65536
    fds = [str(v) for v in list(range(-2, 22)) + [127, 128, 255, 256, 257, 258, 265, 273, 274, 275, 511, 512, 513, 514, 530, 531, 65535, 65536,
                                                 65537, 65538, 65554, 4294967297, 4294967298, 18446744073709551617, 18446744073709551618,
                                                 -238, -239, -254, -255, -256, -257, -65534, 300]]
    fds += ["+2", "02", "018", "010", "2.0", "", " 2", "2 ", "+19", "-0", "00"]
    for ft in fds:
        for shape in range(3):
            txt = '"%s"' % ft if (not ft or " " in ft or ft[0] in "+-") else ft
            whole_text = (None, "1..2", "min..max")[shape]
            nodes = [dict(name="whole", parent="decimal64", text=whole_text, leaf=shape == 1)]
            if shape != 1:
                nodes += [dict(name="see", parent="whole", text=None, leaf=True), dict(name="l", parent="whole", text="1", leaf=True)]
            out.append(dict(name="f_fd%d" % len(out), kind="decimal64", fd=0, fdtext=txt, fdraw=ft, nodes=nodes))
    return out



# ------------------------------------------------------------------ the type statement of a deviate (another use site of Type.resolve)
def bad_restriction(rnd, kind, fd, A, B, KLO, KHI, pts):
    """a restriction text that is (most probably; the model decides) not acceptable under a parent A..B of the kind"""
    unit = 10 ** max(0, fd - 1) if fd and fd < 18 else 1
    L = lambda v: short_lit(v, fd, rnd)
    x, y = sorted(rnd.sample(pts, 2)) if len(pts) >= 2 else (A, B)
    c = rnd.randrange(10)
    if c == 0 and B < KHI:
        return "%s..%s" % (L(x), L(min(KHI, B + rnd.choice([1, 10, 45]) * unit)))        # above the parent
    if c == 1 and A > KLO:
        return "%s..%s" % (L(max(KLO, A - rnd.choice([1, 10, 45]) * unit)), L(y))        # below the parent
    if c == 2:
        return "%s..%s" % (L(x), lit(KHI + rnd.choice([1, 1, 2, 45]), fd))               # beyond the kind's maximum
    if c == 3 and kind not in LEN_KINDS:
        return "%s..%s" % (lit(KLO - rnd.choice([1, 1, 2, 45]), fd), L(y))               # beyond the kind's minimum
    if c == 4 and x != y:
        return "%s..%s" % (L(y), L(x))                                                   # bounds out of order
    if c == 5 and x != y:
        return "%s..%s|%s..%s" % (L(A), L(x), L(y), L(x))                                # second part out of order
    if c == 6:
        return rnd.choice(["%s..", "..%s", "%s...7", "-+%s", "%s|", "%s..%s..%s", "|%s", "%s.. ..%s"]).replace("%s", L(x))   # syntax
    if c == 7 and fd and fd < 18:
        return lit(x, fd) + "5"                                                          # more fraction digits than the type has
    if c == 8 and kind == "int64" or kind == "uint64" and c == 8:
        return "%d..%d" % (KLO, P64 if kind == "uint64" else P63)
    if A > KLO or B < KHI:
        return "%s..%s|%s" % (L(x), L(y), L(B + unit) if B < KHI else L(A - unit))       # one part outside
    return "%s..%s" % (L(y), L(x)) if x != y else "%s.." % L(x)


def gen_deviate(rnd, idx):
    """leaves / leaf-lists that get their type from `deviate replace { type ... }`, in the same module or in a second module
    that imports the first (typedef chain continued across the module boundary, either load order); the deviate type is
    a restricted builtin / typedef / union member; about half of the restrictions are in error"""
    import copy
    kind = rnd.choice(list(INT_KINDS) * 2 + list(LEN_KINDS) * 2 + ["decimal64"] * 5)
    fd = rnd.choice([1, 2, 9, 17, 18]) if kind == "decimal64" else 0
    isl, dec, fd, KLO, KHI = kind_info(kind, fd)
    unit = 10 ** max(0, fd - 1) if fd and fd < 18 else 1
    if rnd.random() < 0.3:
        A, B = KLO, KHI
    else:
        A = max(KLO, rnd.choice([0, 1, -5 * unit, KLO, KHI - 300 * unit]))
        B = min(KHI, A + rnd.choice([10, 100, 255]) * unit)
    pts = pick_points(rnd, A, B, 10)
    nodes = [dict(name="small", parent=kind, leaf=False, text=None if (A, B) == (KLO, KHI) and rnd.random() < 0.5 else "%s..%s" % (short_lit(A, fd, rnd), short_lit(B, fd, rnd))),
             dict(name="see_small", parent="small", text=None, leaf=True)]
    bases, devbases = [kind, "small"], []
    if rnd.random() < 0.6:
        nodes.append(dict(name="holed", parent="small", leaf=False, text=parts_text(rnd, pts, A, B, fd, 2, True)))
        bases.append("holed")
    two = rnd.random() < 0.6
    if two:
        for i in range(rnd.randint(0, 2)):
            par = rnd.choice(bases[1:] + devbases)
            r = rnd.random()
            nodes.append(dict(name="mine%d" % i, parent=par, leaf=False, home="dev",
                              text=None if r < 0.15 else bad_restriction(rnd, kind, fd, A, B, KLO, KHI, pts) if r < 0.3 else parts_text(rnd, pts, A, B, fd, rnd.randint(1, 2), rnd.random() < 0.5)))
            devbases.append("mine%d" % i)
    origs = ["string", "boolean", kind, "small", rnd.choice(list(INT_KINDS)), "decimal64"]
    for i in range(rnd.randint(2, 4)):
        where = "other" if two and rnd.random() < 0.75 else "same"
        dv = dict(orig=rnd.choice(origs), where=where, leaflist=rnd.random() < 0.35, wrap=rnd.random() < 0.3)
        cand = bases + (devbases if where == "other" else [])
        r = rnd.random()
        tx = None if r < 0.1 else bad_restriction(rnd, kind, fd, A, B, KLO, KHI, pts) if r < 0.55 else parts_text(rnd, pts, A, B, fd, rnd.randint(1, 3), rnd.random() < 0.3)
        if rnd.random() < 0.2:      # the deviate type is a union with a restricted member
            ms = [dict(name="dv%d.m" % i, parent=rnd.choice(cand), text=tx, leaf=False, member=True),
                  dict(name="dv%d.p" % i, parent=rnd.choice(cand), text=None, leaf=False, member=True)]
            if rnd.random() < 0.5:
                ms.reverse()
            nodes += ms + [dict(name="dv%d" % i, parent=None, text=None, leaf=True, union=[m["name"] for m in ms], dev=dv)]
        else:
            nodes.append(dict(name="dv%d" % i, parent=rnd.choice(cand), text=tx, leaf=True, dev=dv))
    if rnd.random() < 0.4:
        head, tail = nodes[:1], nodes[1:]
        rnd.shuffle(tail)
        nodes = tail + head if rnd.random() < 0.4 else head + tail
    m0 = dict(name="s%d" % (2 * idx), kind=kind, fd=fd, nodes=nodes, devfirst=rnd.random() < 0.5)   # even: rejected ones dropped, sets compared
    m1 = copy.deepcopy(m0)
    m1["name"] = "s%d" % (2 * idx + 1)                                                              # odd: one rejected one kept
    return [m0, m1]


def fixed_deviate():
    """each way a restriction can be in error (and the nearest acceptable one), as the type of a deviate replace, on every
    integer kind, on lengths and on decimal64 at fd 1, 2, 17, 18: on the builtin and on a typedef with an interior gap;
    leaf / leaf-list, same / other module"""
    out = []

    def dv(kind, fd, tdtext, parent, text, variant):
        where = "other" if variant & 1 else "same"
        nodes = [dict(name="small", parent=kind, text=tdtext, leaf=False), dict(name="see_small", parent="small", text=None, leaf=True)]
        par = parent
        if variant & 4 and where == "other" and parent == "small":     # through a typedef of the deviating module
            nodes.append(dict(name="mine", parent="small", text=None, leaf=False, home="dev"))
            par = "mine"
        nodes.append(dict(name="n", parent=par, text=text, leaf=True,
                          dev=dict(orig=("string", kind, "small", "boolean")[variant % 4], where=where, leaflist=bool(variant & 2), wrap=bool(variant & 8))))
        out.append(dict(name="f_dv%d" % len(out), kind=kind, fd=fd, nodes=nodes, devfirst=bool(variant & 16)))

    v = 0
    for kind, fd in [(k, 0) for k in list(INT_KINDS) + list(LEN_KINDS)] + [("decimal64", f) for f in (1, 2, 17, 18)]:
        isl, dec, fd, KLO, KHI = kind_info(kind, fd)
        u = 10 ** (fd - 1) if 0 < fd < 18 else 1
        a = max(KLO, u) if fd < 18 else 1
        T = lambda x: lit(x, fd)
        td = "%s..%s | %s..%s" % (T(a), T(a + 10 * u), T(a + 30 * u), T(a + 40 * u))
        on_builtin = [("%s..%s" % (T(a), T(KHI + 1)), "%s..%s" % (T(a), T(KHI))),          # one beyond the maximum / the maximum
                      ("%s..%s" % (T(a + 5 * u), T(a)), "%s..%s" % (T(a), T(a + 5 * u))),  # out of order / in order
                      ("%s..%s..%s" % (T(a), T(a + u), T(a + 2 * u)), "%s..%s|%s" % (T(a), T(a + u), T(a + 3 * u))),
                      ("min..%s|%s" % (T(a), T(KHI + 45)), "min..%s|max" % T(a))]
        if not isl:
            on_builtin.append(("%s..%s" % (T(KLO - 1), T(a)), "%s..%s" % (T(KLO), T(a))))  # one below the minimum / the minimum
        on_typedef = [("%s..%s" % (T(a + 5 * u), T(a + 35 * u)), "%s..%s|%s..%s" % (T(a + 5 * u), T(a + 10 * u), T(a + 30 * u), T(a + 35 * u))),   # spans the gap
                      ("%s..%s" % (T(a), T(a + 10 * u + 1)), "%s..%s" % (T(a), T(a + 10 * u))),                                            # one above a part
                      ("%s..max" % T(a + 30 * u - 1), "%s..max" % T(a + 30 * u)),                                                           # one below a part
                      ("max..min", "min|max"), ("min..%s|%s" % (T(a + 2 * u), T(a + 41 * u)), "min..%s|%s" % (T(a + 2 * u), T(a + 40 * u)))]
        for bad, good in on_builtin:
            for t in (bad, good):
                dv(kind, fd, td, kind, t, v)
            v += 1
        for bad, good in on_typedef:
            for t in (bad, good):
                dv(kind, fd, td, "small", t, v)
            v += 1
        v += 1
    return out


def run_modules(res, tier, seed):
    rnd = random.Random(seed * 7919 + 10)
    mods = fixed_families() + fixed_symmetric() + fixed_signs() + fixed_scoped_union() + fixed_long_fraction() + fixed_empty_and_fd() + fixed_deviate() + [gen_family(rnd, i) for i in range(700 if tier == "quick" else 12000)]
    for i in range(250 if tier == "quick" else 4000):
        mods += gen_symmetric(rnd, i)
    for i in range(200 if tier == "quick" else 3000):
        mods += gen_scoped(rnd, 100000 + i)
        mods += gen_union(rnd, 200000 + i)
    for i in range(200 if tier == "quick" else 3000):
        mods += gen_deviate(rnd, 300000 + i)
    evals = model_fold(mods)
    prune(mods, rnd)
    golines = lib.run_go([go_line(m) for m in mods])
    mism, rejected, leaves, restr = 0, 0, 0, 0
    dev_sites = sum(1 for m in mods for n in m["nodes"] if n.get("dev"))
    dev_rejected = sum(1 for m in mods if m["reject"] is not None and any(n["name"] == m["reject"] and (n.get("dev") or n.get("member")) for n in m["nodes"])
                       and any(n.get("dev") for n in m["nodes"]))
    dev_two = sum(1 for m in mods if has_dev_module(m))
    kinds = {}
    for mod, g in zip(mods, golines):
        kinds[mod["kind"]] = kinds.get(mod["kind"], 0) + 1
        rejected += mod["reject"] is not None
        leaves += sum(1 for n in mod["nodes"] if n["leaf"])
        restr += sum(1 for n in mod["nodes"] if n["text"] is not None)
        d = compare_mod(mod, g)
        if d:
            mism += 1
            if mism <= 3:
                res.violation("resolved range/length of a module differs from the proved model folded along the derivation chain: %s\n%s"
                              % (d, render_all(mod)[:1800]),
                              dict(kind="module", module=dict(name=mod["name"], kind=mod["kind"], fd=mod["fd"], scopes=mod.get("scopes"), fdtext=mod.get("fdtext"), fdraw=mod.get("fdraw"),
                                                               layout=mod.get("layout"), devfirst=mod.get("devfirst"),
                                                               nodes=[{k: v for k, v in n.items() if k != "m"} for n in mod["nodes"]])))
    return dict(modules=len(mods), model_links=evals, restrictions_checked=restr, leaves_compared=leaves, modules_with_one_rejected=rejected,
                deviate_type_sites=dev_sites, deviate_type_rejections_expected=dev_rejected, modules_with_deviating_module=dev_two,
                mismatches=mism, by_kind=kinds, sample_module=render_mod(mods[len(mods) // 2]),
                rule="modules with typedef derivation chains (8 integer kinds, string/binary lengths, decimal64 at fd {1,2,3,9,17,18}) whose sets have "
                     "interior gaps, and sets symmetric around zero restricted to one end / a sign-flipped part with grandchildren legal only "
                     "in the wider set; typedefs of the same name in sibling scopes (container, list, grouping, rpc input/output) with disjoint sets "
                     "and the same restriction texts in every scope; restrictions inside union members (leaf and typedef unions) before/after an "
                     "unrestricted member of the same base, some of them in error; empty / absent / blank restriction arguments in every quoting form "
                     "on every kind (builtin, typedef, restricted typedef, union member); the type statement of `deviate replace` as a further use site "
                     "(leaf / leaf-list, top level / in a container, deviation in the same module or in a second module importing the first, either "
                     "load order, typedef chain continued in the deviating module, union with a restricted member; original type of another kind): "
                     "per kind the nearest rejected / accepted pair for each way of being in error (one beyond the kind's extremes, bounds out of "
                     "order, too many '..', spanning a gap of the parent, one above / below a part) and random ones; Process must report an error "
                     "iff the model rejects, else the deviated leaf's set is the model's; decimal64 with fraction-digits outside 1..18 incl. values "
                     "that are 1..18 modulo 2^8 / 2^16 / 2^32 / 2^64 (decided by the model's asRangeInt 1 18); several leaves/typedefs restrict DIFFERENT parents with byte-identical texts (numerals and min/max), statement "
                     "order varied; each module is parsed once and Process is run twice in one Modules value; model = Range.parseChildRanges folded "
                     "along each chain from the builtin base; Process error <=> the model rejects the (single) offending restriction; otherwise every "
                     "leaf's resolved part list equals the model's by value; bounds with malformed sign combinations (every string over +,- of length 0..3, "
                     "signs after/inside the digits, blanks after the sign) must be rejected unless a single leading sign; a length restriction "
                     "whose result has a -0 bound is excluded (Type.resolve's separate 'negative length' test is not modelled)")


def run(res, tier, seed, proof):
    cases = gen(tier, seed)
    go, ml, mism, skipped = simple_run(lib, res, cases, canon=canon_numline)
    outs = {}
    for g in go:
        outs[g.split()[0]] = outs.get(g.split()[0], 0) + 1
    multi = sum(1 for g in go if g.startswith("ok") and "," in g)
    cov = dict(evaluations=len(cases), distinct_nontrivial=len({c for c in cases if c.startswith('ranges') and len(c.split()[2]) > 6}),
               rule="parseChildRanges(parent, text, decimal, fd) via the verif hook: exhaustive 1-2 part restrictions over 18 tokens on uint8 "
                    "and on a two-part parent; bounds within +-1 of every parent bound and of 2^63/2^64 on the 8 built-in integer ranges "
                    "and 6 restricted parents; accepted-by-construction partitions and one-off perturbations; decimal64 at fd {1,2,17,18} "
                    "(all 18 in thorough); malformed stream; non-trivial = text longer than 3 bytes; observable = error or list of (min,max) by value",
               mismatches=mism, skipped_unmodelled=skipped, distribution=dict(impl_outcomes=outs, accepted_multi_part=multi),
               samples=[cases[100], cases[len(cases) // 2], cases[-40]], sample_observations=[go[100], go[len(cases) // 2], go[-40]])
    mcov = run_modules(res, tier, seed)
    cov["evaluations"] += mcov["modules"]
    cov["mismatches"] += mcov["mismatches"]
    cov["module_level"] = mcov
    return cov, ["strings.Split/TrimSpace and strconv as modelled; sort.Sort returns a sorted permutation (modelled as insertion sort); "
                 "-0 and 0 are identified in the comparison",
                 "deviate replace { type }: the model is Range.parseChildRanges folded along the chain of the deviate's type (names resolved in the "
                 "deviating module, imported typedefs by prefix); that ApplyDeviate puts exactly this type on the target leaf is part of what is "
                 "compared, the target lookup itself (Find on the deviation path) is C17's/Schema.v's subject and only used with top-level or "
                 "one-container-deep absolute paths here"]


def replay(rep, res):
    if rep.get("kind") == "module":
        mod = rep["module"]
        model_fold([mod])
        bad = [n["name"] for n in mod["nodes"] if n["m"][0] == "err"]
        mod["reject"] = bad[0] if bad else None
        mod["nodes"] = [n for n in mod["nodes"] if n["m"][0] == "ok" or n["name"] == mod["reject"]]
        g = lib.run_go([go_line(mod)])[0]
        d = compare_mod(mod, g)
        print(render_all(mod), "\nmodel:", [(n["name"], n["m"]) for n in mod["nodes"]], "\nimpl :", g[:1500], "\n=>", d or "agree")
        return 1 if d else 0
    c = rep["case"]
    go, ml = lib.run_go([c])[0], lib.run_ml([c])[0]
    print("case :", c, "\nimpl :", go, "\nmodel:", ml)
    return 0 if canon_numline(go) == canon_numline(ml) else 1
