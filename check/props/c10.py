"""C10 — range / length restrictions."""
import itertools
import random

import lib
from props.numgrid import canon_numline, hexs, simple_run, P63, P64


def num(v, fd=0):
    return "%d:%d:%d" % (abs(v), fd, 1 if v < 0 else 0)


def rng(parts, fd=0):
    if not parts:
        return "-"
    return ",".join(num(a, fd) + "~" + num(b, fd) for a, b in parts)


INT_PARENTS = {
    "int8": [(-128, 127)], "int16": [(-32768, 32767)], "int32": [(-(1 << 31), (1 << 31) - 1)], "int64": [(-P63, P63 - 1)],
    "uint8": [(0, 255)], "uint16": [(0, 65535)], "uint32": [(0, (1 << 32) - 1)], "uint64": [(0, P64 - 1)],
    "two": [(1, 4), (10, 20)], "three": [(-10, -1), (1, 1), (3, P63)], "single-max": [(P64 - 1, P64 - 1)],
    "single-min": [(-P63, -P63)], "neg": [(-100, -50), (-10, -2)], "none": [],
}


def near(parts):
    s = {0, 1, -1, 2}
    for a, b in parts:
        for x in (a, b):
            s.update([x - 1, x, x + 1])
    s.update([P64 - 1, P64, -P63, -P63 - 1, P63])
    return sorted(s)


def lit(v, fd):
    if fd == 0:
        return str(v)
    sgn = "-" if v < 0 else ""
    d = str(abs(v)).rjust(fd + 1, "0")
    return sgn + d[:-fd] + "." + d[-fd:]


def gen(tier, seed):
    rnd = random.Random(seed)
    cases = []

    def add(parent, text, dec=0, fd=0):
        cases.append("ranges %s %s %d %d" % (parent, hexs(text), dec, fd))

    # exhaustive small scope on uint8 and on a two-part parent
    toks = ["min", "max", "0", "1", "2", "3", "4", "5", "9", "10", "11", "20", "21", "254", "255", "256", "-0", "-1"]
    parts = toks + ["%s..%s" % (a, b) for a in toks for b in toks]
    for pn in ("uint8", "two"):
        p = rng(INT_PARENTS[pn])
        for a in parts:
            add(p, a)
        sub = parts if tier == "thorough" else rnd.sample(parts, 60)
        for a in sub:
            for b in (parts if tier == "thorough" else rnd.sample(parts, 60)):
                add(p, a + "|" + b)
    # boundary grid on every parent
    for pn, pp in INT_PARENTS.items():
        p = rng(pp)
        vals = [str(v) for v in near(pp)] + ["min", "max"]
        for a in vals:
            add(p, a)
            for b in vals:
                add(p, a + ".." + b)
        for _ in range(400 if tier == "quick" else 6000):
            k = rnd.randint(2, 3)
            ps = []
            for _ in range(k):
                a = rnd.choice(vals)
                ps.append(a if rnd.random() < 0.3 else a + ".." + rnd.choice(vals))
            add(p, rnd.choice(["|", " | ", "| "]).join(ps))
    # chains: restrict, then restrict the result again (parent = previous result is exercised through 'two'/'three';
    # here: random sorted sub-partitions that must be accepted, and one-off perturbations that must not)
    for _ in range(1500 if tier == "quick" else 30000):
        pn = rnd.choice(["int8", "uint8", "int64", "uint64", "two", "three"])
        pp = INT_PARENTS[pn]
        a, b = rnd.choice(pp)
        lo = rnd.randint(a, min(b, a + 50)) if rnd.random() < 0.5 else max(a, b - rnd.randint(0, 50))
        hi = min(b, lo + rnd.randint(0, 60))
        mid = rnd.randint(lo, hi)
        form = rnd.choice(["%d..%d|%d..%d" % (lo, mid, min(hi, mid + 1), hi), "%d..%d|%d..%d" % (mid, hi, lo, mid),
                           "%d..%d|%d" % (lo, hi, mid), "%d|%d|%d" % (lo, mid, hi), "%d..%d|%d..%d" % (lo, mid, min(hi, mid + 2), hi),
                           "%d..%d" % (lo - 1, hi), "%d..%d" % (lo, hi + 1)])
        add(rng(pp), form)
    # decimal64
    for fd in (1, 2, 17, 18) if tier == "quick" else range(1, 19):
        full = [(-P63, P63 - 1)]
        pars = {"full": full, "two": [(-1000, -1), (0, 314)], "top": [(P63 - 11, P63 - 1)], "none": []}
        for pn, pp in pars.items():
            p = rng(pp, fd)
            vals = [lit(v, fd) for v in near(pp) if -P64 < v < P64] + ["min", "max", "0", "1", "-1", "19", "185", "9223372036854775807"]
            for a in vals:
                add(p, a, 1, fd)
                for b in rnd.sample(vals, min(len(vals), 8)):
                    add(p, a + ".." + b, 1, fd)
            for _ in range(150 if tier == "quick" else 1500):
                ps = []
                for _ in range(rnd.randint(2, 3)):
                    a = rnd.choice(vals)
                    ps.append(a if rnd.random() < 0.3 else a + ".." + rnd.choice(vals))
                add(p, "|".join(ps), 1, fd)
    # malformed / lenient syntax
    bad = ["", " ", "|", "1|", "|1", "..", "1..", "..5", "1..2..3", "1...5", "1 .. 2", " 1..2 | 5 ", "1..2|", "a", "min..", "max..min",
           "min..max", "max", "min", "5..1", "1..1", "1. .2", "1.5", "1|1", "2..3|1..2", "1..5|2..3", "1..5|5..9", "1..5|6..9", "1..5|7..9"]
    for pn in ("uint8", "two", "none"):
        for t in bad:
            add(rng(INT_PARENTS[pn]), t)
    for t in bad + ["1.5..2.5", "0.1|0.3", "1.55", "1e2", "-.5", "5."]:
        add(rng([(-P63, P63 - 1)], 1), t, 1, 1)
        add("-", t, 1, 2)
    return cases


def run(res, tier, seed, proof):
    cases = gen(tier, seed)
    go, ml, mism, skipped = simple_run(lib, res, cases, canon=canon_numline)
    outs = {}
    for g in go:
        outs[g.split()[0]] = outs.get(g.split()[0], 0) + 1
    multi = sum(1 for g in go if g.startswith("ok") and "," in g)
    cov = dict(evaluations=len(cases), distinct_nontrivial=len({c for c in cases if len(c.split()[2]) > 6}),
               rule="parseChildRanges(parent, text, decimal, fd) via the verif hook: exhaustive 1-2 part restrictions over 18 tokens on uint8 "
                    "and on a two-part parent; bounds within +-1 of every parent bound and of 2^63/2^64 on the 8 built-in integer ranges "
                    "and 6 restricted parents; accepted-by-construction partitions and one-off perturbations; decimal64 at fd {1,2,17,18} "
                    "(all 18 in thorough); malformed stream; non-trivial = text longer than 3 bytes; observable = error or list of (min,max) by value",
               mismatches=mism, skipped_unmodelled=skipped, distribution=dict(impl_outcomes=outs, accepted_multi_part=multi),
               samples=[cases[100], cases[len(cases) // 2], cases[-40]], sample_observations=[go[100], go[len(cases) // 2], go[-40]])
    return cov, ["strings.Split/TrimSpace and strconv as modelled; sort.Sort returns a sorted permutation (modelled as insertion sort); "
                 "-0 and 0 are identified in the comparison"]


def replay(rep, res):
    c = rep["case"]
    go, ml = lib.run_go([c])[0], lib.run_ml([c])[0]
    print("case :", c, "\nimpl :", go, "\nmodel:", ml)
    return 0 if canon_numline(go) == canon_numline(ml) else 1
